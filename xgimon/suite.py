"""Driver for the `suite` workload kind: the repository's own tests under the xgimon monitors.

A check calls  suite.run(mon, PID, tier)  from run_case for kind == "suite".  One pytest process is started in the
repository under test with `-p xgimon.suite_plugin`; the plugin's JSON result is folded into the check's monitor:
one evaluation per observed outermost boundary call, one mon.fail per distinct mechanism key.  What the tests
themselves assert is ignored (their failures are the suite's business, and some fail offline on the pinned commit).
"""
import json
import os
import subprocess
import sys
import tempfile

from . import env

# which monitors of the plugin decide which property, and which violations belong to it
SPEC = {
    "C01": {"mon": "inv", "classes": {"Hypergraph"}, "monitors": {"inv"}},
    "C02": {"mon": "inv", "classes": {"DiHypergraph"}, "monitors": {"inv"}},
    "C03": {"mon": "inv", "classes": {"SimplicialComplex"}, "monitors": {"inv"}},
    "C04": {"mon": "inv,fresh", "classes": {"Hypergraph", "DiHypergraph", "SimplicialComplex"}, "monitors": {"fresh"}},
    "C08": {"mon": "readonly", "classes": {"Hypergraph", "DiHypergraph", "SimplicialComplex"}, "monitors": {"readonly"}},
}
QUICK_TARGETS = {
    "C01": ["tests/core", "tests/utils", "tests/algorithms/test_connected.py", "xgi/core", "xgi/utils"],
    "C02": ["tests/core", "tests/utils", "xgi/core", "xgi/utils"],
    "C03": ["tests/core", "tests/utils", "xgi/core", "xgi/utils"],
    "C04": ["tests/core", "tests/utils", "tests/generators", "xgi/core"],
    "C08": ["tests/stats", "tests/core/test_views.py", "tests/core/test_globalviews.py", "tests/utils", "tests/convert"],
}
FULL_TARGETS = ["tests", "xgi"]
EVAL_KEY = {"C01": ["inv:Hypergraph"], "C02": ["inv:DiHypergraph"], "C03": ["inv:SimplicialComplex"], "C04": ["fresh"], "C08": ["readonly"]}


def run(mon, pid, tier, timeout=900):
    spec = SPEC[pid]
    targets = QUICK_TARGETS[pid] if tier == "quick" else FULL_TARGETS
    targets = [t for t in targets if os.path.exists(os.path.join(env.REPO, t))]
    workdir = os.path.join(env.VERIF, ".work")
    os.makedirs(workdir, exist_ok=True)
    fd, out = tempfile.mkstemp(prefix=f"suite-{pid}-", suffix=".json", dir=workdir)
    os.close(fd)
    os.remove(out)
    e = dict(os.environ, XGIMON_REPO=env.REPO, XGIMON_SUITE_OUT=out, XGIMON_SUITE_MON=spec["mon"], PYTHONPATH=env.VERIF, PYTHONHASHSEED="0", MPLBACKEND="Agg",
             PYTHONDONTWRITEBYTECODE="1")
    cmd = [sys.executable, "-W", "ignore", "-m", "pytest", "-p", "xgimon.suite_plugin", "-q", "-p", "no:cacheprovider", "--timeout=600"] + targets
    try:
        p = subprocess.run(cmd, cwd=env.REPO, env=e, capture_output=True, text=True, timeout=timeout)
    except subprocess.TimeoutExpired:
        mon.note("suite:timeout")
        mon.watchdogs += 1
        print(f"WATCHDOG {pid} suite run exceeded {timeout}s (inconclusive)")
        return
    if not os.path.exists(out):
        mon.note("suite:no-result")
        mon.watchdogs += 1
        print(f"{pid} suite run produced no result (pytest exit {p.returncode}) - inconclusive\n{(p.stdout + p.stderr)[-800:]}")
        return
    with open(out) as f:
        res = json.load(f)
    os.remove(out)
    n = sum(res["evals"].get(k, 0) for k in EVAL_KEY[pid])
    mon.ev(n)
    mon.note("suite:evaluations", n)
    mon.note("suite:tests", res["tests"])
    mon.note("suite:distinct-post-states", res["distinct_post_states"])
    mon.note("suite:boundary-callables-observed", len(res["callables_observed"]))
    for k, v in res["skipped"].items():
        mon.note(f"suite:skipped:{k}", v)
    for i in range(min(res["distinct_post_states"], 20000)):
        mon.nontrivial(("suite", pid, i))
    top = sorted(res["callables_observed"].items(), key=lambda kv: -kv[1])[:12]
    mon.sample({"suite": targets, "tests": res["tests"], "evaluations": n, "most-called": top})
    for v in res["violations"]:
        if v["monitor"] in spec["monitors"] and v["class"] in spec["classes"]:
            mon.fail(v["key"], v["what"], {"test": v["test"], "call": v["call"], "args": v["args"]})
