"""pytest plugin: the repository's own test suite as a workload, observed by the xgimon monitors.

    cd $XGIMON_REPO && PYTHONPATH=/verif XGIMON_SUITE_OUT=<json> XGIMON_SUITE_MON=inv,fresh,frozen,readonly \
        /venv/bin/python -m pytest -p xgimon.suite_plugin -q -p no:cacheprovider tests xgi

The tests (and doctests) are written by the maintainers and drive the library with inputs the seeded
generators of xgimon do not produce (fixtures, generator outputs, converted networks, file contents).
The plugin does not look at what the tests assert.  It wraps the *boundary* the tests call through -
every public method of the three network classes (class attribute replaced by a wrapper) and every public
function of the `xgi` namespace whose first parameter is a network (module attribute replaced) - and
evaluates, at the quiescent point after the outermost call on each object, returned or raised:

  inv       C01/C02/C03  the structural invariant of xgimon.snap, preservation form (pre-state satisfied it)
  fresh     C04          an add_* call never changes the members or the attribute record identity of an edge that
                         existed before the call, and an ID it was not given explicitly is not one that existed
  frozen    C18          a network that was frozen before the call has the same structure after it
  readonly  C08          a call the C08 check classifies as read-only leaves the deep snapshot of its network unchanged

Calls made by the library itself through its own module-level names are not wrapped (only the outermost
boundary call is a quiescent point); nested wrapped calls are counted but not evaluated.
Networks above SIZE_CAP incidences are skipped and counted (cost), complexes with a simplex above
SIMPLEX_CAP members likewise (the closure oracle is exponential in the simplex size).
"""
import copy
import functools
import inspect
import json
import os
import traceback
from collections import Counter

from . import env  # noqa: F401  (selects the repository under test)
from . import snap
from .env import xgi

MON = set(filter(None, os.environ.get("XGIMON_SUITE_MON", "inv,fresh,frozen,readonly").split(",")))
OUT = os.environ.get("XGIMON_SUITE_OUT")
SIZE_CAP = int(os.environ.get("XGIMON_SUITE_SIZE_CAP", "1500"))
SIMPLEX_CAP = 9

NETPARAMS = {"H", "S", "SC", "net", "DH"}
EXCLUDE = {"update_uid_counter", "download_xgi_data", "load_xgi_data", "load_bigg_data", "request_json_from_url", "request_json_from_url_cached"}
MUT_PREFIX = ("add_", "remove_", "clear", "set_", "update", "double_edge_swap", "random_edge_shuffle", "merge_duplicate_edges", "freeze", "close", "cleanup")
# xgi-namespace functions that edit their argument by documented design
INPLACE_FUNCS = {"update_uid_counter"}
INPLACE_KW = ("in_place",)

state = {
    "depth": 0,
    "oracle": False,  # True while a pre/post observation runs: the oracle's own calls go straight through
    "test": None,
    "evals": Counter(),
    "calls": Counter(),
    "skipped": Counter(),
    "callables": Counter(),
    "violations": [],
    "tests": 0,
    "distinct": set(),
    "classes": Counter(),
}
NETCLS = (xgi.Hypergraph, xgi.DiHypergraph, xgi.SimplicialComplex)


def _size_ok(net):
    try:
        n = 0
        for m in net._edge.values():
            if isinstance(m, dict):
                k = len(m.get("in", ())) + len(m.get("out", ()))
            else:
                k = len(m)
            if isinstance(net, xgi.SimplicialComplex) and k > SIMPLEX_CAP:
                return False
            n += k
            if n > SIZE_CAP:
                return False
        return len(net._node) <= SIZE_CAP
    except Exception:
        return True  # an unobservable network is for the invariant to report


def _ready(net):
    return isinstance(net, NETCLS) and all(hasattr(net, a) for a in ("_node", "_edge", "_node_attr", "_edge_attr", "_net_attr"))


def _edges_table(net):
    if snap.is_di(net):
        return {e: (frozenset(t), frozenset(h)) for e, (t, h) in net.edges.dimembers(dtype=dict).items()}
    return {e: frozenset(m) for e, m in net.edges.members(dtype=dict).items()}


def _violation(monitor, key, what, net_cls, callname, args_repr):
    state["violations"].append({
        "monitor": monitor, "key": key, "what": what[:600], "class": net_cls, "call": callname,
        "args": args_repr[:400], "test": state["test"],
    })


def _safe_repr(args, kwargs):
    try:
        parts = []
        for a in args:
            parts.append(f"<{type(a).__name__}>" if isinstance(a, NETCLS) else repr(a)[:80])
        for k, v in kwargs.items():
            parts.append(f"{k}=" + (f"<{type(v).__name__}>" if isinstance(v, NETCLS) else repr(v)[:80]))
        return ", ".join(parts)
    except Exception:
        return "<unprintable>"


class _Obs:
    """Pre-state of one network for one outermost call."""

    def __init__(self, net, callname, readonly, adding, explicit_ids):
        self.net, self.callname, self.readonly, self.adding, self.explicit = net, callname, readonly, adding, explicit_ids
        self.ok = _ready(net) and _size_ok(net)
        if not self.ok:
            state["skipped"]["not-ready-or-too-large"] += 1
            return
        self.cls = type(net).__name__
        try:
            self.pre_inv = snap.inv(net) if "inv" in MON else None
            self.frozen = bool(getattr(net, "is_frozen", False)) if "frozen" in MON else False
            self.pre_struct = snap.structure(net) if self.frozen else None
            self.pre_snap = snap.snap(net, uid=True) if (readonly and "readonly" in MON) else None
            if adding and "fresh" in MON and not self.pre_inv:
                self.pre_edges = _edges_table(net)
                self.pre_attr_ids = {e: id(net._edge_attr[e]) for e in self.pre_edges if e in net._edge_attr}
            else:
                self.pre_edges = None
        except Exception:
            self.ok = False
            state["skipped"]["pre-state-unobservable"] += 1

    def post(self, outcome, args_repr):
        if not self.ok:
            return
        net, cn = self.net, self.callname
        state["classes"][self.cls] += 1
        try:
            if self.pre_inv is not None:
                state["evals"]["inv:" + self.cls] += 1
                if not self.pre_inv:
                    if not _size_ok(net):
                        state["skipped"]["post-too-large"] += 1
                    else:
                        bad = snap.inv(net)
                        if bad:
                            _violation("inv", f"suite|{self.cls}.{cn}|{outcome}|{bad[0]}", f"invariant held before and is violated after {cn} ({outcome}): {bad}", self.cls, cn, args_repr)
                        else:
                            state["distinct"].add(hash(repr(snap.structure(net))) & 0xFFFFFFFF)
                else:
                    state["skipped"]["pre-state-already-violates-invariant"] += 1
            if self.frozen:
                state["evals"]["frozen"] += 1
                if snap.structure(net) != self.pre_struct:
                    _violation("frozen", f"suite|{cn}|{outcome}|frozen-structure-changed", f"structure of a frozen {self.cls} changed during {cn} ({outcome})", self.cls, cn, args_repr)
            if self.pre_snap is not None:
                state["evals"]["readonly"] += 1
                after = snap.snap(net, uid=True)
                if after != self.pre_snap:
                    diff = [i for i, (a, b) in enumerate(zip(self.pre_snap, after)) if a != b]
                    part = ("class", "nodes", "edges", "memberships", "net-attr", "next-uid")
                    _violation("readonly", f"suite|{cn}|{outcome}|changed:{'+'.join(part[i] for i in diff)}", f"read-only call {cn} ({outcome}) changed its {self.cls} argument: {[part[i] for i in diff]}", self.cls, cn, args_repr)
            if self.pre_edges is not None:
                state["evals"]["fresh"] += 1
                now = _edges_table(net)
                for e, m in self.pre_edges.items():
                    if e in now and now[e] != m:
                        _violation("fresh", f"suite|{self.cls}.{cn}|{outcome}|existing-edge-overwritten", f"{cn} ({outcome}) changed the members of the existing edge {e!r}: {sorted(map(repr, m)) if not isinstance(m, tuple) else m} -> {now[e]}", self.cls, cn, args_repr)
                        break
                    if e in now and e in net._edge_attr and self.pre_attr_ids.get(e) is not None and id(net._edge_attr[e]) != self.pre_attr_ids[e]:
                        _violation("fresh", f"suite|{self.cls}.{cn}|{outcome}|existing-edge-record-replaced", f"{cn} ({outcome}) replaced the attribute record of the existing edge {e!r}", self.cls, cn, args_repr)
                        break
        except Exception as exc:
            state["skipped"][f"post-state-error:{type(exc).__name__}"] += 1


def _is_mutator(name):
    return name.startswith(MUT_PREFIX) or name in ("__ilshift__", "__init__")


def _inplace_requested(fn, args, kwargs):
    try:
        ba = inspect.signature(fn).bind_partial(*args, **kwargs)
    except TypeError:
        return True  # cannot classify: do not apply the read-only clause
    return any(bool(ba.arguments.get(k, False)) for k in INPLACE_KW)


def wrap(fn, callname, kind):
    """kind: 'method' (network = args[0]) or 'function' (network = first argument if it is one)."""

    @functools.wraps(fn)
    def wrapper(*args, **kwargs):
        if state["oracle"]:
            return fn(*args, **kwargs)
        state["calls"][kind] += 1
        if state["depth"] > 0:
            state["calls"]["nested"] += 1
            return fn(*args, **kwargs)
        if kind == "view":  # a method of a view or stat object: the network is the one it was created from
            owner = args[0] if args else None
            net = getattr(owner, "_net", None) if hasattr(owner, "_net") else getattr(owner, "net", None)
            nets = [net] if isinstance(net, NETCLS) else []
        else:
            nets = [a for a in list(args[:2]) + list(kwargs.values()) if isinstance(a, NETCLS)]
        if not nets:
            return fn(*args, **kwargs)
        name = callname.rsplit(".", 1)[-1]
        if kind == "view":
            readonly = True
        elif kind == "method":
            readonly = not _is_mutator(name) and not name.startswith("__i")
            if name == "cleanup":
                readonly = False
        else:
            readonly = name not in INPLACE_FUNCS and not _inplace_requested(fn, args, kwargs)
        adding = kind == "method" and name.startswith("add_") and name not in ("add_node", "add_nodes_from", "add_node_to_edge")
        obs = []
        seen = set()
        for i, net in enumerate(nets):
            if id(net) in seen:
                continue
            seen.add(id(net))
            if name == "__init__" and i == 0:
                continue  # under construction: no pre-state; observed through the first call made on it
            state["oracle"] = True
            try:
                obs.append(_Obs(net, callname, readonly, adding and i == 0, None))
            finally:
                state["oracle"] = False
        state["callables"][callname] += 1
        state["depth"] += 1
        outcome = "returned"
        try:
            return fn(*args, **kwargs)
        except BaseException:
            outcome = "raised"
            raise
        finally:
            state["depth"] -= 1
            state["oracle"] = True
            try:
                ar = _safe_repr(args, kwargs)
                for o in obs:
                    o.post(outcome, ar)
            finally:
                state["oracle"] = False

    wrapper.__xgimon_wrapped__ = True
    return wrapper


def install():
    n = 0
    for cls in NETCLS:
        for name, attr in list(vars(cls).items()):
            if not inspect.isfunction(attr) or getattr(attr, "__xgimon_wrapped__", False):
                continue
            if name.startswith("_") and name not in ("__init__", "__lshift__", "__ilshift__"):
                continue
            setattr(cls, name, wrap(attr, f"{cls.__name__}.{name}", "method"))
            n += 1
    for name in sorted(dir(xgi)):
        if name.startswith("_") or name in EXCLUDE:
            continue
        f = getattr(xgi, name)
        if not inspect.isfunction(f):
            continue
        try:
            ps = list(inspect.signature(f).parameters)
        except (TypeError, ValueError):
            continue
        if ps and (ps[0] in NETPARAMS or (ps[0] == "data" and name.startswith("to_"))):
            setattr(xgi, name, wrap(f, name, "function"))
            n += 1
    if "readonly" in MON:  # views and stats are part of the read-only surface (C08)
        import xgi.core.views as V
        import xgi.stats as ST

        vclasses = [V.IDView, V.NodeView, V.EdgeView, V.DiNodeView, V.DiEdgeView]
        sclasses = [getattr(ST, c) for c in ("IDStat", "MultiIDStat") if hasattr(ST, c)]
        for cls in vclasses + sclasses:
            for name, attr in list(vars(cls).items()):
                if not inspect.isfunction(attr) or getattr(attr, "__xgimon_wrapped__", False):
                    continue
                if name.startswith("_") and name not in ("__call__", "__getitem__", "__and__", "__or__", "__sub__", "__xor__"):
                    continue
                setattr(cls, name, wrap(attr, f"{cls.__name__}.{name}", "view"))
                n += 1
    state["wrapped"] = n


install()


# ---- pytest hooks ---------------------------------------------------------------
def pytest_runtest_setup(item):
    state["test"] = item.nodeid
    state["tests"] += 1
    state["depth"] = 0


def pytest_runtest_teardown(item):
    state["test"] = None


def pytest_sessionfinish(session, exitstatus):
    if not OUT:
        return
    out = {
        "monitors": sorted(MON),
        "tests": state["tests"],
        "wrapped_callables": state.get("wrapped", 0),
        "evals": dict(state["evals"]),
        "calls": dict(state["calls"]),
        "skipped": dict(state["skipped"]),
        "callables_observed": dict(state["callables"]),
        "classes": dict(state["classes"]),
        "distinct_post_states": len(state["distinct"]),
        "violations": state["violations"],
        "pytest_exitstatus": int(exitstatus),
    }
    with open(OUT + ".tmp", "w") as f:
        json.dump(out, f, indent=1, default=str)
    os.replace(OUT + ".tmp", OUT)
