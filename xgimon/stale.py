"""Same-object sequences: a result computed on a live network after in-place edits must equal the
result on a freshly built equal network (no stale per-object / per-ID-set cache, no hidden state).

Used as an extra case kind ("sequence") by checks whose other kinds build a fresh network per case.
    run(mon, pid, rng, cls, functions)   functions: [(name, callable(net) -> value)]
The oracle is metamorphic: f(live) == f(rebuild(live)), where rebuild() constructs a new object with the
same labels, IDs, attributes and insertion order through the public API.
"""
import copy
import math

import numpy as np

from . import ops, snap
from .env import xgi


def rebuild(net):
    """A fresh object equal to `net` (same order), built through the public API."""
    cls = type(net)
    new = cls()
    for n in net.nodes:
        new.add_node(n, **copy.deepcopy(dict(net.nodes[n])))
    if isinstance(net, xgi.DiHypergraph):
        for e, (t, h) in net.edges.dimembers(dtype=dict).items():
            new.add_edge((list(t), list(h)), idx=e, **copy.deepcopy(dict(net.edges[e])))
    elif isinstance(net, xgi.SimplicialComplex):
        new.add_simplices_from({e: m for e, m in net.edges.members(dtype=dict).items()})
        for e in net.edges:
            new.edges[e].update(copy.deepcopy(dict(net.edges[e])))
    else:
        for e, m in net.edges.members(dtype=dict).items():
            new.add_edge(list(m), idx=e, **copy.deepcopy(dict(net.edges[e])))
    new._net_attr.update(copy.deepcopy(dict(net._net_attr)))
    return new


def equalish(a, b, tol=1e-9):
    if isinstance(a, (xgi.Hypergraph, xgi.DiHypergraph)) and isinstance(b, (xgi.Hypergraph, xgi.DiHypergraph)):
        return snap.snap(a, order=False) == snap.snap(b, order=False)
    if hasattr(a, "toarray") and hasattr(b, "toarray"):
        a, b = a.toarray(), b.toarray()
    if isinstance(a, np.ndarray) or isinstance(b, np.ndarray):
        a, b = np.asarray(a), np.asarray(b)
        if a.shape != b.shape:
            return False
        if a.dtype == object or b.dtype == object:
            return a.tolist() == b.tolist()
        return bool(np.allclose(a, b, rtol=tol, atol=tol, equal_nan=True))
    if isinstance(a, float) or isinstance(b, float) or isinstance(a, np.floating) or isinstance(b, np.floating):
        try:
            a, b = float(a), float(b)
        except (TypeError, ValueError):
            return False
        if math.isnan(a) and math.isnan(b):
            return True
        if math.isinf(a) or math.isinf(b):
            return a == b
        return abs(a - b) <= tol * max(1.0, abs(a), abs(b))
    if isinstance(a, dict) and isinstance(b, dict):
        return set(a) == set(b) and all(equalish(a[k], b[k], tol) for k in a)
    if isinstance(a, (list, tuple)) and isinstance(b, (list, tuple)):
        return len(a) == len(b) and all(equalish(x, y, tol) for x, y in zip(a, b))
    if hasattr(a, "nodes") and hasattr(a, "edges") and hasattr(a, "adj") and hasattr(b, "adj"):  # networkx
        return dict(a.nodes(data=True)) == dict(b.nodes(data=True)) and sorted(map(repr, a.edges(data=True))) == sorted(map(repr, b.edges(data=True)))
    if hasattr(a, "equals") and hasattr(b, "equals"):  # pandas
        try:
            return bool(a.equals(b))
        except Exception:
            return repr(a) == repr(b)
    try:
        return bool(a == b)
    except Exception:
        return repr(a) == repr(b)


def edit(net, rng, pool, hist):
    """One in-place edit through the public API; most keep the node-ID and edge-ID sets unchanged."""
    di = isinstance(net, xgi.DiHypergraph)
    sc = isinstance(net, xgi.SimplicialComplex)
    ns, es = list(net.nodes), list(net.edges)
    r = rng.random()
    if sc:
        mem = net.edges.members(dtype=dict)
        maximal = [e for e in es if not any(mem[e] < mem[f] for f in es)]
        big = [e for e in maximal if len(mem[e]) >= 3]
        if big and r < 0.25:
            # two codimension-1 faces of a maximal simplex trade their IDs (all counts unchanged)
            t = rng.choice(big)
            mt = mem[t]
            faces = [e for e in es if len(mem[e]) == len(mt) - 1 and mem[e] < mt and sum(1 for f in es if mem[e] < mem[f]) == 1]
            if len(faces) >= 2:
                a, b = rng.sample(faces, 2)
                ma, mb = list(mem[a]), list(mem[b])
                net.remove_simplex_id(t)
                net.remove_simplex_id(a)
                net.remove_simplex_id(b)
                net.add_simplex(mb, idx=a)
                net.add_simplex(ma, idx=b)
                net.add_simplex(list(mt), idx=t)
                hist.append(f"faces {a!r} and {b!r} of simplex {t!r} trade their IDs")
                return
        if len(maximal) >= 2 and r < 0.45:
            # two maximal simplices trade their IDs: node and simplex counts unchanged, the ID <-> members map changes
            a, b = rng.sample(maximal, 2)
            ma, mb = list(mem[a]), list(mem[b])
            net.remove_simplex_id(a)
            if b in net.edges:
                net.remove_simplex_id(b)
            net.add_simplex(mb, idx=a)
            net.add_simplex(ma, idx=b)
            hist.append(f"simplices {a!r} and {b!r} trade their IDs")
            return
        if r < 0.5 or not es:
            ms = ops.rand_members(rng, pool, 2, 4)
            net.add_simplex(ms)
            hist.append(f"add_simplex({ms})")
        elif r < 0.8:
            e = rng.choice(es)
            net.remove_simplex_id(e)
            hist.append(f"remove_simplex_id({e!r})")
        else:
            n = rng.choice(ns)
            net.remove_node(n)
            hist.append(f"remove_node({n!r})")
        return
    if len(es) >= 2 and r < 0.12:
        # two edges trade their IDs (same counts, other ID <-> members map)
        a, b = rng.sample(es, 2)
        if di:
            dm = net.edges.dimembers(dtype=dict)
            ma, mb = (list(dm[a][0]), list(dm[a][1])), (list(dm[b][0]), list(dm[b][1]))
        else:
            ma, mb = list(net.edges.members(a)), list(net.edges.members(b))
        net.remove_edge(a)
        net.remove_edge(b)
        net.add_edge(mb, idx=a)
        net.add_edge(ma, idx=b)
        hist.append(f"edges {a!r} and {b!r} trade their IDs")
    elif es and ns and r < 0.35:
        e, n = rng.choice(es), rng.choice(ns)
        if di:
            d = rng.choice(("in", "out"))
            net.add_node_to_edge(e, n, d)
            hist.append(f"add_node_to_edge({e!r}, {n!r}, {d!r})")
        else:
            net.add_node_to_edge(e, n)
            hist.append(f"add_node_to_edge({e!r}, {n!r})")
    elif es and r < 0.6:
        e = rng.choice(es)
        ms = ops.rand_members(rng, ns or pool, 1, 3)
        net.remove_edge(e)
        if di:
            net.add_edge((ms[:1], ms[1:]), idx=e)
        else:
            net.add_edge(ms, idx=e)
        hist.append(f"remove_edge({e!r}); add_edge({ms}, idx={e!r})")
    elif es and r < 0.7:
        e = rng.choice(es)
        w = rng.choice((0.5, 2, 3))
        net.set_edge_attributes({e: w}, name="weight")
        hist.append(f"set_edge_attributes({{{e!r}: {w}}}, name='weight')")
    elif ns and r < 0.85:
        # swap a node: the node count stays, the node set changes
        old = rng.choice(ns)
        cand = [x for x in pool if x not in net.nodes]
        if cand:
            new = rng.choice(cand)
            net.remove_node(old)
            net.add_node(new)
            if list(net.edges):
                e = rng.choice(list(net.edges))
                if di:
                    net.add_node_to_edge(e, new, "in")
                else:
                    net.add_node_to_edge(e, new)
            hist.append(f"remove_node({old!r}); add_node({new!r}) (+ membership)")
    else:
        ms = ops.rand_members(rng, pool, 2, 3)
        if di:
            net.add_edge((ms[:1], ms[1:]))
        else:
            net.add_edge(ms)
        hist.append(f"add_edge({ms})")


def run(mon, rng, cls, functions, build, pool, rounds=(2, 4)):
    """build() -> a fresh network; functions: [(name, f)] where f(net) returns a comparable value.

    Round 0 evaluates everything once (to fill any cache), then `rounds` times: edit in place, evaluate on the
    live object and on a rebuilt equal object, compare. Also compares two consecutive calls without an edit.
    """
    net = build()
    hist = [f"start: {snap.pretty(net)}"]

    def call(f, x):
        try:
            return ("ok", f(x))
        except Exception as exc:
            return ("raised", type(exc).__name__)

    first = {name: call(f, net) for name, f in functions}
    for name, f in functions:
        again = call(f, net)
        mon.ev()
        mon.note("seq:second-call-evaluations")
        if again[0] != first[name][0] or (again[0] == "ok" and not equalish(again[1], first[name][1])) or (again[0] == "raised" and again[1] != first[name][1]):
            mon.fail(f"{name}|second-call-without-edit|differs-from-first-call", f"{name}: two consecutive calls on the same unchanged {cls} differ", "\n".join(hist))
            return
    for _ in range(rng.randint(*rounds)):
        before = snap.snap(net, order=False)
        edit(net, rng, pool, hist)
        if snap.inv(net) or not net.num_nodes:
            mon.note("seq:invalid-state-after-edit")
            return
        after = snap.snap(net, order=False)
        if set(before[1]) == set(after[1]) and set(before[2]) == set(after[2]) and before != after:
            mon.note("seq:state-changed-with-same-id-sets")
        fresh = rebuild(net)
        if snap.snap(fresh, order=False) != after:
            mon.note("seq:rebuild-not-equal (discarded)")
            return
        for name, f in functions:
            live = call(f, net)
            ref = call(f, fresh)
            mon.ev()
            mon.note("seq:evaluations-after-edit")
            same = live[0] == ref[0] and (equalish(live[1], ref[1]) if live[0] == "ok" else live[1] == ref[1])
            if not same:
                mon.fail(f"{name}|same-object-after-edit|differs-from-fresh-equal-network",
                         f"{name} on a {cls} that was edited in place = {str(live)[:300]}, on a freshly built equal network = {str(ref)[:300]}",
                         "\n".join(hist))
                return
    mon.nontrivial((cls, tuple(hist[1:])))
    mon.sample(hist[1:], cap=3)
