"""Import the *current working tree* of the repository and expose it as `xgi`.

The repository is imported, never copied: $XGIMON_REPO (default /repo) is put first on
sys.path and we assert that the module we got lives there.  XGIMON_REPO exists so that
the self-validation can point the same checks at a scratch copy carrying a break.
"""
import os
import sys
import warnings

REPO = os.path.realpath(os.environ.get("XGIMON_REPO", "/repo"))
if REPO not in sys.path:
    sys.path.insert(0, REPO)
os.environ.setdefault("MPLBACKEND", "Agg")
os.environ.setdefault("XGI_VERIF", "1")  # MANIFEST.hooks.guard (no hooks exist today)

import matplotlib  # noqa: E402

matplotlib.use("Agg")

import xgi  # noqa: E402

_f = os.path.realpath(xgi.__file__)
if not _f.startswith(REPO + os.sep):
    raise SystemExit(f"xgimon: imported xgi from {_f}, expected it under {REPO}")

warnings.simplefilter("ignore")

VERIF = os.path.dirname(os.path.dirname(os.path.realpath(__file__)))


# ---------------------------------------------------------------------------------
# reach counters: which functions of the repository were entered during a run.
# sys.monitoring PY_START with DISABLE after the first hit of each code object: the
# cost is one callback per function, not per call.
# ---------------------------------------------------------------------------------
_reached = set()
_TOOL = 3


def start_reach():
    mon = getattr(sys, "monitoring", None)
    if mon is None:
        return False
    try:
        mon.use_tool_id(_TOOL, "xgimon-reach")
    except ValueError:
        return False

    def on_start(code, offset):
        try:
            fn = code.co_filename
            if fn.startswith(REPO):
                _reached.add((os.path.relpath(fn, REPO), code.co_qualname))
        except Exception:  # interpreter shutdown
            pass
        return mon.DISABLE

    mon.register_callback(_TOOL, mon.events.PY_START, on_start)
    mon.set_events(_TOOL, mon.events.PY_START)
    return True


def reached():
    return sorted(_reached)
