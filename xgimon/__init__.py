"""xgimon - runtime monitors for the xgi properties C01..C20 (see /verif/DESIGN.md)."""
