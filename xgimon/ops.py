"""The operation alphabet: op records, their application to a real network, and seeded
generators of edit histories for the three classes.

An op is generated *from the publicly observable state* of the live network (lists of
node and edge IDs, members), so that existing / missing / duplicate IDs can be aimed at
on purpose.  `tags` name the trigger classes of the arguments (missing-id, dup-id,
none-member, empty-members, idx0, explicit-id, nonincreasing-ids ...): they are used for
known-finding keys and for steering around *open* known findings.
"""
from dataclasses import dataclass, field

from .env import xgi


@dataclass
class Op:
    name: str
    args: tuple = ()
    kwargs: dict = field(default_factory=dict)
    lib: bool = False  # True: xgi.<name>(net, *args, **kwargs)
    tags: frozenset = frozenset()

    def __repr__(self):
        a = ", ".join([repr(x) for x in self.args] + [f"{k}={v!r}" for k, v in self.kwargs.items()])
        return f"{'xgi.' if self.lib else '.'}{self.name}({a})" + (f" #{sorted(self.tags)}" if self.tags else "")


class OneShot(list):
    """Members (or a node list) handed over as a one-shot iterator: materialised as iter(list) at call time, so
    that the same op record can be applied to several networks. The models see a plain list."""

    def __repr__(self):
        return f"iter({list.__repr__(self)})"


class LiveView:
    """The network's own live view (net.nodes / net.edges) or a filtered view, resolved at call time."""

    def __init__(self, kind, filt=None):
        self.kind, self.filt = kind, filt

    def resolve(self, net):
        v = getattr(net, self.kind)
        return v if self.filt is None else v.filterby(*self.filt)

    def __repr__(self):
        return f"<net.{self.kind}" + (f".filterby{self.filt}>" if self.filt else ">")


def materialise(x, net):
    if isinstance(x, OneShot):
        return iter(list(x))
    if isinstance(x, LiveView):
        return x.resolve(net)
    if isinstance(x, list):
        return [materialise(y, net) for y in x]
    if isinstance(x, tuple):
        return tuple(materialise(y, net) for y in x)
    if isinstance(x, dict):
        return {k: materialise(v, net) for k, v in x.items()}
    return x


def apply(op, net):
    """Invoke the op on the real network. Args are plain data (plus the OneShot / LiveView markers, materialised
    per call), so an op record can be applied twice."""
    args = materialise(op.args, net)
    kwargs = materialise(op.kwargs, net)
    if op.lib:
        return getattr(xgi, op.name)(net, *args, **kwargs)
    return getattr(net, op.name)(*args, **kwargs)


# ---------------------------------------------------------------------------------
# labels and attributes
# ---------------------------------------------------------------------------------
NODE_KINDS = ("int", "gap", "str")
EID_KINDS = ("int", "gap", "str", "perm")


def node_pool(rng, kind=None, k=None):
    kind = kind or rng.choice(NODE_KINDS)
    k = k or rng.randint(4, 8)
    if kind == "int":
        pool = list(range(k))
    elif kind == "gap":
        pool = rng.sample(range(-5, 40), k)
        if k >= 2 and rng.random() < 0.25 and not (-1 in pool and -2 in pool):
            # hash twins: hash(-1) == hash(-2); anything keyed or ordered by the hash of a label (or of a set of labels) confuses them
            rest = [x for x in pool if x not in (-1, -2)]
            pool = [-1, -2] + rest[: k - 2]
            rng.shuffle(pool)
    elif kind == "tuple":
        pool = rng.sample([(i, j) for i in range(3) for j in range(3)], min(k, 9))  # grid coordinates
    else:
        pool = rng.sample(["a", "b", "c", "d", "e", "n1", "n10", "n2", "x", "yy"], k)
    return kind, pool


def eid_pool(rng, kind=None, k=8):
    kind = kind or rng.choice(EID_KINDS)
    if kind == "int":
        pool = list(range(k))
    elif kind == "gap":
        pool = rng.sample(range(-3, 30), k)
        if k >= 2 and rng.random() < 0.25 and not (-1 in pool and -2 in pool):
            rest = [x for x in pool if x not in (-1, -2)]
            pool = [-1, -2] + rest[: k - 2]
            rng.shuffle(pool)
    elif kind == "perm":
        pool = list(range(k))
        rng.shuffle(pool)
    else:
        pool = rng.sample(["e0", "e1", "e2", "f", "g", "h", "e10", "zz", "q", "r"], k)
    return kind, pool


ATTR_NAMES = ("color", "w", "tag", "weight")
ATTR_VALUES = ("red", "blue", 1, 2, 3, 0.5, True, None, ("t", 1))


def has(seq, x):
    """`x in seq` by hash (a list scan would evaluate e.g. tuple == numpy scalar, which numpy answers elementwise)."""
    try:
        return x in set(seq)
    except TypeError:
        return any(x is y for y in seq)


def rand_attrs(rng, p=0.5, maxn=2):
    if rng.random() > p:
        return {}
    return {rng.choice(ATTR_NAMES): rng.choice(ATTR_VALUES) for _ in range(rng.randint(1, maxn))}


def rand_members(rng, pool, lo=1, hi=4):
    k = min(len(pool), rng.randint(lo, hi))
    return rng.sample(pool, k)


def as_container(rng, members):
    r = rng.random()
    if r < 0.08:
        return OneShot(members)
    if r < 0.5:
        return list(members)
    if r < 0.75:
        return tuple(members)
    if r < 0.9:
        return set(members)
    return frozenset(members)


# ---------------------------------------------------------------------------------
# Hypergraph op generator
# ---------------------------------------------------------------------------------
class HGen:
    """Generates ops for `Hypergraph`.  avoid: set of trigger tags that must not be produced."""

    cls_name = "Hypergraph"

    def __init__(self, rng, hostile=True, avoid=frozenset(), nkind=None, ekind=None):
        self.rng = rng
        self.hostile = hostile
        self.avoid = frozenset(avoid)
        self.nkind, self.npool = node_pool(rng, nkind)
        self.ekind, self.epool = eid_pool(rng, ekind)
        self.extra_nodes = {"int": [97, 98], "gap": [51, -9], "str": ["zz9", "new"], "tuple": [(9, 9), (8, 9)]}[self.nkind]

    # -- helpers ---------------------------------------------------------------
    def observe(self, net):
        self.nodes = list(net.nodes)
        self.edges = list(net.edges)
        try:
            self.members = net.edges.members(dtype=dict)
        except Exception:
            self.members = {}

    def some_node(self, missing_p=0.12):
        if self.nodes and self.rng.random() > missing_p:
            return self.rng.choice(self.nodes), False
        cand = [n for n in self.npool + self.extra_nodes if not has(self.nodes, n)]
        if cand:
            return self.rng.choice(cand), True
        return self.rng.choice(self.nodes), False

    def some_edge(self, missing_p=0.12):
        if self.edges and self.rng.random() > missing_p:
            return self.rng.choice(self.edges), False
        cand = [e for e in self.epool if not has(self.edges, e)] or ["nope"]
        if self.rng.random() < 0.15 and self.cls_name != "DiHypergraph":  # (the directed bulk formats read a tuple ID as members)
            cand = [c for c in [(7, 8), ("a", 1), (3,)] if not has(self.edges, c)] or cand  # tuple IDs (merge rename="tuple" makes such)
        return self.rng.choice(cand), True

    def new_members(self, lo=1, hi=4):
        return rand_members(self.rng, self.npool, lo, hi)

    def explicit_id(self):
        """An explicit edge id and its tags."""
        rng = self.rng
        tags = {"explicit-id"}
        r = rng.random()
        if self.edges and r < 0.15:
            tags.add("dup-id")
            return rng.choice(self.edges), tags
        idx = rng.choice(self.epool)
        if self.hostile and r > 0.9:
            idx = rng.choice([0, True, 2.0, -1, 7])
        elif self.hostile and r > 0.87 and self.cls_name != "DiHypergraph":
            # hashable but neither number, string nor tuple (the directed bulk formats read an iterable ID as members)
            idx = rng.choice([frozenset({91}), frozenset({91, 92}), b"x"])
        if has(self.edges, idx):
            tags.add("dup-id")
        if isinstance(idx, (int, float)) and idx == 0:
            tags.add("idx0")
        return idx, tags

    # -- the alphabet ----------------------------------------------------------
    def gen(self, net):
        """Return the next Op (never None)."""
        self.observe(net)
        for _ in range(50):
            name = self.rng.choices(self.NAMES, self.WEIGHTS)[0]
            op = getattr(self, "g_" + name)()
            if op is not None and not (op.tags & self.avoid):
                return op
        return Op("add_node", (self.rng.choice(self.npool),))

    NAMES = (
        "add_node", "add_nodes_from", "add_edge", "add_edges_from", "add_weighted_edges_from",
        "add_node_to_edge", "remove_node", "remove_nodes_from", "remove_edge", "remove_edges_from",
        "remove_node_from_edge", "clear_edges", "clear", "update", "double_edge_swap",
        "random_edge_shuffle", "merge_duplicate_edges", "cleanup", "relabel", "lcc",
        "set_node_attributes", "set_edge_attributes", "set_net_attr",
    )
    WEIGHTS = (3, 3, 8, 10, 2, 4, 5, 3, 4, 3, 4, 0.6, 0.5, 2, 4, 3, 3, 1.5, 1.2, 1.2, 2, 2, 1)

    def g_set_net_attr(self):
        return Op("__setitem__", (self.rng.choice(("name", "kind", "w")), self.rng.choice(ATTR_VALUES)))

    def g_add_node(self):
        n, _ = self.some_node(0.6)
        if self.hostile and self.rng.random() < 0.03:
            return Op("add_node", (None,), {}, tags=frozenset({"none-node"}))
        return Op("add_node", (n,), rand_attrs(self.rng))

    def g_add_nodes_from(self):
        rng = self.rng
        ns = [self.some_node(0.6)[0] for _ in range(rng.randint(0, 3))]
        if rng.random() < 0.5:
            arg = [(n, rand_attrs(rng, 0.8)) for n in ns]
        else:
            arg = as_container(rng, ns) if rng.random() < 0.5 else list(ns)
        return Op("add_nodes_from", (arg,), rand_attrs(rng, 0.3))

    def _members_arg(self, tags):
        rng = self.rng
        ms = self.new_members(1, 4)
        if self.hostile:
            r = rng.random()
            if r < 0.04:
                ms = ms + [None]
                rng.shuffle(ms)
                tags.add("none-member")
            elif r < 0.09:
                ms = []
                tags.add("empty-members")
            elif r < 0.13:
                ms = ms + [ms[0]]  # repeated member
            elif r < 0.15 and getattr(self, "nan_ok", False):
                ms = ms + [float("nan")]  # a legal (if odd) hashable label
                tags.add("nan-member")
        return ms

    def g_add_edge(self):
        rng = self.rng
        tags = set()
        ms = self._members_arg(tags)
        kwargs = rand_attrs(rng)
        if rng.random() < 0.4:
            idx, t = self.explicit_id()
            tags |= t
            kwargs = {"idx": idx, **kwargs}
        return Op("add_edge", (as_container(rng, ms) if "none-member" not in tags else list(ms),), kwargs, tags=frozenset(tags))

    def _bulk(self, fmt):
        """ebunch in the given format; returns (ebunch, tags)."""
        rng = self.rng
        tags = {f"fmt{fmt}"}
        n = rng.randint(0, 4)
        edges = []
        ids = []
        for i in range(n):
            t = set()
            ms = self._members_arg(t)
            if "empty-members" in t and i == 0:
                t.add("empty-first")
            tags |= t
            if "none-member" in t or rng.random() < 0.6:
                ms = list(ms)
            else:
                ms = as_container(rng, ms)
            if fmt in (2, 4, 5):
                idx, t2 = self.explicit_id()
                if has(ids, idx):
                    t2.add("dup-id")
                    if fmt == 5:
                        continue
                tags |= t2
                ids.append(idx)
            edges.append(ms)
        if len(edges) >= 2 and "none-member" not in tags and rng.random() < 0.15:
            # the very same set object is the member container of two entries (the network has to own its member sets)
            i, j = rng.sample(range(len(edges)), 2)
            if edges[i]:
                edges[i] = edges[j] = set(edges[i])
                tags.add("shared-set-object")
        if fmt in (2, 4, 5):
            nums = [i for i in ids if isinstance(i, (int, float)) and not isinstance(i, bool)]
            if any(a >= b for a, b in zip(nums, nums[1:])) or (nums and nums[-1] != max(nums)):
                tags.add("nonincreasing-ids")
        if fmt == 1:
            eb = edges
        elif fmt == 2:
            eb = [(m, i) for m, i in zip(edges, ids)]
        elif fmt == 3:
            eb = [(m, rand_attrs(rng, 0.7)) for m in edges]
        elif fmt == 4:
            eb = [(m, i, rand_attrs(rng, 0.7)) for m, i in zip(edges, ids)]
        else:
            eb = {i: m for m, i in zip(edges, ids)}
        return eb, tags

    def g_add_edges_from(self):
        fmt = self.rng.choice((1, 1, 2, 3, 4, 5))
        eb, tags = self._bulk(fmt)
        kwargs = rand_attrs(self.rng, 0.4)
        if kwargs:
            tags.add("bulk-kwargs")
        return Op("add_edges_from", (eb,), kwargs, tags=frozenset(tags))

    def g_add_weighted_edges_from(self):
        rng = self.rng
        eb = [tuple(self.new_members(1, 3)) + (rng.choice((0.5, 1, 2.5)),) for _ in range(rng.randint(0, 3))]
        kwargs = rand_attrs(rng, 0.3)
        kwargs.pop("weight", None)  # would be taken as the `weight` parameter
        if rng.random() < 0.3:
            kwargs["weight"] = "w"
        return Op("add_weighted_edges_from", (eb,), kwargs, tags=frozenset({"fmt3"}))

    def g_add_node_to_edge(self):
        e, em = self.some_edge(0.25)
        n, nm = self.some_node(0.3)
        tags = set()
        if em:
            tags.add("new-edge-via-add_node_to_edge")
            if isinstance(e, (int, float)) and e == 0:
                tags.add("idx0")
        elif self.hostile and "none-node" not in self.avoid and self.rng.random() < 0.08:
            n = None  # refused; the existing edge must not have taken it in before the refusal
            tags.add("none-node")
        return Op("add_node_to_edge", (e, n), tags=frozenset(tags))

    def g_remove_node(self):
        n, miss = self.some_node()
        kw = {}
        if self.rng.random() < 0.5:
            kw["strong"] = self.rng.random() < 0.6
        if self.rng.random() < 0.4:
            kw["remove_empty"] = self.rng.random() < 0.5
        return Op("remove_node", (n,), kw, tags=frozenset({"missing-id"} if miss else ()))

    def g_remove_nodes_from(self):
        rng = self.rng
        picks = [self.some_node(0.2) for _ in range(rng.randint(0, 3))]
        ns = [p[0] for p in picks]
        tags = {"missing-id"} if any(p[1] for p in picks) else set()
        if ns and rng.random() < 0.2:
            ns.append(ns[0])
            tags.add("dup-id")
        r = rng.random()
        if r < 0.04:
            ns, tags = LiveView("nodes"), {"live-view"}
        elif r < 0.10:
            ns, tags = LiveView("nodes", ("degree", rng.randint(0, 2), rng.choice(("eq", "leq")))), {"filtered-view"}
        elif r < 0.16:
            ns = OneShot(ns)
        kw = {}
        if rng.random() < 0.5:
            kw["strong"] = rng.random() < 0.6
        if rng.random() < 0.4:
            kw["remove_empty"] = rng.random() < 0.5
        return Op("remove_nodes_from", (ns,), kw, tags=frozenset(tags))

    def g_remove_edge(self):
        e, miss = self.some_edge()
        return Op("remove_edge", (e,), tags=frozenset({"missing-id"} if miss else ()))

    def g_remove_edges_from(self):
        rng = self.rng
        picks = [self.some_edge(0.1) for _ in range(rng.randint(0, 3))]
        es = [p[0] for p in picks]
        tags = {"missing-id"} if any(p[1] for p in picks) else set()
        if len(set(es)) < len(es):
            tags.add("dup-id")
        elif es and rng.random() < 0.12:
            es.append(es[0])
            tags.add("dup-id")
        r = rng.random()
        if r < 0.04:
            es, tags = LiveView("edges"), {"live-view"}
        elif r < 0.10:
            es, tags = LiveView("edges", ("size", rng.randint(1, 3), rng.choice(("eq", "geq")))), {"filtered-view"}
        elif r < 0.16:
            es = OneShot(es)
        return Op("remove_edges_from", (es,), tags=frozenset(tags))

    def g_remove_node_from_edge(self):
        rng = self.rng
        e, em = self.some_edge(0.1)
        tags = set()
        if not em and self.members.get(e) and rng.random() < 0.8:
            n = rng.choice(sorted(self.members[e], key=repr))
        else:
            n, nm = self.some_node(0.2)
            if em or nm:
                tags.add("missing-id")
            elif n not in self.members.get(e, ()):
                tags.add("non-member")
        if em:
            tags.add("missing-id")
        kw = {"remove_empty": rng.random() < 0.5} if rng.random() < 0.5 else {}
        return Op("remove_node_from_edge", (e, n), kw, tags=frozenset(tags))

    def g_clear_edges(self):
        return Op("clear_edges")

    def g_clear(self):
        kw = {"remove_net_attr": self.rng.random() < 0.5} if self.rng.random() < 0.6 else {}
        return Op("clear", (), kw)

    def g_update(self):
        rng = self.rng
        kw = {}
        tags = set()
        if rng.random() < 0.7:
            fmt = rng.choice((1, 2, 3, 4, 5))
            kw["edges"], tags = self._bulk(fmt)
        if rng.random() < 0.6:
            kw["nodes"] = [self.some_node(0.6)[0] for _ in range(rng.randint(0, 3))]
        return Op("update", (), kw, tags=frozenset(tags))

    def g_double_edge_swap(self):
        rng = self.rng
        es = [e for e in self.edges if self.members.get(e)]
        if len(es) >= 2 and rng.random() < 0.75:
            e1, e2 = rng.sample(es, 2)
            m1, m2 = self.members[e1], self.members[e2]
            c1 = sorted(m1 - m2, key=repr)
            c2 = sorted(m2 - m1, key=repr)
            if c1 and c2 and rng.random() < 0.8:
                return Op("double_edge_swap", (rng.choice(c1), rng.choice(c2), e1, e2), tags=frozenset({"valid-swap"}))
            n1 = rng.choice(sorted(m1, key=repr))
            n2 = rng.choice(sorted(m2, key=repr))
            return Op("double_edge_swap", (n1, n2, e1, e2), tags=frozenset({"maybe-size-breaking"}))
        n1, a = self.some_node(0.2)
        n2, b = self.some_node(0.2)
        e1, c = self.some_edge(0.2)
        e2, d = self.some_edge(0.2)
        return Op("double_edge_swap", (n1, n2, e1, e2), tags=frozenset({"missing-id"} if (a or b or c or d) else {"arbitrary-swap"}))

    def g_random_edge_shuffle(self):
        rng = self.rng
        if rng.random() < 0.4:
            return Op("random_edge_shuffle", tags=frozenset({"random-pair"}))
        if len(self.edges) >= 2 and rng.random() < 0.85:
            e1, e2 = rng.sample(self.edges, 2)
            return Op("random_edge_shuffle", (), {"e_id1": e1, "e_id2": e2})
        e1, a = self.some_edge(0.3)
        e2, b = self.some_edge(0.3)
        return Op("random_edge_shuffle", (e1, e2), tags=frozenset({"missing-id"} if (a or b) else ()))

    def g_merge_duplicate_edges(self):
        rng = self.rng
        kw = {}
        if rng.random() < 0.7:
            kw["rename"] = rng.choice(("first", "tuple", "new") + (("bogus",) if self.hostile and rng.random() < 0.1 else ()))
        if rng.random() < 0.7:
            kw["merge_rule"] = rng.choice(("first", "union", "intersection") + (("bogus",) if self.hostile and rng.random() < 0.1 else ()))
        if rng.random() < 0.4:
            kw["multiplicity"] = rng.choice(("mult", "w"))
        return Op("merge_duplicate_edges", (), kw)

    def g_cleanup(self):
        rng = self.rng
        kw = {k: rng.random() < 0.5 for k in ("isolates", "singletons", "multiedges", "connected", "relabel") if rng.random() < 0.8}
        return Op("cleanup", (), kw)

    def g_relabel(self):
        kw = {"in_place": True}
        if self.rng.random() < 0.3:
            kw["label_attribute"] = "old"
        return Op("convert_labels_to_integers", (), kw, lib=True)

    def g_lcc(self):
        return Op("largest_connected_hypergraph", (), {"in_place": True}, lib=True)

    def _attr_values(self, ids, miss):
        rng = self.rng
        r = rng.random()
        if r < 0.3:
            return (rng.choice(ATTR_VALUES),), {"name": rng.choice(ATTR_NAMES)}
        picks = [rng.choice(ids) for _ in range(rng.randint(0, 3))] if ids else []
        if rng.random() < 0.3:
            picks.append(miss)
        if r < 0.6:
            return ({i: rng.choice(ATTR_VALUES) for i in picks},), {"name": rng.choice(ATTR_NAMES)}
        if r < 0.95 or not self.hostile:
            return ({i: rand_attrs(rng, 1.0) for i in picks},), {}
        return (3,), {}  # neither name nor dict-of-dicts: XGIError

    def g_set_node_attributes(self):
        a, k = self._attr_values(self.nodes, "ghost")
        return Op("set_node_attributes", a, k)

    def g_set_edge_attributes(self):
        a, k = self._attr_values(self.edges, "ghost")
        return Op("set_edge_attributes", a, k)


# ---------------------------------------------------------------------------------
# DiHypergraph op generator
# ---------------------------------------------------------------------------------
class DHGen(HGen):
    cls_name = "DiHypergraph"
    NAMES = (
        "add_node", "add_nodes_from", "add_edge", "add_edges_from", "add_node_to_edge",
        "remove_node", "remove_nodes_from", "remove_edge", "remove_edges_from",
        "remove_node_from_edge", "clear", "cleanup", "relabel",
        "set_node_attributes", "set_edge_attributes", "set_net_attr",
    )
    WEIGHTS = (3, 3, 9, 10, 5, 6, 3, 4, 3, 5, 0.5, 1.5, 1.2, 2, 2, 1)

    def observe(self, net):
        self.nodes = list(net.nodes)
        self.edges = list(net.edges)
        try:
            self.dimembers = net.edges.dimembers(dtype=dict)
        except Exception:
            self.dimembers = {}
        self.members = {e: t | h for e, (t, h) in self.dimembers.items()}

    def _dimembers_arg(self, tags):
        rng = self.rng
        r = rng.random()
        tail = rand_members(rng, self.npool, 0, 3)
        head = rand_members(rng, self.npool, 0, 3)  # may overlap the tail on purpose
        if self.hostile:
            if r < 0.04:
                (tail if rng.random() < 0.5 else head).append(None)
                tags.add("none-member")
            elif r < 0.08:
                tail, head = [], []
        if not tail and not head:
            tags.add("empty-members")
        if set(tail) & set(head):
            tags.add("node-in-both")
        cont = list if ("none-member" in tags or rng.random() < 0.6) else (lambda x: as_container(rng, x))
        pair = (cont(tail), cont(head))
        return list(pair) if rng.random() < 0.5 else pair

    def g_add_edge(self):
        rng = self.rng
        tags = set()
        ms = self._dimembers_arg(tags)
        kwargs = rand_attrs(rng)
        if self.hostile and rng.random() < 0.03:
            return Op("add_edge", ({1, 2},), kwargs, tags=frozenset({"not-a-sequence"}))
        if rng.random() < 0.4:
            idx, t = self.explicit_id()
            tags |= t
            kwargs = {"idx": idx, **kwargs}
        return Op("add_edge", (ms,), kwargs, tags=frozenset(tags))

    def _bulk(self, fmt):
        rng = self.rng
        tags = {f"fmt{fmt}"}
        n = rng.randint(0, 4)
        edges, ids = [], []
        for i in range(n):
            t = set()
            ms = self._dimembers_arg(t)
            tags |= t
            if fmt in (2, 4, 5):
                idx, t2 = self.explicit_id()
                if has(ids, idx):
                    t2.add("dup-id")
                    if fmt == 5:
                        continue
                if isinstance(idx, tuple):
                    t2.add("tuple-id")
                tags |= t2
                ids.append(idx)
            edges.append(ms)
        if len(edges) >= 2 and "none-member" not in tags and rng.random() < 0.2:
            # the very same set object is the tail (or head) of two entries, or both sides of one entry
            i, j = rng.sample(range(len(edges)), 2)
            side = rng.randrange(2)
            if edges[i][side]:
                shared = set(edges[i][side])
                a, b = list(edges[i]), list(edges[j])
                a[side] = shared
                if rng.random() < 0.7:
                    b[side] = shared
                else:
                    a[1 - side] = shared
                edges[i], edges[j] = type(edges[i])(a), type(edges[j])(b)
                tags.add("shared-set-object")
                if set(edges[i][0]) & set(edges[i][1]) or set(edges[j][0]) & set(edges[j][1]):
                    tags.add("node-in-both")
        if fmt in (2, 4, 5):
            nums = [i for i in ids if isinstance(i, (int, float)) and not isinstance(i, bool)]
            if nums and nums[-1] != max(nums):
                tags.add("nonincreasing-ids")
        if fmt == 1:
            eb = edges
        elif fmt == 2:
            eb = [(m, i) for m, i in zip(edges, ids)]
        elif fmt == 3:
            eb = [(m, rand_attrs(rng, 0.7)) for m in edges]
        elif fmt == 4:
            eb = [(m, i, rand_attrs(rng, 0.7)) for m, i in zip(edges, ids)]
        else:
            eb = {i: m for m, i in zip(edges, ids)}
        return eb, tags

    def g_add_node_to_edge(self):
        e, em = self.some_edge(0.25)
        n, nm = self.some_node(0.3)
        tags = set()
        if em:
            tags.add("new-edge-via-add_node_to_edge")
        d = self.rng.choice(("in", "out"))
        if self.hostile and self.rng.random() < 0.06:
            d = "sideways"
            tags.add("bad-direction")
        elif self.hostile and not em and "none-node" not in self.avoid and self.rng.random() < 0.08:
            n = None  # refused; the existing edge must not have taken it in before the refusal
            tags.add("none-node")
        return Op("add_node_to_edge", (e, n, d), tags=frozenset(tags))

    def g_remove_node_from_edge(self):
        rng = self.rng
        e, em = self.some_edge(0.1)
        tags = set()
        d = rng.choice(("in", "out"))
        side = None
        if not em and e in self.dimembers:
            side = self.dimembers[e][0 if d == "in" else 1]
        if side and rng.random() < 0.8:
            n = rng.choice(sorted(side, key=repr))
        else:
            n, nm = self.some_node(0.2)
            if em or nm:
                tags.add("missing-id")
            elif side is None or n not in side:
                tags.add("non-member")
        if em:
            tags.add("missing-id")
        if self.hostile and rng.random() < 0.05:
            d = "sideways"
            tags.add("bad-direction")
        kw = {"remove_empty": rng.random() < 0.5} if rng.random() < 0.5 else {}
        return Op("remove_node_from_edge", (e, n, d), kw, tags=frozenset(tags))

    def g_cleanup(self):
        rng = self.rng
        kw = {k: rng.random() < 0.5 for k in ("isolates", "relabel") if rng.random() < 0.8}
        return Op("cleanup", (), kw)


# ---------------------------------------------------------------------------------
# SimplicialComplex op generator (the class's own mutators only, see DESIGN C03)
# ---------------------------------------------------------------------------------
class SCGen(HGen):
    cls_name = "SimplicialComplex"
    NAMES = (
        "add_node", "add_nodes_from", "add_simplex", "add_simplices_from", "add_weighted_simplices_from",
        "remove_simplex_id", "remove_simplex_ids_from", "remove_node", "remove_nodes_from",
        "close", "cleanup", "alias_add_edge", "alias_add_edges_from", "alias_add_weighted_edges_from",
        "alias_remove_edge", "alias_remove_edges_from", "clear", "relabel", "lcc",
        "set_node_attributes", "set_edge_attributes", "set_net_attr", "clear_edges",
    )
    WEIGHTS = (2, 2, 9, 10, 2, 6, 4, 4, 2, 1, 1.2, 2, 2, 1, 2, 1.5, 0.4, 1, 1, 1.5, 1.5, 1, 0.8)

    def _members_arg(self, tags, hi=5):
        rng = self.rng
        ms = rand_members(rng, self.npool, 1, hi)
        if self.hostile:
            r = rng.random()
            if r < 0.06:
                ms = []
                tags.add("empty-members")
            elif r < 0.10:
                ms = ms + [ms[0]]
        if self.members and rng.random() < 0.15:  # an already-present simplex / a face of one
            base = sorted(rng.choice(list(self.members.values())), key=repr)
            if base:
                ms = rng.sample(base, rng.randint(1, len(base)))
                tags.add("maybe-present")
        return ms

    def g_add_simplex(self):
        rng = self.rng
        tags = set()
        ms = self._members_arg(tags)
        kwargs = rand_attrs(rng)
        if rng.random() < 0.4:
            idx, t = self.explicit_id()
            tags |= t
            kwargs = {"idx": idx, **kwargs}
        return Op("add_simplex", (as_container(rng, ms),), kwargs, tags=frozenset(tags))

    def _max_order(self, tags):
        rng = self.rng
        if rng.random() < 0.45:
            mo = rng.choice((0, 1, 2, 3))
            tags.add("max_order")
            return {"max_order": mo}
        return {}

    def g_add_simplices_from(self):
        fmt = self.rng.choice((1, 1, 2, 3, 4, 5))
        eb, tags = self._bulk(fmt)
        kwargs = rand_attrs(self.rng, 0.4)
        if kwargs:
            tags.add("bulk-kwargs")
        kwargs.update(self._max_order(tags))
        return Op("add_simplices_from", (eb,), kwargs, tags=frozenset(tags))

    def g_add_weighted_simplices_from(self):
        rng = self.rng
        tags = {"fmt3"}
        eb = [tuple(self.new_members(1, 4)) + (rng.choice((0.5, 1, 2.5)),) for _ in range(rng.randint(0, 3))]
        kwargs = rand_attrs(rng, 0.3)
        kwargs.pop("weight", None)  # would be taken as the `weight` parameter
        if rng.random() < 0.3:
            kwargs["weight"] = "w"
        kwargs.update(self._max_order(tags))
        return Op("add_weighted_simplices_from", (eb,), kwargs, tags=frozenset(tags))

    def g_remove_simplex_id(self):
        e, miss = self.some_edge()
        return Op("remove_simplex_id", (e,), tags=frozenset({"missing-id"} if miss else ()))

    def g_remove_simplex_ids_from(self):
        op = self.g_remove_edges_from()
        return Op("remove_simplex_ids_from", op.args, tags=op.tags)

    def g_remove_node(self):
        n, miss = self.some_node()
        return Op("remove_node", (n,), tags=frozenset({"missing-id"} if miss else ()))

    def g_remove_nodes_from(self):
        rng = self.rng
        picks = [self.some_node(0.2) for _ in range(rng.randint(0, 3))]
        if rng.random() < 0.04:
            return Op("remove_nodes_from", (LiveView("nodes"),), tags=frozenset({"live-view"}))
        return Op("remove_nodes_from", ([p[0] for p in picks],), tags=frozenset({"missing-id"} if any(p[1] for p in picks) else ()))

    def g_close(self):
        return Op("close")

    def g_cleanup(self):
        rng = self.rng
        kw = {k: rng.random() < 0.5 for k in ("isolates", "connected", "relabel") if rng.random() < 0.8}
        return Op("cleanup", (), kw)

    def g_alias_add_edge(self):
        op = self.g_add_simplex()
        return Op("add_edge", op.args, op.kwargs, tags=op.tags | {"alias"})

    def g_alias_add_edges_from(self):
        op = self.g_add_simplices_from()
        return Op("add_edges_from", op.args, op.kwargs, tags=op.tags | {"alias"})

    def g_alias_add_weighted_edges_from(self):
        op = self.g_add_weighted_simplices_from()
        return Op("add_weighted_edges_from", op.args, op.kwargs, tags=op.tags | {"alias"})

    def g_alias_remove_edge(self):
        op = self.g_remove_simplex_id()
        return Op("remove_edge", op.args, tags=op.tags | {"alias"})

    def g_alias_remove_edges_from(self):
        op = self.g_remove_simplex_ids_from()
        return Op("remove_edges_from", op.args, tags=op.tags | {"alias"})


GENS = {"Hypergraph": HGen, "DiHypergraph": DHGen, "SimplicialComplex": SCGen}


def new_net(cls_name):
    return getattr(xgi, cls_name)()


def build(rng, cls_name, steps=None, hostile=False, avoid=frozenset(), gen=None):
    """A constructible start state: an empty network + a short constructive history."""
    gen = gen or GENS[cls_name](rng, hostile=hostile, avoid=avoid)
    net = new_net(cls_name)
    hist = []
    for _ in range(steps if steps is not None else rng.randint(0, 8)):
        op = gen.gen(net)
        hist.append(op)
        try:
            apply(op, net)
        except Exception:
            pass
    return net, gen, hist
