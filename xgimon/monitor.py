"""Event counters, three-valued verdicts, known-finding classification, evidence writer.

A check module reports to a `Monitor`:

    mon.ev()                     one monitor evaluation (an oracle was applied to an observed execution)
    mon.note("op:add_edge")      named counter (ops by kind, outcomes, callables probed ...)
    mon.nontrivial(obj)          hash of a case that is non-trivial by the check's RULE (distinct ones are counted)
    mon.sample(obj)              keep a few actual cases for the evidence file
    mon.fail(key, what, witness) a monitor fired.  `key` names the *mechanism* (call site | trigger | clause);
                                 it is matched against known_findings.json (status "open") - everything else
                                 is a VIOLATION.

Verdicts are never folded: violated (exit 1) / inconclusive (exit 2: a coverage floor was
missed or a watchdog fired) / held (exit 0).
"""
import hashlib
import json
import os
import time
from collections import Counter

from . import env

KNOWN_PATH = os.path.join(env.VERIF, "known_findings.json")
DISTINCT_CAP = 400_000


def load_known():
    try:
        with open(KNOWN_PATH) as f:
            data = json.load(f)
    except FileNotFoundError:
        return {}
    out = {}
    for ent in data.get("findings", []):
        if ent.get("status") == "open":
            out[(ent["property"], ent["key"])] = ent
    return out


def _h(obj):
    return int.from_bytes(hashlib.blake2b(repr(obj).encode(), digest_size=8).digest(), "big")


def short(obj, n=600):
    s = obj if isinstance(obj, str) else repr(obj)
    return s if len(s) <= n else s[: n - 3] + "..."


class Monitor:
    def __init__(self, pid, tier, seed, shard=0, nshards=1):
        self.pid, self.tier, self.seed = pid, tier, seed
        self.shard, self.nshards = shard, nshards
        self.counters = Counter()
        self.evals = 0
        self.distinct = set()
        self.samples = []
        self.violations = {}  # key -> dict(what, witness, case, count)
        self.known_hits = {}  # key -> dict(what, witness, case, count)
        self.known = load_known()
        self.case = None  # (kind, idx) of the case being run
        self.cases_run = 0
        self.watchdogs = 0
        self.t0 = time.time()

    # -- observation ------------------------------------------------------------
    def ev(self, n=1):
        self.evals += n

    def note(self, name, n=1):
        self.counters[name] += n

    def nontrivial(self, obj):
        if len(self.distinct) < DISTINCT_CAP:
            self.distinct.add(_h(obj))

    def sample(self, obj, cap=6):
        if len(self.samples) < cap:
            self.samples.append(short(obj, 900))

    # -- verdicts ---------------------------------------------------------------
    def fail(self, key, what, witness=None):
        """A monitor fired.  Returns True when this is a listed (open) known finding."""
        rec = {
            "what": short(what, 500),
            "witness": short(witness, 3000),
            "case": list(self.case) if self.case else None,
            "count": 1,
        }
        if (self.pid, key) in self.known:
            tgt, known = self.known_hits, True
        else:
            tgt, known = self.violations, False
        if key in tgt:
            tgt[key]["count"] += 1
        else:
            tgt[key] = rec
        return known

    # -- (de)serialisation for shards -------------------------------------------
    def dump(self):
        return {
            "counters": dict(self.counters),
            "evals": self.evals,
            "distinct": sorted(self.distinct),
            "samples": self.samples,
            "violations": self.violations,
            "known_hits": self.known_hits,
            "cases_run": self.cases_run,
            "watchdogs": self.watchdogs,
            "reached": [list(x) for x in env.reached()],
        }

    def merge(self, d):
        self.counters.update(d["counters"])
        self.evals += d["evals"]
        self.distinct.update(d["distinct"])
        for s in d["samples"]:
            if len(self.samples) < 8:
                self.samples.append(s)
        for src, dst in ((d["violations"], self.violations), (d["known_hits"], self.known_hits)):
            for k, v in src.items():
                if k in dst:
                    dst[k]["count"] += v["count"]
                else:
                    dst[k] = v
        self.cases_run += d["cases_run"]
        self.watchdogs += d["watchdogs"]
        self._reached_extra = getattr(self, "_reached_extra", set()) | {tuple(x) for x in d["reached"]}

    # -- finish -----------------------------------------------------------------
    def finish(self, module, floors, extra_cov=None):
        """Write evidence, print verdict lines, return the exit code."""
        reached = set(env.reached()) | getattr(self, "_reached_extra", set())
        anchors = tuple(getattr(module, "ANCHORS", ()))
        reach_anchor = sorted(f"{f}:{q}" for f, q in reached if f in anchors)
        missed = {k: (self.counters.get(k, 0), v) for k, v in floors.items() if self.counters.get(k, 0) < v}
        if self.evals == 0:
            missed["evaluations"] = (0, 1)
        cov = {
            "evaluations": self.evals,
            "distinct_nontrivial": len(self.distinct),
            "rule": getattr(module, "RULE", ""),
            "samples": self.samples or ["(no sample recorded)"],
            "cases_run": self.cases_run,
            "shards": self.nshards,
            "counters": dict(sorted(self.counters.items())),
            "floors": {k: {"required": v, "observed": self.counters.get(k, 0)} for k, v in floors.items()},
            "floors_missed": {k: {"observed": a, "required": b} for k, (a, b) in missed.items()},
            "known_finding_hits": {k: v["count"] for k, v in sorted(self.known_hits.items())},
            "violation_keys": {k: v["count"] for k, v in sorted(self.violations.items())},
            "watchdogs_fired": self.watchdogs,
            "anchor_functions_entered": reach_anchor,
            "distinct_cap": DISTINCT_CAP,
            "repo": env.REPO,
        }
        if extra_cov:
            cov.update(extra_cov)
        verdict = "violated" if self.violations else ("inconclusive" if (missed or self.watchdogs) else "held")
        cov["verdict"] = verdict
        ev = {
            "property_id": self.pid,
            "tier": self.tier,
            "seed": self.seed,
            "level": "exploration",
            "coverage": cov,
            "assumptions": list(getattr(module, "ASSUMPTIONS", [])) + COMMON_ASSUMPTIONS,
            "wall_s": round(time.time() - self.t0, 2),
            "violations": len(self.violations),
        }
        _validate(ev, extra_cov)
        # XGIMON_EVIDENCE_DIR: used by the self-validation only, so that runs against a mutant never
        # overwrite the evidence of the real tree
        evdir = os.environ.get("XGIMON_EVIDENCE_DIR") or os.path.join(env.VERIF, "evidence")
        os.makedirs(evdir, exist_ok=True)
        path = os.path.join(evdir, f"{self.pid}.json")
        with open(path + ".tmp", "w") as f:
            json.dump(ev, f, indent=1, default=str)
        os.replace(path + ".tmp", path)

        for k, v in sorted(self.known_hits.items()):
            ent = self.known[(self.pid, k)]
            print(f"KNOWN-FINDING: property={self.pid} key={k} hits={v['count']} :: {ent.get('what', v['what'])}")
        code = 0
        if self.violations:
            code = 1
            rdir = os.path.join(os.environ.get("XGIMON_EVIDENCE_DIR") or env.VERIF, "replays", self.pid)
            os.makedirs(rdir, exist_ok=True)
            for k, v in sorted(self.violations.items()):
                name = hashlib.blake2b(k.encode(), digest_size=6).hexdigest() + ".json"
                rp = os.path.join(rdir, name)
                with open(rp, "w") as f:
                    json.dump(
                        {"property": self.pid, "key": k, "tier": self.tier, "seed": self.seed, **v},
                        f,
                        indent=1,
                        default=str,
                    )
                print(f"VIOLATION property={self.pid} replay={rp}")
                print(f"  key={k} count={v['count']}\n  what={v['what']}\n  witness={short(v['witness'], 700)}")
        elif missed or self.watchdogs:
            code = 2
            print(f"INCONCLUSIVE property={self.pid} reason=floors_missed:{missed} watchdogs:{self.watchdogs}")
        print(
            f"{self.pid} {self.tier} seed={self.seed}: {verdict}; cases={self.cases_run} evaluations={self.evals} "
            f"distinct_nontrivial={len(self.distinct)} known_hits={sum(v['count'] for v in self.known_hits.values())} "
            f"wall={ev['wall_s']}s"
        )
        return code


def _validate(ev, extra_cov):
    """Evidence must validate against /root/.vp/EVIDENCE.schema.json; a check-specific extra key that breaks the
    schema (wrong type for a reserved name) is moved under coverage['extra'] as text instead of invalidating the file."""
    try:
        import jsonschema

        with open("/root/.vp/EVIDENCE.schema.json") as f:
            schema = json.load(f)
    except Exception:
        return
    try:
        jsonschema.validate(json.loads(json.dumps(ev, default=str)), schema)
    except jsonschema.ValidationError as exc:
        cov = ev["coverage"]
        for k in list(extra_cov or {}):
            cov.pop(k, None)
        cov["extra"] = short(extra_cov, 2000)
        cov["evidence_schema_note"] = f"check-specific keys moved to 'extra': {exc.message[:200]}"


COMMON_ASSUMPTIONS = [
    "trusted base: CPython 3.12, numpy, scipy, networkx, pandas, matplotlib and the models / brute-force oracles in /verif/xgimon",
    "verdict 'held' means: no monitor fired on the executions listed under coverage; nothing is claimed for inputs outside the generated classes",
    "set iteration order is fixed by PYTHONHASHSEED=0 for replayability only; no oracle depends on it",
]
