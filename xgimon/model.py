"""Executable reference models ModelH / ModelDH / ModelSC (DESIGN §1.3 shape 2, §2 C05).

A direct transcription of the *documentation* of each mutator onto plain dicts. Where the
documentation leaves a choice the model is nondeterministic: it returns several admissible
post-states (`alts`) or defers to the observation (`fresh` automatic IDs are taken from the
IDs the real call created, then checked to be fresh ints).  The driver (checks/c05.py)
compares the real network with the admissible states after every op and lets the model
adopt the observed one.
"""
import copy
from itertools import combinations


class ModelError(Exception):
    """The documentation says this edit is rejected.

    kind "lib": for a missing / invalid ID -> the library's own error type is required.
    kind "any": rejected, exception type not pinned by the docs.
    alts: further admissible post-states besides "unchanged" (e.g. prefix-applied bulk edits).
    """

    def __init__(self, kind="lib", alts=()):
        super().__init__(kind)
        self.kind = kind
        self.alts = list(alts)


class Undefined(Exception):
    """The documentation does not determine the result (random choice, tie ...): the driver applies
    the weaker oracle named in `law` and re-synchronises the model from the observation."""

    def __init__(self, law, data=None):
        super().__init__(law)
        self.law = law
        self.data = data


class Missing:
    """Placeholder for an automatic ID the real call failed to create."""

    def __init__(self, what):
        self.what = what

    def __repr__(self):
        return f"<expected-new-edge {self.what}>"

    def __hash__(self):
        return id(self)


def _is_pair(item):
    return isinstance(item, tuple) and len(item) == 2 and isinstance(item[1], dict)


class ModelH:
    cls_name = "Hypergraph"
    directed = False

    def __init__(self):
        self.nodes = {}  # n -> attrs
        self.edges = {}  # e -> frozenset members (ModelDH: (tail, head))
        self.eattr = {}  # e -> attrs
        self.net = {}
        self.new_pool = []  # [(id, members)] edges the real call created, not yet claimed
        self.warn_expected = False

    # -- state ------------------------------------------------------------------
    def clone(self):
        m = type(self)()
        m.nodes = copy.deepcopy(self.nodes)
        m.edges = dict(self.edges)
        m.eattr = copy.deepcopy(self.eattr)
        m.net = copy.deepcopy(self.net)
        m.new_pool = list(self.new_pool)
        return m

    def state(self):
        return (dict(self.nodes), {e: (self.edges[e], self.eattr[e]) for e in self.edges}, dict(self.net))

    def adopt(self, snap_unordered):
        """Re-synchronise from an observed unordered snapshot (snap.snap(net, order=False))."""
        _, nodes, edges, _, na = snap_unordered
        self.nodes = copy.deepcopy(dict(nodes))
        self.edges = {e: m for e, (m, a) in edges.items()}
        self.eattr = {e: copy.deepcopy(a) for e, (m, a) in edges.items()}
        self.net = copy.deepcopy(na)

    # -- helpers ----------------------------------------------------------------
    def fresh(self, members):
        """Claim the automatic ID the real call gave to a new edge with these members."""
        for i, (eid, m) in enumerate(self.new_pool):
            if m == members:
                del self.new_pool[i]
                return eid
        return Missing(_fmt(members))

    def _touch_nodes(self, ms):
        for n in ms:
            if n not in self.nodes:
                self.nodes[n] = {}

    def _put_edge(self, uid, ms, attr):
        self._touch_nodes(ms)
        self.edges[uid] = frozenset(ms)
        self.eattr[uid] = dict(attr)

    def _mset(self, members):
        ms = frozenset(members)
        if None in ms:
            raise ModelError("lib")
        return ms

    def _drop_edge(self, e):
        del self.edges[e]
        del self.eattr[e]

    # -- node ops -----------------------------------------------------------------
    def op_add_node(self, node, **attr):
        if node is None:
            raise ModelError("lib")
        self.nodes.setdefault(node, {}).update(attr)

    def op_add_nodes_from(self, nodes, **attr):
        for item in nodes:
            if _is_pair(item):
                n, d = item
                d = {**attr, **d}
            else:
                n, d = item, attr
            if n is None:
                raise ModelError("lib", alts=[self.clone()])
            self.nodes.setdefault(n, {}).update(d)

    def op_remove_node(self, n, strong=False, remove_empty=True):
        if n not in self.nodes:
            raise ModelError("lib")
        del self.nodes[n]
        for e in [e for e, m in self.edges.items() if n in m]:
            if strong:
                self._drop_edge(e)
            else:
                self.edges[e] = self.edges[e] - {n}
                if not self.edges[e] and remove_empty:
                    self._drop_edge(e)

    def op_remove_nodes_from(self, nodes, strong=False, remove_empty=True):
        for n in nodes:
            if n not in self.nodes:
                self.warn_expected = True
                continue
            self.op_remove_node(n, strong=strong, remove_empty=remove_empty)

    # -- edge ops -----------------------------------------------------------------
    def op_add_edge(self, members, idx=None, **attr):
        ms = self._mset(members)
        if idx is not None and idx in self.edges:
            self.warn_expected = True
            return
        if not ms:
            # docstring: "Raises XGIError if members is empty"; tests/core/test_hypergraph.py::test_add_edge
            # and from_hif_dict rely on the edge being added -> both admissible
            self.allow_lib_error_unchanged = True
        self._put_edge(idx if idx is not None else self.fresh(ms), ms, attr)

    def _bulk_items(self, ebunch, fmt):
        """-> list of (members, idx_or_None, eattr)."""
        if fmt == 5:
            return [(m, i, {}) for i, m in ebunch.items()]
        out = []
        for e in ebunch:
            if fmt == 1:
                out.append((e, None, {}))
            elif fmt == 2:
                out.append((e[0], e[1], {}))
            elif fmt == 3:
                out.append((e[0], None, e[1]))
            else:
                out.append((e[0], e[1], e[2]))
        return out

    def op_add_edges_from(self, ebunch, fmt=1, **attr):
        for members, idx, eattr in self._bulk_items(ebunch, fmt):
            if idx is not None and idx in self.edges:
                self.warn_expected = True
                continue
            try:
                ms = self._mset(members)
            except ModelError:
                raise ModelError("lib", alts=[self.clone()])  # prefix-applied or unchanged
            if not ms:
                self.empty_seen = True  # "the method skips over them" vs. the code adds them: both admissible
                if getattr(self, "skip_empty", False):
                    continue
            self._put_edge(idx if idx is not None else self.fresh(ms), ms, {**attr, **eattr})

    def op_add_weighted_edges_from(self, ebunch, weight="weight", **attr):
        self.op_add_edges_from([(t[:-1], {weight: t[-1]}) for t in ebunch], fmt=3, **attr)

    def op_add_node_to_edge(self, edge, node):
        if edge is None or node is None:
            raise ModelError("lib", alts=[self.clone()])
        if edge not in self.edges:
            self.edges[edge] = frozenset()
            self.eattr[edge] = {}
        self._touch_nodes([node])
        self.edges[edge] = self.edges[edge] | {node}

    def op_remove_edge(self, idx):
        if idx not in self.edges:
            raise ModelError("lib")
        self._drop_edge(idx)

    def op_remove_edges_from(self, ebunch):
        for idx in ebunch:
            if idx not in self.edges:
                raise ModelError("lib", alts=[self.clone()])  # atomic or prefix-applied
            self._drop_edge(idx)

    def op_remove_node_from_edge(self, edge, node, remove_empty=True):
        if edge not in self.edges or node not in self.nodes or node not in self.edges[edge]:
            raise ModelError("lib")
        self.edges[edge] = self.edges[edge] - {node}
        if not self.edges[edge] and remove_empty:
            self._drop_edge(edge)

    def op_update(self, edges=None, nodes=None, fmt=1):
        if nodes:
            self.op_add_nodes_from(nodes)
        if edges:
            self.op_add_edges_from(edges, fmt=fmt)

    def op_clear(self, remove_net_attr=True):
        self.nodes.clear()
        self.edges.clear()
        self.eattr.clear()
        if remove_net_attr:
            self.net.clear()

    def op_clear_edges(self):
        self.edges.clear()
        self.eattr.clear()

    def op_setitem(self, k, v):
        self.net[k] = v

    # -- attributes ---------------------------------------------------------------
    def _set_attrs(self, table, values, name):
        if name is not None:
            if isinstance(values, dict):
                for i, v in values.items():
                    if i in table:
                        table[i][name] = v
                    else:
                        self.warn_expected = True
            else:
                for i in table:
                    table[i][name] = values
        else:
            if not isinstance(values, dict):
                raise ModelError("lib")
            for i, d in values.items():
                if i in table:
                    table[i].update(d)
                else:
                    self.warn_expected = True

    def op_set_node_attributes(self, values, name=None):
        self._set_attrs(self.nodes, values, name)

    def op_set_edge_attributes(self, values, name=None):
        self._set_attrs(self.eattr, values, name)

    # -- rewiring -----------------------------------------------------------------
    def op_double_edge_swap(self, n1, n2, e1, e2):
        if n1 not in self.nodes or n2 not in self.nodes or e1 not in self.edges or e2 not in self.edges:
            raise ModelError("lib")
        m1, m2 = self.edges[e1], self.edges[e2]
        if n1 not in m1 or n2 not in m2:
            raise ModelError("lib")
        if n1 == n2:
            # swapping a node with itself: the docs neither define nor forbid it -> no-op or rejection
            self.allow_lib_error_unchanged = True
            return
        if e1 == e2:
            raise ModelError("lib")
        new1 = (m1 - {n1}) | {n2}
        new2 = (m2 - {n2}) | {n1}
        if len(new1) != len(m1) or len(new2) != len(m2):
            raise ModelError("lib")
        self.edges[e1], self.edges[e2] = new1, new2

    def op_random_edge_shuffle(self, e_id1=None, e_id2=None):
        if len(self.edges) < 2:
            raise ModelError("any")
        if e_id1 is None or e_id2 is None:
            raise Undefined("shuffle", None)
        if e_id1 not in self.edges or e_id2 not in self.edges:
            raise ModelError("lib")
        raise Undefined("shuffle", (e_id1, e_id2))

    def op_merge_duplicate_edges(self, rename="first", merge_rule="first", multiplicity=None):
        classes = {}
        for e, m in self.edges.items():
            classes.setdefault(m, []).append(e)
        dup_classes = [(m, ids) for m, ids in classes.items() if len(ids) > 1]
        if rename not in ("first", "tuple", "new") or merge_rule not in ("first", "union", "intersection"):
            if dup_classes:
                unorderable = False
                for _, ids in dup_classes:
                    try:
                        sorted(ids)
                    except TypeError:
                        unorderable = True
                # invalid argument -> the library's error; but when the duplicate IDs cannot be sorted either, the
                # docs do not say which of the two problems is reported first
                raise ModelError("any" if unorderable else "lib")
            return  # nothing to merge: the docs do not say whether the arguments are validated anyway
        if merge_rule == "union":
            self.warn_expected = True
        plans = []
        for m, ids in dup_classes:
            try:
                srt = sorted(ids)
            except TypeError:
                if rename in ("first", "tuple") or merge_rule == "first":
                    raise ModelError("any")  # "first of the sorted duplicate edge IDs" is undefined for unorderable IDs
                srt = list(ids)
            attrs_of = {i: self.eattr[i] for i in ids}
            if merge_rule == "first":
                new_attrs = [copy.deepcopy(attrs_of[srt[0]]), copy.deepcopy(attrs_of[ids[0]])]  # smallest ID / first added
            else:
                fields = {f for i in ids for f in attrs_of[i]}
                try:
                    sets = {f: {attrs_of[i].get(f) for i in ids} for f in fields}
                except TypeError:
                    raise ModelError("any")  # unhashable attribute values cannot be put into a set
                if merge_rule == "union":
                    new_attrs = [sets]
                else:
                    new_attrs = [{f: (next(iter(v)) if len(v) == 1 else None) for f, v in sets.items()}]
            plans.append((m, ids, srt, new_attrs))
        for m, ids, srt, new_attrs in plans:
            for i in ids:
                self._drop_edge(i)
        first_choice_alts = []
        for m, ids, srt, new_attrs in plans:
            if rename == "first":
                new_id = srt[0]
            elif rename == "tuple":
                new_id = tuple(srt)
            else:
                new_id = self.fresh(m)
            if new_id in self.edges:
                raise Undefined("resync")  # merged ID collides with a surviving edge: not covered by the docs
            attrs = dict(new_attrs[0])
            if multiplicity is not None:
                attrs[multiplicity] = len(ids)
            self.edges[new_id] = m
            self.eattr[new_id] = attrs
            if len(new_attrs) > 1 and new_attrs[1] != new_attrs[0]:
                alt = dict(new_attrs[1])
                if multiplicity is not None:
                    alt[multiplicity] = len(ids)
                first_choice_alts.append((new_id, alt))
        if first_choice_alts:
            self.attr_alts = first_choice_alts  # "attributes of the first duplicate": smallest ID or first added

    # -- library helpers ----------------------------------------------------------
    def components(self):
        adj = {n: set() for n in self.nodes}
        for m in self.edges.values():
            ms = self._flat(m)
            for a in ms:
                adj[a] |= ms
        seen, comps = set(), []
        for n in self.nodes:
            if n in seen:
                continue
            comp, stack = set(), [n]
            while stack:
                v = stack.pop()
                if v in comp:
                    continue
                comp.add(v)
                stack.extend(adj[v] - comp)
            seen |= comp
            comps.append(comp)
        return comps

    def _flat(self, m):
        return set(m)

    def op_largest_connected_hypergraph(self, in_place=True):
        comps = self.components()
        if not comps:
            raise Undefined("resync-or-error")  # null network: not covered by the docs
        best = max(len(c) for c in comps)
        cands = [c for c in comps if len(c) == best]
        if len(cands) > 1:
            raise Undefined("lcc-tie", cands)
        self.op_remove_nodes_from([n for n in list(self.nodes) if n not in cands[0]])
        self.warn_expected = False

    def op_convert_labels_to_integers(self, label_attribute="label", in_place=True):
        nmap = {n: i for i, n in enumerate(self.nodes)}
        emap = {e: i for i, e in enumerate(self.edges)}
        self.nodes = {nmap[n]: {**a, label_attribute: n} for n, a in self.nodes.items()}
        self.eattr = {emap[e]: {**a, label_attribute: e} for e, a in self.eattr.items()}
        self.edges = {emap[e]: self._map_members(m, nmap) for e, m in self.edges.items()}

    def _map_members(self, m, nmap):
        return frozenset(nmap[n] for n in m)

    def op_cleanup(self, isolates=False, singletons=False, multiedges=False, connected=True, relabel=True, in_place=True):
        if not multiedges:
            self.op_merge_duplicate_edges()
            if getattr(self, "attr_alts", None):
                raise Undefined("resync")
        if not singletons:
            for e in [e for e, m in self.edges.items() if len(m) == 1]:
                self._drop_edge(e)
        if not isolates:
            used = set().union(*self.edges.values()) if self.edges else set()
            for n in [n for n in self.nodes if n not in used]:
                del self.nodes[n]
        if connected:
            self.op_largest_connected_hypergraph()
        if relabel:
            self.op_convert_labels_to_integers()
        self.warn_expected = None  # warnings of the inner steps are not part of cleanup's contract


def _fmt(m):
    if isinstance(m, tuple):
        return (sorted(m[0], key=repr), sorted(m[1], key=repr))
    return sorted(m, key=repr)


# =================================================================================
class ModelDH(ModelH):
    cls_name = "DiHypergraph"
    directed = True

    def _flat(self, m):
        return set(m[0]) | set(m[1])

    def _pair(self, members):
        if not isinstance(members, (tuple, list)):
            raise ModelError("lib")
        t, h = frozenset(members[0]), frozenset(members[1])
        if None in t or None in h:
            raise ModelError("lib")
        return (t, h)

    def _put_edge(self, uid, ms, attr):
        self._touch_nodes(ms[0] | ms[1])
        self.edges[uid] = ms
        self.eattr[uid] = dict(attr)

    def op_remove_node(self, n, strong=False, remove_empty=True):
        if n not in self.nodes:
            raise ModelError("lib")
        del self.nodes[n]
        for e in [e for e, (t, h) in self.edges.items() if n in t or n in h]:
            if strong:
                self._drop_edge(e)
            else:
                t, h = self.edges[e]
                self.edges[e] = (t - {n}, h - {n})
                if not (self.edges[e][0] or self.edges[e][1]) and remove_empty:
                    self._drop_edge(e)

    def op_add_edge(self, members, idx=None, **attr):
        ms = self._pair(members)
        if idx is not None and idx in self.edges:
            self.warn_expected = True
            return
        self._put_edge(idx if idx is not None else self.fresh(ms), ms, attr)

    def op_add_edges_from(self, ebunch, fmt=1, **attr):
        for members, idx, eattr in self._bulk_items(ebunch, fmt):
            if idx is not None and idx in self.edges:
                self.warn_expected = True
                continue
            try:
                ms = self._pair(members)
            except ModelError:
                raise ModelError("lib", alts=[self.clone()])
            self._put_edge(idx if idx is not None else self.fresh(ms), ms, {**attr, **eattr})

    def op_add_node_to_edge(self, edge, node, direction):
        if direction not in ("in", "out"):
            raise ModelError("lib")
        if edge is None or node is None:
            raise ModelError("lib", alts=[self.clone()])
        if edge not in self.edges:
            self.edges[edge] = (frozenset(), frozenset())
            self.eattr[edge] = {}
        self._touch_nodes([node])
        t, h = self.edges[edge]
        # direction "in": the node is added to the edge's tail ("in" side of the edge), "out": to its head
        self.edges[edge] = (t | {node}, h) if direction == "in" else (t, h | {node})

    def op_remove_node_from_edge(self, edge, node, direction, remove_empty=True):
        if direction not in ("in", "out"):
            raise ModelError("lib")
        if edge not in self.edges or node not in self.nodes:
            raise ModelError("lib")
        t, h = self.edges[edge]
        side = t if direction == "in" else h
        if node not in side:
            raise ModelError("lib")
        self.edges[edge] = (t - {node}, h) if direction == "in" else (t, h - {node})
        if not (self.edges[edge][0] or self.edges[edge][1]) and remove_empty:
            self._drop_edge(edge)

    def _map_members(self, m, nmap):
        return (frozenset(nmap[n] for n in m[0]), frozenset(nmap[n] for n in m[1]))

    def op_cleanup(self, isolates=False, relabel=True, in_place=True):
        if not isolates:
            used = set()
            for t, h in self.edges.values():
                used |= t | h
            for n in [n for n in self.nodes if n not in used]:
                del self.nodes[n]
        if relabel:
            self.op_convert_labels_to_integers()
        self.warn_expected = None


# =================================================================================
class ModelSC(ModelH):
    cls_name = "SimplicialComplex"

    def has(self, ms):
        return ms in set(self.edges.values())

    def faces(self, ms, lo=2, hi=None):
        hi = len(ms) - 1 if hi is None else hi
        out = []
        for k in range(lo, hi + 1):
            out.extend(frozenset(c) for c in combinations(sorted(ms, key=repr), k))
        return out

    def _add_faces(self, faces):
        for f in faces:
            if f and not self.has(f):
                self._put_edge(self.fresh(f), f, {})

    def op_add_simplex(self, members, idx=None, **attr):
        ms = frozenset(members)
        if not ms or self.has(ms):
            return
        if idx is not None and idx in self.edges:
            self.warn_expected = True
            return
        self._put_edge(idx if idx is not None else self.fresh(ms), ms, attr)
        self._add_faces(self.faces(ms))

    def op_add_simplices_from(self, ebunch, max_order=None, fmt=1, **attr):
        faces = []
        for members, idx, eattr in self._bulk_items(ebunch, fmt):
            ms = frozenset(members)
            if not ms or self.has(ms):
                continue
            too_big = max_order is not None and len(ms) > max_order + 1
            taken = idx is not None and idx in self.edges
            if fmt == 5:  # the ID is looked at first
                if taken:
                    self.warn_expected = True
                    continue
                if too_big:
                    faces += self.faces(ms, 2, max_order + 1)
                    continue
            else:  # the order bound is looked at first
                if too_big:
                    faces += self.faces(ms, 2, max_order + 1)
                    continue
                if taken:
                    self.warn_expected = True
                    continue
            self._put_edge(idx if idx is not None else self.fresh(ms), ms, {**attr, **eattr})
            faces += self.faces(ms)
        self._add_faces(faces)

    def op_add_weighted_simplices_from(self, ebunch, max_order=None, weight="weight", **attr):
        self.op_add_simplices_from([(t[:-1], {weight: t[-1]}) for t in ebunch], max_order=max_order, fmt=3, **attr)

    # deprecated aliases == their replacements
    def op_add_edge(self, edge, idx=None, **attr):
        self.op_add_simplex(edge, idx=idx, **attr)
        self.warn_expected = None

    def op_add_edges_from(self, ebunch, max_order=None, fmt=1, **attr):
        self.op_add_simplices_from(ebunch, max_order=max_order, fmt=fmt, **attr)
        self.warn_expected = None

    def op_add_weighted_edges_from(self, ebunch, max_order=None, weight="weight", **attr):
        self.op_add_weighted_simplices_from(ebunch, max_order=max_order, weight=weight, **attr)
        self.warn_expected = None

    def op_remove_edge(self, idx):
        self.op_remove_simplex_id(idx)
        self.warn_expected = None

    def op_remove_edges_from(self, ebunch):
        try:
            self.op_remove_simplex_ids_from(ebunch)
        finally:
            self.warn_expected = None

    def op_remove_simplex_id(self, idx):
        if idx not in self.edges:
            raise ModelError("lib")
        ms = self.edges[idx]
        for j in [j for j, m in self.edges.items() if ms < m]:
            self._drop_edge(j)
        self._drop_edge(idx)

    def op_remove_simplex_ids_from(self, ebunch):
        at_start = set(self.edges)
        for idx in ebunch:
            if idx in at_start and idx not in self.edges:
                continue  # already gone as a superset of an earlier one
            if idx not in self.edges:
                raise ModelError("lib", alts=[self.clone()])
            self.op_remove_simplex_id(idx)

    def op_remove_node(self, n):
        ModelH.op_remove_node(self, n, strong=True)

    def op_remove_nodes_from(self, nodes):
        for n in nodes:
            if n not in self.nodes:
                self.warn_expected = True
                continue
            self.op_remove_node(n)

    def op_close(self):
        for ms in list(self.edges.values()):
            self._add_faces(self.faces(ms))

    def op_update(self, edges=None, nodes=None, fmt=1):
        raise Undefined("resync")

    def op_convert_labels_to_integers(self, label_attribute="label", in_place=True):
        ModelH.op_convert_labels_to_integers(self, label_attribute=label_attribute)

    def op_cleanup(self, isolates=False, connected=True, relabel=True, in_place=True):
        if not isolates:
            used = set().union(*self.edges.values()) if self.edges else set()
            for n in [n for n in self.nodes if n not in used]:
                del self.nodes[n]
        if connected:
            self.op_largest_connected_hypergraph()
        if relabel:
            self.op_convert_labels_to_integers()
        self.warn_expected = None

    def op_largest_connected_hypergraph(self, in_place=True):
        comps = self.components()
        if not comps:
            raise Undefined("resync-or-error")
        best = max(len(c) for c in comps)
        cands = [c for c in comps if len(c) == best]
        if len(cands) > 1:
            raise Undefined("lcc-tie", cands)
        self.op_remove_nodes_from([n for n in list(self.nodes) if n not in cands[0]])
        self.warn_expected = None


MODELS = {"Hypergraph": ModelH, "DiHypergraph": ModelDH, "SimplicialComplex": ModelSC}
