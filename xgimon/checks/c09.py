"""C09 - structural measures are invariant under relabelling and insertion order (DESIGN §2 C09).

Metamorphic two-execution monitor.  A base hypergraph H (nodes 0..n-1 added in order, edges
added with automatic IDs 0..m-1) and H' = relabel(H; nu, eps, orders) are both built through
the public API (`add_node`, `add_edge(members, idx=...)`).  Every measure of the catalogue is
evaluated on both; the result on H' is mapped back through nu^-1 / eps^-1 (matrices through
the index maps returned with index=True) and must equal the result on H.

Violation keys: "<measure>|<aspect of the transformation>|<clause>" with
  aspect in node-labels-<kind> | edge-ids-<kind>  (kind in permuted, gapped, strings, mixed, bigints, floats, numpy, rtstrings, tuples) |
            node-order | edge-order | member-order | combined(..)
  clause in value-differs | one-sided-exception | exception-differs.
When several aspects were applied at once, the failing call is re-executed on restricted
variants of the same transformation: the first aspect (fixed priority) that reproduces a
mismatch alone names the key; else the first aspect whose removal makes the mismatch vanish.
"""
import math
from collections import Counter, defaultdict

import sys

import numpy as np

from .. import ops, snap
from ..env import xgi

PID = "C09"
ANCHORS = (
    "xgi/algorithms/clustering.py",
    "xgi/algorithms/assortativity.py",
    "xgi/algorithms/connected.py",
    "xgi/algorithms/shortest_path.py",
    "xgi/algorithms/properties.py",
    "xgi/algorithms/simpliciality.py",
    "xgi/algorithms/centrality.py",
    "xgi/linalg/hypergraph_matrix.py",
    "xgi/linalg/laplacian_matrix.py",
    "xgi/stats/nodestats.py",
)
TECHNIQUE = "runtime monitoring: metamorphic two-execution monitor (relabelled / re-ordered construction of the same hypergraph)"
RULE = (
    "case = one seeded base hypergraph (<= 8 nodes, <= 10 edges of size 1-5; flavours random / uniform / covered / simplicial / graph / twins (two non-adjacent nodes with equal neighbourhoods), with isolated nodes, "
    "singletons, multi-edges, nested edges, optional edge weights) + one transformation (node bijection / edge-ID bijection, each of 9 label kinds: permutation | gapped ints | strings | mixed int+str | "
    "big ints | floats | numpy ints | run-time strings | tuples; every label occurrence a fresh equal object; shuffled node / edge / member insertion order; case kinds apply them combined or "
    "one aspect at a time). one evaluation = one measure call executed on both networks and compared after mapping back. "
    "distinct_nontrivial = distinct (base edge list, transformation) with >= 1 edge and a non-identity transformation"
)
ASSUMPTIONS = [
    'relabelling kinds (nodes and edge IDs): permuted, gapped, strings, mixed, big ints, floats, numpy ints, run-time strings, tuples, and hash twins (unequal labels with equal hashes: -1 / -2, i / i + 2**61 - 1)',
    "base network uses labels 0..n-1 / automatic edge IDs in insertion order (the situation of the test-suite fixtures); every other labelling is compared with it, so a defect that is label-independent is invisible here (C12/C14/C15 own that)",
    "numbers are compared with |a-b| <= 1e-9 * max(1, |a|, |b|) (all compared quantities are O(1)-O(100); exact cancellations such as Laplacian entries or correlation coefficients may differ in the last ulp under a different summation order); NaN == NaN, inf == inf",
    "results that are dicts are compared as mappings (iteration order of a result legitimately follows insertion order); components as a set of sets; largest_connected_component by size only (ties are broken by order); duplicates() by {member set: number of IDs returned} because *which* ID of a class is kept depends on the labels",
    "both sides raising the same exception type is not a mismatch (counted as both-raised:<measure>); one side only, or two different types, is",
    "label kinds for nodes and for edge IDs (chosen by case index): permutation of the same ints | gapped/negative ints | strings | mixed ints and strings in one network, often with look-alikes that are unequal but print alike (k and str(k), 'a' and 'a ', (1, 2) and '(1, 2)') | ints >= 1000 / 2**33 / negative (outside CPython's small-int cache) | floats (integral and non-integral) | numpy.int64 | strings built at run time (not interned) | tuples of ints. Every occurrence of a label in the construction of the relabelled network and in arguments is a separately created equal object (fresh()); both networks are built with add_node / add_edge only, never a bulk call",
    "measure x label-kind support was determined empirically on the unchanged tree: everything in the catalogue supports every kind except the eight simpliciality measures (5 functions + 3 local_* stats) with mixed int/str node labels - their Trie sorts the members of an edge, so unorderable labels raise TypeError while the int-labelled base returns a value; those (measure, kind) pairs are skipped and counted (skipped-unsupported:*) (property mechanism: 'label-order independent for orderable labels')",
    "not in the catalogue, with reason: degree_assortativity(exact=False), h_/uniform_h_eigenvector_centrality (random start vector / sampling, C17 owns seeds); clique_ and z_eigenvector_centrality (ARPACK eigsh from a random start, converged only to tol); line_vector_centrality (documents that nodes must be 0..n-1: label dependent by contract); nodestats.attrs (not structural); argmax/argmin/argsort of stats (ties broken by order). node_edge_centrality is deterministic and included with tolerance 1e-6 (its stopping tolerance)",
    "no empty edges; inputs whose construction already violates the C01 invariant are discarded and counted",
    "matrix functions that return an index map shorter than the matrix (n x n zero matrix with {} when no edge has the requested order) are compared positionally in H.nodes order; counted as index-map-incomplete",
]
CASE_TIMEOUT = 120

REL = 1e-9
W = "weight"
NODE_STR = ["a", "b", "c", "d", "e", "n1", "n10", "n2", "x", "yy", "B", "_z"]
EDGE_STR = ["e0", "e1", "e2", "f", "g", "h", "e10", "zz", "q", "r", "E", "10"]
KIND_TAG = {"perm": "permuted", "gap": "gapped", "str": "strings", "mixed": "mixed", "bigint": "bigints", "float": "floats",
            "npint": "numpy", "rtstr": "rtstrings", "tuple": "tuples", "hashtwin": "hashtwins"}
NODE_KINDS = ("perm", "gap", "str", "mixed", "bigint", "float", "npint", "rtstr", "tuple", "hashtwin")
EDGE_KINDS = ("perm", "gap", "str", "mixed", "bigint", "float", "npint", "rtstr", "tuple", "hashtwin")
# unequal labels with equal hashes: hash(-1) == hash(-2), and hash(i + (2**61 - 1)) == hash(i) on 64-bit CPython - anything
# keyed or ordered by hash(label) (or by the hash of a set of labels) confuses them
_HM = sys.hash_info.modulus
_TWINS = [-1, -2] + [v for i in range(0, 7) for v in (i, _HM + i)]
_BIG = list(range(1001, 1400)) + [2**33 + i for i in range(20)] + [-1500 - i for i in range(20)]
_FLOATS = [0.5, 1.5, 2.0, 3.0, -1.0, 2.25, 7.0, 10.0, 0.1, 1000.0, -0.75, 4.0, 1e-3, 6.5]
_RTSTR = ["node_1", "node_10", "node_2", "alpha", "beta", "Gamma", "x y", "\u00fc-1", "10", "007", "n.a", "__", "1e3", "None"]
_TUPLES = [(a, b) for a in range(4) for b in range(3)] + [(5,), (1, 2, 3), (0, 0, 1), (-1, 7)]


def _pool(kind, role, rng):
    """Label pool of a relabel kind (role: 'node' | 'edge')."""
    if kind == "gap":
        return list(range(-5, 40)) if role == "node" else list(range(-3, 30))
    if kind == "str":
        return NODE_STR if role == "node" else EDGE_STR
    if kind == "bigint":
        return _BIG
    if kind == "float":
        return _FLOATS
    if kind == "npint":
        return [np.int64(v) for v in list(range(-5, 40)) + [1001, 1002, 2**33]]
    if kind == "rtstr":
        return _RTSTR
    if kind == "tuple":
        return _TUPLES
    if kind == "hashtwin":
        return _TWINS
    raise ValueError(kind)


def fresh(x):
    """An equal but (where CPython allows it) not identical label: every use of a label in the construction of the
    relabelled network and in arguments is a separately created object, as labels read from a file would be."""
    if isinstance(x, (bool, np.generic)):
        return type(x)(x)
    if isinstance(x, int):
        return int(str(x))
    if isinstance(x, float):
        return float(repr(x))
    if isinstance(x, str):
        return "".join([x[:1], x[1:]]) if len(x) > 1 else x
    if isinstance(x, tuple):
        return tuple(fresh(y) for y in x)
    return x


ASPECTS = ("node-labels", "edge-ids", "node-order", "edge-order", "member-order")


def plan(tier):
    if tier == "quick":
        return {"combined": 160, "node-labels": 72, "edge-ids": 81, "order": 60, "sequence": 60}
    return {"combined": 28000, "node-labels": 10000, "edge-ids": 14000, "order": 12000, "sequence": 8000}


def _seq_functions():
    """Measures for the same-object sequences: the live object (with its edit history, i.e. another insertion
    history) must give the same structural quantities as a freshly built equal network."""
    import numpy as _np

    def comps(H):
        return sorted(sorted(map(repr, c)) for c in xgi.connected_components(H))

    def dense(f, **kw):
        return lambda H: f(H, sparse=False, **kw)

    return [
        ("degree", lambda H: H.nodes.degree.asdict()),
        ("degree(order=1)", lambda H: H.nodes.degree(order=1).asdict()),
        ("degree(weight)", lambda H: H.nodes.degree(weight="weight").asdict()),
        ("size", lambda H: H.edges.size.asdict()),
        ("average_neighbor_degree", lambda H: H.nodes.average_neighbor_degree.asdict()),
        ("clustering_coefficient", xgi.clustering_coefficient),
        ("local_clustering_coefficient", xgi.local_clustering_coefficient),
        ("two_node_clustering_coefficient", xgi.two_node_clustering_coefficient),
        ("connected_components", comps),
        ("number_connected_components", xgi.number_connected_components),
        ("shortest_path_length", lambda H: dict(xgi.shortest_path_length(H))),
        ("density", xgi.density),
        ("incidence_density", xgi.incidence_density),
        ("degree_assortativity", lambda H: xgi.degree_assortativity(H, kind="uniform", exact=True)),
        ("dynamical_assortativity", xgi.dynamical_assortativity),
        ("edit_simpliciality", xgi.edit_simpliciality),
        ("simplicial_fraction", xgi.simplicial_fraction),
        ("face_edit_simpliciality", xgi.face_edit_simpliciality),
        ("maximal", lambda H: sorted(map(repr, H.edges.maximal()))),
        ("maximal(strict)", lambda H: sorted(map(repr, H.edges.maximal(strict=True)))),
        ("duplicates", lambda H: len(list(H.edges.duplicates()))),
        ("katz_centrality", xgi.katz_centrality),
        ("incidence_matrix", dense(xgi.incidence_matrix)),
        ("adjacency_matrix", dense(xgi.adjacency_matrix)),
        ("adjacency_matrix(weighted)", dense(xgi.adjacency_matrix, weighted=True, s=2)),
        ("degree_matrix", xgi.degree_matrix),
        ("intersection_profile", dense(xgi.intersection_profile)),
        ("clique_motif_matrix", dense(xgi.clique_motif_matrix)),
        ("laplacian", lambda H: xgi.laplacian(H, order=1)),
        ("multiorder_laplacian", lambda H: xgi.multiorder_laplacian(H, [1, 2], [1, 0.5])),
        ("normalized_hypergraph_laplacian", dense(xgi.normalized_hypergraph_laplacian)),
    ]


def _sequence_case(mon, idx, rng):
    from .. import stale

    kind = ("int", "gap", "str")[idx % 3]
    _, pool = ops.node_pool(rng, kind, 7)

    def build():
        H = xgi.Hypergraph()
        H.add_nodes_from(pool[:5])
        for _ in range(rng.randint(3, 6)):
            H.add_edge(ops.rand_members(rng, pool[:6], 1, 4), weight=rng.choice((1, 2, 0.5)))
        return H

    mon.note("sequence-cases")
    stale.run(mon, rng, "Hypergraph", _seq_functions(), build, pool)


def floors(tier):
    q = tier == "quick"
    # every floor is <= half of what the smallest observed run delivers (kinds are assigned by case index, so the
    # counts hardly depend on the seed)
    f = {f"cmp:{m}": (160 if q else 28000) for m in MEASURES}
    f.update({f"value:{m}": (40 if q else 7000) for m in VALUE_FLOOR})
    f.update({f"nkind:{k}": (10 if q else 1900) for k in NODE_KINDS})
    f.update({f"ekind:{k}": (10 if q else 1900) for k in EDGE_KINDS})
    f.update({f"aspect:{a}": (70 if q else 12000) for a in ASPECTS})
    f["cases-compared"] = 180 if q else 30000
    f["seq:evaluations-after-edit"] = 2000 if q else 300000
    f["seq:state-changed-with-same-id-sets"] = 40 if q else 6000
    return f


# ---------------------------------------------------------------------------------
# base hypergraphs
# ---------------------------------------------------------------------------------
def _rand_edge(rng, n, edges):
    r = rng.random()
    if edges and r < 0.14:  # multi-edge
        return list(rng.choice(edges))
    if edges and r < 0.30:  # nested: a subset of an existing edge
        e = rng.choice(edges)
        return rng.sample(e, rng.randint(1, len(e)))
    if edges and r < 0.38:  # a superset of an existing edge
        e = rng.choice(edges)
        rest = [v for v in range(n) if v not in e]
        extra = rng.sample(rest, min(len(rest), rng.randint(1, 2)))
        return (list(e) + extra)[:5]
    size = rng.choice((1, 2, 2, 2, 3, 3, 4, 5))
    return rng.sample(range(n), min(n, size))


def gen_base(rng):
    """-> (flavour, n, edges[list of member lists], attrs[list of dicts])"""
    flavour = rng.choice(("random", "random", "random", "uniform", "covered", "simplicial", "graph", "twins"))
    if flavour == "twins":
        # two non-adjacent nodes u, v with the same neighbourhood A but different local structure (faces only through u):
        # anything keyed by a neighbourhood / member set instead of the node shows up as an order dependence
        n = rng.randint(4, 8)
        perm = rng.sample(range(n), n)
        u, v, rest = perm[0], perm[1], perm[2:]
        if rng.random() < 0.6:  # {a, b, u} with all its faces (a simplex), {a, b, v} without the faces through v
            A = rest[:2]
            edges = [A + [u], A + [v], list(A), [A[0], u], [A[1], u]]
            if rng.random() < 0.4:
                edges.append([A[rng.randrange(2)], v])
        else:
            A = rest[: rng.randint(2, min(3, len(rest)))]
            edges = [A + [u], A + [v]]
            for _ in range(rng.randint(1, 3)):
                edges.append(rng.sample(A, rng.randint(1, len(A) - 1)) + [u])
            if rng.random() < 0.5:
                edges.append(list(A))
        for _ in range(rng.randint(0, 3)):
            edges.append(rng.sample(rest, min(len(rest), rng.randint(1, 3))))
        rng.shuffle(edges)
    elif flavour == "uniform":
        k = rng.choice((2, 2, 3, 3, 4))
        n = rng.randint(k, 8)
        m = rng.randint(1, 10)
        edges = []
        for _ in range(m):
            if edges and rng.random() < 0.12:
                edges.append(list(rng.choice(edges)))
            else:
                edges.append(rng.sample(range(n), k))
        if rng.random() < 0.5:  # cover every node
            for v in range(n):
                if not any(v in e for e in edges) and len(edges) < 10:
                    edges.append([v] + rng.sample([u for u in range(n) if u != v], k - 1))
    elif flavour == "simplicial":
        n = rng.randint(3, 8)
        edges = []
        for _ in range(rng.randint(1, 3)):
            facet = rng.sample(range(n), min(n, rng.randint(3, 5)))
            edges.append(facet)
            for _ in range(rng.randint(0, 5)):
                edges.append(rng.sample(facet, rng.randint(1, len(facet) - 1)))
        rng.shuffle(edges)
        edges = edges[:10]
    elif flavour == "graph":
        n = rng.randint(2, 8)
        edges = [rng.sample(range(n), 2) for _ in range(rng.randint(1, 9))]
        if rng.random() < 0.5:
            edges.append(rng.sample(range(n), min(n, 3)))
    else:
        n = rng.randint(2, 8) if rng.random() > 0.04 else 1
        m = rng.randint(1, 10) if rng.random() > 0.04 else 0
        edges = []
        for _ in range(m):
            edges.append(_rand_edge(rng, n, edges))
        if flavour == "covered":
            for v in range(n):
                if not any(v in e for e in edges):
                    if edges and (len(edges) >= 10 or rng.random() < 0.5):
                        tgt = rng.choice([e for e in edges if len(e) < 5] or edges)
                        if len(tgt) < 5:
                            tgt.append(v)
                        else:
                            tgt[rng.randrange(5)] = v
                    else:
                        edges.append([v])
    attrs = []
    weighted = rng.random() < 0.6
    for _ in edges:
        attrs.append({W: rng.choice((0.5, 2, 3, 1.5, 0.25, 1))} if weighted and rng.random() < 0.7 else {})
    return flavour, n, edges, attrs


# ---------------------------------------------------------------------------------
# transformations
# ---------------------------------------------------------------------------------
class Transform:
    """nu / eps: base label -> new label.  node_seq + slots: explicit add_node calls (slot s = before the
    s-th add_edge call, s == m: after the last); nodes already present are not added again.
    edge_seq: order of the add_edge calls; member_seqs[e]: order of the members handed to add_edge."""

    def __init__(self, n, edges):
        self.n, self.m = n, len(edges)
        self.nu = {v: v for v in range(n)}
        self.eps = {e: e for e in range(self.m)}
        self.nkind = self.ekind = "id"
        self.node_seq = list(range(n))
        self.slots = [0] * n
        self.edge_seq = list(range(self.m))
        self.member_seqs = [list(e) for e in edges]
        self.base_members = [list(e) for e in edges]

    def active(self):
        a = []
        if self.nkind != "id":
            a.append("node-labels")
        if self.ekind != "id":
            a.append("edge-ids")
        if self.node_seq != list(range(self.n)) or any(self.slots):
            a.append("node-order")
        if self.edge_seq != list(range(self.m)):
            a.append("edge-order")
        if self.member_seqs != self.base_members:
            a.append("member-order")
        return a

    def restrict(self, aspects):
        """The same transformation with every aspect not in `aspects` reset to the identity."""
        t = Transform(self.n, self.base_members)
        if "node-labels" in aspects:
            t.nu, t.nkind = self.nu, self.nkind
        if "edge-ids" in aspects:
            t.eps, t.ekind = self.eps, self.ekind
        if "node-order" in aspects:
            t.node_seq, t.slots = self.node_seq, self.slots
        if "edge-order" in aspects:
            t.edge_seq = self.edge_seq
        if "member-order" in aspects:
            t.member_seqs = self.member_seqs
        return t

    def tag(self, aspect):
        if aspect == "node-labels":
            return "node-labels-" + KIND_TAG[self.nkind]
        if aspect == "edge-ids":
            return "edge-ids-" + KIND_TAG[self.ekind]
        return aspect

    def describe(self):
        return (
            f"nu={self.nu} eps={self.eps} node_seq={self.node_seq} slots={self.slots} "
            f"edge_seq={self.edge_seq} member_seqs={self.member_seqs}"
        )


def _bijection(rng, k, kind, role):
    ident = list(range(k))
    if kind == "perm":
        img = ident[:]
        while img == ident:
            rng.shuffle(img)
    elif kind == "mixed":  # some labels ints, some strings (at least one of each when k >= 2)
        ints = rng.sample(range(-5, 40), k)
        strs = rng.sample(NODE_STR if role == "node" else EDGE_STR, k)
        n_str = rng.randint(1, k - 1) if k >= 2 else rng.randint(0, 1)
        which = set(rng.sample(ident, n_str))
        img = [strs[i] if i in which else ints[i] for i in ident]
        if k >= 2 and rng.random() < 0.65:
            # look-alikes: unequal labels with the same str(): an int k and the string str(k) are both labels
            # ('a' / 'a ' and (1, 2) / '(1, 2)' likewise) - anything keyed by str(label) or repr(label) merges them
            si = sorted(which)
            ii = [i for i in ident if i not in which]
            rng.shuffle(si)
            rng.shuffle(ii)
            for a, b in list(zip(si, ii))[: rng.randint(1, 3)]:
                img[a] = str(img[b])
            left = [i for i in si if img[i] in strs]
            if len(left) >= 2 and rng.random() < 0.4:
                img[left[1]] = img[left[0]] + " "
            if len(ii) >= 2 and len(si) >= 2 and rng.random() < 0.3:
                img[ii[-1]] = (rng.randint(0, 3), rng.randint(0, 3))
                img[si[-1]] = str(img[ii[-1]])
        if len(set(img)) < k or (all(isinstance(v, int) for v in img) and img == ident):
            img = [strs[i] if i in which else ints[i] for i in ident]
            if img == ident:
                img[0] = 41
    else:
        img = ident
        while img == ident:
            img = rng.sample(_pool(kind, role, rng), k)
    return dict(zip(ident, img))


def relabel_nodes(rng, t, kind=None):
    kind = kind or rng.choice(NODE_KINDS)
    if kind == "perm" and t.n < 2:
        kind = "gap"
    t.nkind = kind
    t.nu = _bijection(rng, t.n, kind, "node")


def relabel_edges(rng, t, kind=None):
    if t.m == 0:
        return
    kind = kind or rng.choice(EDGE_KINDS)
    if kind == "perm" and t.m < 2:
        kind = "gap"
    t.ekind = kind
    t.eps = _bijection(rng, t.m, kind, "edge")


def shuffle_nodes(rng, t):
    rng.shuffle(t.node_seq)
    if rng.random() < 0.6:
        t.slots = [rng.randint(0, t.m) for _ in range(t.n)]


def shuffle_edges(rng, t):
    rng.shuffle(t.edge_seq)


def shuffle_members(rng, t):
    t.member_seqs = [rng.sample(e, len(e)) for e in t.base_members]


def gen_transform(rng, kind, idx, n, edges):
    t = Transform(n, edges)
    if kind == "combined":
        relabel_nodes(rng, t, NODE_KINDS[idx % len(NODE_KINDS)])
        relabel_edges(rng, t, EDGE_KINDS[(idx // len(NODE_KINDS) + idx) % len(EDGE_KINDS)])
        shuffle_nodes(rng, t)
        shuffle_edges(rng, t)
        shuffle_members(rng, t)
    elif kind == "node-labels":
        relabel_nodes(rng, t, NODE_KINDS[idx % len(NODE_KINDS)])
    elif kind == "edge-ids":
        relabel_edges(rng, t, EDGE_KINDS[idx % len(EDGE_KINDS)])
    else:
        which = idx % 4
        if which in (0, 3):
            shuffle_nodes(rng, t)
        if which in (1, 3):
            shuffle_edges(rng, t)
        if which in (2, 3):
            shuffle_members(rng, t)
    return t


# ---------------------------------------------------------------------------------
# construction through the public API
# ---------------------------------------------------------------------------------
def build_base(n, edges, attrs):
    H = xgi.Hypergraph()
    for v in range(n):
        H.add_node(v)
    for e, a in zip(edges, attrs):
        H.add_edge(list(e), **a)  # automatic IDs 0..m-1
    return H


def events(t, attrs):
    byslot = defaultdict(list)
    for v, s in zip(t.node_seq, t.slots):
        byslot[s].append(v)
    ev = []
    for pos, e in enumerate(t.edge_seq):
        ev += [("node", fresh(t.nu[v])) for v in byslot[pos]]
        ev.append(("edge", fresh(t.eps[e]), [fresh(t.nu[v]) for v in t.member_seqs[e]], attrs[e]))
    ev += [("node", fresh(t.nu[v])) for v in byslot[t.m]]
    return ev


def build(t, attrs):
    H = xgi.Hypergraph()
    for ev in events(t, attrs):
        if ev[0] == "node":
            if ev[1] not in H.nodes:
                H.add_node(ev[1])
        else:
            H.add_edge(ev[2], idx=ev[1], **ev[3])
    return H


def is_image(H2, t):
    """H2 really is the image of the base under (nu, eps): a construction check, not the property."""
    want = {t.eps[e]: {t.nu[v] for v in ms} for e, ms in enumerate(t.base_members)}
    return (
        snap.inv(H2) == []
        and set(H2.nodes) == set(t.nu.values())
        and H2.edges.members(dtype=dict) == want
        and len(H2.nodes) == t.n
        and len(H2.edges) == t.m
    )


# ---------------------------------------------------------------------------------
# canonical forms (results expressed in base labels)
# ---------------------------------------------------------------------------------
def c_val(p, N, E):
    return p


def c_ndict(p, N, E):
    return {N(k): v for k, v in p.items()}


def c_edict(p, N, E):
    return {E(k): v for k, v in p.items()}


def c_nndict(p, N, E):
    return {N(k): {N(j): v for j, v in d.items()} for k, d in p.items()}


def c_nsets(p, N, E):
    p = list(p)
    return [len(p), frozenset(frozenset(N(x) for x in s) for s in p)]


def c_nset(p, N, E):
    return frozenset(N(x) for x in p)


def c_eset(p, N, E):
    p = list(p)
    return [len(p), frozenset(E(x) for x in p)]


def c_ndict_nset(p, N, E):
    return {N(k): frozenset(N(x) for x in s) for k, s in p.items()}


def c_ndict_nsetbag(p, N, E):
    return {N(k): dict(Counter(frozenset(N(x) for x in s) for s in ss)) for k, ss in p.items()}


def c_nsetcount(p, N, E):
    return {frozenset(N(x) for x in s): c for s, c in p.items()}


def c_subnet(p, N, E):
    k, ns, mem = p
    if ns is None:
        return [k, None, None]
    return [k, frozenset(N(x) for x in ns), {E(e): frozenset(N(x) for x in m) for e, m in mem.items()}]


def c_nd_ed(p, N, E):
    return [c_ndict(p[0], N, E), c_edict(p[1], N, E)]


def c_tensor(p, N, E):
    B, rows = p
    lab = [N(r) for r in rows]
    return [list(B.shape), {tuple(lab[i] for i in ix): B[ix].item() for ix in np.ndindex(*B.shape)}]


def _c_matrix(rowmap, colmap):
    def canon(p, N, E):
        M, rows, cols = p
        rm = {"n": N, "e": E}[rowmap]
        if M.ndim == 1:
            return [list(M.shape), {rm(r): M[i].item() for i, r in enumerate(rows)}]
        cm = {"n": N, "e": E}[colmap]
        return [list(M.shape), {(rm(r), cm(c)): M[i, j].item() for i, r in enumerate(rows) for j, c in enumerate(cols)}]

    return canon


c_mat_ne = _c_matrix("n", "e")
c_mat_nn = _c_matrix("n", "n")
c_mat_ee = _c_matrix("e", "e")
c_vec_n = _c_matrix("n", None)


def plain(x):
    if isinstance(x, np.generic):
        return x.item()
    if isinstance(x, np.ndarray):
        return [plain(v) for v in x.tolist()]
    if isinstance(x, dict):
        return {k: plain(v) for k, v in x.items()}
    if isinstance(x, (list, tuple)):
        return [plain(v) for v in x]
    if isinstance(x, (set, frozenset)):
        return frozenset(x)
    return x


def _num(x):
    return isinstance(x, (int, float)) and not isinstance(x, bool)


# (measure, "node" | "edge", label kind) combinations the unchanged tree does not support (determined empirically, see ASSUMPTIONS):
# the Trie behind every simpliciality measure sorts the members of an edge, so unorderable (mixed int / str) node labels raise TypeError
UNSUPPORTED = {
    (m, "node", "mixed")
    for m in ("edit_simpliciality", "simplicial_edit_distance", "face_edit_simpliciality", "mean_face_edit_distance", "simplicial_fraction",
              "local_simplicial_fraction", "local_edit_simpliciality", "local_face_edit_simpliciality")
}
TOL = {"node_edge_centrality": 1e-6}  # fixed-point iteration stopped at tol=1e-6


def diff(a, b, path="result", REL=REL):
    """None when equal (numbers up to REL), else a short description of the first difference."""
    if _num(a) and _num(b):
        if a == b:
            return None
        if isinstance(a, float) and isinstance(b, float) and math.isnan(a) and math.isnan(b):
            return None
        if math.isnan(a) or math.isnan(b) or math.isinf(a) or math.isinf(b):
            return f"{path}: {a!r} != {b!r}"
        if abs(a - b) <= REL * max(1.0, abs(a), abs(b)):
            return None
        return f"{path}: {a!r} != {b!r}"
    if isinstance(a, dict) and isinstance(b, dict):
        if set(a) != set(b):
            return f"{path}: key sets differ: only-base={sorted(set(a) - set(b), key=repr)[:4]} only-relabelled={sorted(set(b) - set(a), key=repr)[:4]}"
        for k in a:
            d = diff(a[k], b[k], f"{path}[{k!r}]", REL)
            if d:
                return d
        return None
    if isinstance(a, list) and isinstance(b, list):
        if len(a) != len(b):
            return f"{path}: lengths {len(a)} != {len(b)}"
        for i, (x, y) in enumerate(zip(a, b)):
            d = diff(x, y, f"{path}[{i}]", REL)
            if d:
                return d
        return None
    if type(a) is not type(b) or a != b:
        return f"{path}: {a!r} != {b!r}"
    return None


# ---------------------------------------------------------------------------------
# the catalogue of measures
# ---------------------------------------------------------------------------------
MEASURES = (
    "degree", "degree-stats", "size", "order", "size-stats", "degree_counts", "degree_histogram", "unique_edge_sizes", "is_uniform",
    "max_edge_order", "num_edges_order", "edge_neighborhood", "average_neighbor_degree", "clustering_coefficient",
    "local_clustering_coefficient", "two_node_clustering_coefficient", "connected_components", "number_connected_components",
    "is_connected", "largest_connected_component", "node_connected_component", "shortest_path_length",
    "single_source_shortest_path_length", "density", "incidence_density", "degree_assortativity", "dynamical_assortativity",
    "edit_simpliciality", "simplicial_edit_distance", "face_edit_simpliciality", "mean_face_edit_distance", "simplicial_fraction",
    "local_simplicial_fraction", "local_edit_simpliciality", "local_face_edit_simpliciality", "maximal", "duplicates",
    "katz_centrality", "node_edge_centrality", "is_possible_order", "largest_connected_hypergraph", "adjacency_tensor", "incidence_matrix", "adjacency_matrix", "degree_matrix", "intersection_profile", "clique_motif_matrix",
    "laplacian", "multiorder_laplacian", "normalized_hypergraph_laplacian",
)
# measures that legitimately reject many inputs: require that enough *values* were compared
VALUE_FLOOR = ("dynamical_assortativity", "degree_assortativity", "normalized_hypergraph_laplacian", "katz_centrality",
               "local_clustering_coefficient", "simplicial_edit_distance", "laplacian", "multiorder_laplacian")

_AGG = ("max", "min", "sum", "mean", "median", "std", "var", "mode")


def _labels(mon, idx, size, fallback, nonzero):
    if len(idx) == size and all(i in idx for i in range(size)):
        return [idx[i] for i in range(size)]
    mon.note("index-map-incomplete:nonzero-matrix" if nonzero else "index-map-incomplete:zero-matrix")
    if len(fallback) == size:
        return list(fallback)
    return [("#", i) for i in range(size)]


def _dense(M):
    return M.toarray() if hasattr(M, "toarray") else np.asarray(M)


def catalogue(mon, H, fN, fE, par):
    """List of (measure, call label, thunk, canon).  fN / fE: base label -> label in H (for arguments).
    `par`: per-case parameter choices (identical for both executions)."""
    C = []
    add = lambda m, label, thunk, canon=c_val: C.append((m, label, thunk, canon))  # noqa: E731
    nodes = lambda: list(H.nodes)  # noqa: E731

    def mat(res, rk, ck):
        M = _dense(res[0])
        nz = bool(np.any(M != 0))
        if M.ndim == 1:
            return (M, _labels(mon, res[1], M.shape[0], nodes(), nz), None)
        rows = _labels(mon, res[1], M.shape[0], nodes() if rk == "n" else list(H.edges), nz)
        cidx = res[2] if len(res) > 2 else res[1]
        cols = _labels(mon, cidx, M.shape[1], nodes() if ck == "n" else list(H.edges), nz)
        return (M, rows, cols)

    def tensor(res):
        B = np.asarray(res[0])
        return (B, _labels(mon, res[1], B.shape[0] if B.ndim else 0, nodes(), bool(np.any(B != 0))))

    # -- degree / size statistics -------------------------------------------------
    add("degree", "H.nodes.degree.asdict()", lambda: H.nodes.degree.asdict(), c_ndict)
    add("degree", "H.degree()", lambda: H.degree(), c_ndict)
    for k in par["orders"]:
        add("degree", f"H.nodes.degree(order={k}).asdict()", lambda k=k: H.nodes.degree(order=k).asdict(), c_ndict)
        add("degree", f"H.nodes.degree(order={k}, weight='weight').asdict()", lambda k=k: H.nodes.degree(order=k, weight=W).asdict(), c_ndict)
    add("degree", "H.nodes.degree(weight='weight').asdict()", lambda: H.nodes.degree(weight=W).asdict(), c_ndict)
    add("degree", "H.degree(weight='weight')", lambda: H.degree(weight=W), c_ndict)
    for st in _AGG:
        add("degree-stats", f"H.nodes.degree.{st}()", lambda st=st: getattr(H.nodes.degree, st)())
        add("size-stats", f"H.edges.size.{st}()", lambda st=st: getattr(H.edges.size, st)())
    add("degree-stats", "H.nodes.degree.moment(2)", lambda: H.nodes.degree.moment(2))
    add("degree-stats", "H.nodes.degree.moment(3, center=True)", lambda: H.nodes.degree.moment(3, center=True))
    add("degree-stats", "H.nodes.degree.unique()", lambda: H.nodes.degree.unique())
    add("degree-stats", "H.nodes.degree(weight='weight').mean()", lambda: H.nodes.degree(weight=W).mean())
    add("size-stats", "H.edges.size.moment(2)", lambda: H.edges.size.moment(2))
    add("size-stats", "H.edges.order.unique()", lambda: H.edges.order.unique())
    add("size", "H.edges.size.asdict()", lambda: H.edges.size.asdict(), c_edict)
    add("order", "H.edges.order.asdict()", lambda: H.edges.order.asdict(), c_edict)
    for d in par["degs"]:
        add("size", f"H.edges.size(degree={d}).asdict()", lambda d=d: H.edges.size(degree=d).asdict(), c_edict)
        add("order", f"H.edges.order(degree={d}).asdict()", lambda d=d: H.edges.order(degree=d).asdict(), c_edict)
    add("degree_counts", "xgi.degree_counts(H)", lambda: xgi.degree_counts(H))
    for k in par["orders"][:2]:
        add("degree_counts", f"xgi.degree_counts(H, order={k})", lambda k=k: xgi.degree_counts(H, order=k))
        add("num_edges_order", f"xgi.num_edges_order(H, {k})", lambda k=k: xgi.num_edges_order(H, k))
    add("degree_histogram", "xgi.degree_histogram(H)", lambda: xgi.degree_histogram(H))
    add("unique_edge_sizes", "xgi.unique_edge_sizes(H)", lambda: xgi.unique_edge_sizes(H))
    add("is_uniform", "xgi.is_uniform(H)", lambda: xgi.is_uniform(H))
    add("max_edge_order", "xgi.max_edge_order(H)", lambda: xgi.max_edge_order(H))
    for k in par["orders"]:
        add("is_possible_order", f"xgi.is_possible_order(H, {k})", lambda k=k: xgi.is_possible_order(H, k))
    add("is_possible_order", "xgi.is_possible_order(H, -1)", lambda: xgi.is_possible_order(H, -1))
    add("edge_neighborhood", "{n: xgi.edge_neighborhood(H, n) for n in H.nodes}",
        lambda: {n: xgi.edge_neighborhood(H, n) for n in H.nodes}, c_ndict_nsetbag)
    add("edge_neighborhood", "{n: xgi.edge_neighborhood(H, <equal label>) for n in nodes}",
        lambda: {n: xgi.edge_neighborhood(H, fresh(n)) for n in fN.values()}, c_ndict_nsetbag)
    add("edge_neighborhood", "{n: xgi.edge_neighborhood(H, n, include_self=True) for n in H.nodes}",
        lambda: {n: xgi.edge_neighborhood(H, n, include_self=True) for n in H.nodes}, c_ndict_nsetbag)

    # -- neighbour averages, clustering --------------------------------------------
    add("average_neighbor_degree", "H.nodes.average_neighbor_degree.asdict()", lambda: H.nodes.average_neighbor_degree.asdict(), c_ndict)
    add("clustering_coefficient", "xgi.clustering_coefficient(H)", lambda: xgi.clustering_coefficient(H), c_ndict)
    add("clustering_coefficient", "H.nodes.clustering_coefficient.asdict()", lambda: H.nodes.clustering_coefficient.asdict(), c_ndict)
    add("local_clustering_coefficient", "xgi.local_clustering_coefficient(H)", lambda: xgi.local_clustering_coefficient(H), c_ndict)
    add("local_clustering_coefficient", "H.nodes.local_clustering_coefficient.asdict()", lambda: H.nodes.local_clustering_coefficient.asdict(), c_ndict)
    for kd in ("union", "min", "max"):
        add("two_node_clustering_coefficient", f"xgi.two_node_clustering_coefficient(H, kind={kd!r})",
            lambda kd=kd: xgi.two_node_clustering_coefficient(H, kind=kd), c_ndict)
    add("two_node_clustering_coefficient", f"H.nodes.two_node_clustering_coefficient(kind={par['kind']!r}).asdict()",
        lambda: H.nodes.two_node_clustering_coefficient(kind=par["kind"]).asdict(), c_ndict)

    # -- components, paths -------------------------------------------------------------
    add("connected_components", "list(xgi.connected_components(H))", lambda: list(xgi.connected_components(H)), c_nsets)
    add("number_connected_components", "xgi.number_connected_components(H)", lambda: xgi.number_connected_components(H))
    add("is_connected", "xgi.is_connected(H)", lambda: xgi.is_connected(H))
    add("largest_connected_component", "len(xgi.largest_connected_component(H))", lambda: len(xgi.largest_connected_component(H)))
    add("node_connected_component", "{n: xgi.node_connected_component(H, n) for n in H.nodes}",
        lambda: {n: xgi.node_connected_component(H, n) for n in H.nodes}, c_ndict_nset)
    add("node_connected_component", "{n: xgi.node_connected_component(H, <equal label>) for n in nodes}",
        lambda: {n: xgi.node_connected_component(H, fresh(n)) for n in fN.values()}, c_ndict_nset)

    def lch():
        sizes = sorted(len(c) for c in xgi.connected_components(H))
        G = xgi.largest_connected_hypergraph(H)
        if len(sizes) > 1 and sizes[-1] == sizes[-2]:  # tie: which component is kept depends on order
            return (G.num_nodes, None, None)
        return (G.num_nodes, set(G.nodes), G.edges.members(dtype=dict))

    add("largest_connected_hypergraph", "xgi.largest_connected_hypergraph(H)  [nodes, members; size only on a tie]", lch, c_subnet)
    add("shortest_path_length", "dict(xgi.shortest_path_length(H))", lambda: dict(xgi.shortest_path_length(H)), c_nndict)
    src = par["source"]
    add("single_source_shortest_path_length", f"xgi.single_source_shortest_path_length(H, <image of node {src}>)",
        lambda: xgi.single_source_shortest_path_length(H, fresh(fN[src])), c_ndict)

    # -- densities ---------------------------------------------------------------------
    for fn in ("density", "incidence_density"):
        f = getattr(xgi, fn)
        for kw in par["density_kw"]:
            lab = ", ".join(f"{k}={v}" for k, v in kw.items())
            add(fn, f"xgi.{fn}(H{', ' if lab else ''}{lab})", lambda f=f, kw=kw: f(H, **kw))

    # -- assortativity -----------------------------------------------------------------
    for kd in ("uniform", "top-2", "top-bottom"):
        add("degree_assortativity", f"xgi.degree_assortativity(H, kind={kd!r}, exact=True)",
            lambda kd=kd: xgi.degree_assortativity(H, kind=kd, exact=True))
    add("dynamical_assortativity", "xgi.dynamical_assortativity(H)", lambda: xgi.dynamical_assortativity(H))

    # -- simpliciality -----------------------------------------------------------------
    for fn in ("edit_simpliciality", "simplicial_edit_distance", "face_edit_simpliciality", "mean_face_edit_distance", "simplicial_fraction"):
        f = getattr(xgi, fn)
        for ms, ex in par["simp"]:
            add(fn, f"xgi.{fn}(H, min_size={ms}, exclude_min_size={ex})", lambda f=f, ms=ms, ex=ex: f(H, min_size=ms, exclude_min_size=ex))
        if fn in ("simplicial_edit_distance", "mean_face_edit_distance"):
            ms, ex = par["simp"][0]
            add(fn, f"xgi.{fn}(H, min_size={ms}, exclude_min_size={ex}, normalize=False)",
                lambda f=f, ms=ms, ex=ex: f(H, min_size=ms, exclude_min_size=ex, normalize=False))
    for fn in ("local_simplicial_fraction", "local_edit_simpliciality", "local_face_edit_simpliciality"):
        add(fn, f"H.nodes.{fn}.asdict()", lambda fn=fn: getattr(H.nodes, fn).asdict(), c_ndict)

    # -- maximal / duplicate edges -------------------------------------------------------
    add("maximal", "H.edges.maximal()", lambda: H.edges.maximal(), c_eset)
    add("maximal", "H.edges.maximal(strict=True)", lambda: H.edges.maximal(strict=True), c_eset)

    def dup_classes():
        mem = H.edges.members(dtype=dict)
        return dict(Counter(frozenset(mem[e]) for e in H.edges.duplicates()))

    add("duplicates", "Counter(members of e for e in H.edges.duplicates())", dup_classes, c_nsetcount)

    # -- Katz ------------------------------------------------------------------------------
    add("katz_centrality", "xgi.katz_centrality(H)", lambda: xgi.katz_centrality(H), c_ndict)
    add("katz_centrality", f"xgi.katz_centrality(H, cutoff={par['cutoff']})", lambda: xgi.katz_centrality(H, cutoff=par["cutoff"]), c_ndict)
    add("katz_centrality", "H.nodes.katz_centrality.asdict()", lambda: H.nodes.katz_centrality.asdict(), c_ndict)

    add("node_edge_centrality", "xgi.node_edge_centrality(H)", lambda: xgi.node_edge_centrality(H), c_nd_ed)
    add("node_edge_centrality", "H.nodes.node_edge_centrality.asdict()", lambda: H.nodes.node_edge_centrality.asdict(), c_ndict)

    # -- matrices ----------------------------------------------------------------------------
    for o, nm in par["tensor"]:
        add("adjacency_tensor", f"xgi.adjacency_tensor(H, {o}, normalized={nm}, index=True)",
            lambda o=o, nm=nm: tensor(xgi.adjacency_tensor(H, o, normalized=nm, index=True)), c_tensor)
    for o, sp in par["inc"]:
        add("incidence_matrix", f"xgi.incidence_matrix(H, order={o}, sparse={sp}, index=True)",
            lambda o=o, sp=sp: mat(xgi.incidence_matrix(H, order=o, sparse=sp, index=True), "n", "e"), c_mat_ne)
    wf = lambda node, edge, G: len(G.nodes.memberships(node)) * 10 + len(G.edges.members(edge))  # noqa: E731
    add("incidence_matrix", "xgi.incidence_matrix(H, index=True, weight=lambda n, e, H: 10 * degree(n) + size(e))",
        lambda: mat(xgi.incidence_matrix(H, index=True, weight=wf), "n", "e"), c_mat_ne)
    for o, s, w, sp in par["adj"]:
        add("adjacency_matrix", f"xgi.adjacency_matrix(H, order={o}, s={s}, weighted={w}, sparse={sp}, index=True)",
            lambda o=o, s=s, w=w, sp=sp: mat(xgi.adjacency_matrix(H, order=o, s=s, weighted=w, sparse=sp, index=True), "n", "n"), c_mat_nn)
    for o in par["degm"]:
        add("degree_matrix", f"xgi.degree_matrix(H, order={o}, index=True)", lambda o=o: mat(xgi.degree_matrix(H, order=o, index=True), "n", None), c_vec_n)
    for o, sp in par["prof"]:
        add("intersection_profile", f"xgi.intersection_profile(H, order={o}, sparse={sp}, index=True)",
            lambda o=o, sp=sp: mat(xgi.intersection_profile(H, order=o, sparse=sp, index=True), "e", "e"), c_mat_ee)
    for sp in (True, False):
        add("clique_motif_matrix", f"xgi.clique_motif_matrix(H, sparse={sp}, index=True)",
            lambda sp=sp: mat(xgi.clique_motif_matrix(H, sparse=sp, index=True), "n", "n"), c_mat_nn)
    for o, sp, rs in par["lap"]:
        add("laplacian", f"xgi.laplacian(H, order={o}, sparse={sp}, rescale_per_node={rs}, index=True)",
            lambda o=o, sp=sp, rs=rs: mat(xgi.laplacian(H, order=o, sparse=sp, rescale_per_node=rs, index=True), "n", "n"), c_mat_nn)
    for (os_, ws), sp, rs in par["mlap"]:
        add("multiorder_laplacian", f"xgi.multiorder_laplacian(H, {os_}, {ws}, sparse={sp}, rescale_per_node={rs}, index=True)",
            lambda os_=os_, ws=ws, sp=sp, rs=rs: mat(xgi.multiorder_laplacian(H, os_, ws, sparse=sp, rescale_per_node=rs, index=True), "n", "n"), c_mat_nn)
    for w, sp in ((False, True), (True, True), (False, False), (True, False)):
        add("normalized_hypergraph_laplacian", f"xgi.normalized_hypergraph_laplacian(H, weighted={w}, sparse={sp}, index=True)",
            lambda w=w, sp=sp: mat(xgi.normalized_hypergraph_laplacian(H, weighted=w, sparse=sp, index=True), "n", "n"), c_mat_nn)
    return C


_DENSITY_KW = (
    [{}, {"ignore_singletons": True}]
    + [{"order": k, "ignore_singletons": i} for k in range(5) for i in (False, True)]
    + [{"max_order": k, "ignore_singletons": i} for k in range(5) for i in (False, True)]
)
_ADJ = [(o, s, w, sp) for o in (None, 1, 2, 3) for s in (1, 2, 3) for w in (False, True) for sp in (True, False)]
_INC = [(o, sp) for o in (None, 0, 1, 2, 3, 4) for sp in (True, False)]
_LAP = [(o, sp, rs) for o in (1, 2, 3) for sp in (False, True) for rs in (False, True)]
_MSETS = (([1], [1]), ([1, 2], [1, 0.5]), ([1, 2, 3], [0.5, 1, 2]), ([2, 1], [3, 1]))
_MLAP = [(ow, sp, rs) for ow in _MSETS for sp in (False, True) for rs in (False, True)]
_PROF = [(o, sp) for o in (None, 1, 2) for sp in (True, False)]
_SIMP = [(ms, ex) for ms in (1, 2, 3) for ex in (True, False)]


def gen_params(rng, n):
    """Parameter choices of one case: the defaults always, plus a seeded subset of the grids (the whole grid is
    covered over a tier; keeping it per case would only make cases slower, not more diverse)."""
    return {
        "orders": sorted(rng.sample(range(5), 3)),
        "degs": sorted(rng.sample(range(1, 5), 2)),
        "kind": rng.choice(("union", "min", "max")),
        "source": rng.randrange(n),
        "density_kw": _DENSITY_KW[:2] + rng.sample(_DENSITY_KW[2:], 6),
        "simp": [(2, True)] + rng.sample(_SIMP, 2),
        "cutoff": rng.choice((1, 2, 5, 20)),
        "inc": [(None, True)] + rng.sample(_INC, 3),
        "adj": [(None, 1, False, True)] + rng.sample(_ADJ, 6),
        "degm": [None] + rng.sample(range(4), 2),
        "prof": rng.sample(_PROF, 2),
        "lap": [(1, False, False)] + rng.sample(_LAP, 3),
        "mlap": rng.sample(_MLAP, 3),
        "tensor": rng.sample([(1, True), (1, False), (2, True), (2, False), (3, True)], 2),
    }


# ---------------------------------------------------------------------------------
# execution and comparison
# ---------------------------------------------------------------------------------
def evaluate(entry, N, E):
    """-> ("value", canonical) | ("raised", type name, message)"""
    _, _, thunk, canon = entry
    try:
        return ("value", plain(canon(thunk(), N, E)))
    except Exception as exc:  # every outcome of the call is an observation
        return ("raised", type(exc).__name__, str(exc)[:160])


def mismatch(a, b, m=None):
    """-> (clause, description) or None"""
    if a[0] == "value" and b[0] == "value":
        d = diff(a[1], b[1], REL=TOL.get(m, REL))
        return ("value-differs", d) if d else None
    if a[0] == "raised" and b[0] == "raised":
        if a[1] == b[1]:
            return None
        return ("exception-differs", f"base raised {a[1]}({a[2]}), relabelled raised {b[1]}({b[2]})")
    if a[0] == "raised":
        return ("one-sided-exception", f"base raised {a[1]}({a[2]}), relabelled returned a value")
    return ("one-sided-exception", f"base returned a value, relabelled raised {b[1]}({b[2]})")


def inverse_maps(t):
    ninv = {v: k for k, v in t.nu.items()}
    einv = {v: k for k, v in t.eps.items()}
    return (lambda x: ninv.get(x, ("?node", x))), (lambda x: einv.get(x, ("?edge", x)))


def run_variant(mon, t, attrs, par, labels=None):
    """Build the image of the base under t and evaluate the catalogue (or only the calls in `labels`)."""
    H2 = build(t, attrs)
    if not is_image(H2, t):
        return None
    N, E = inverse_maps(t)
    out = {}
    for entry in catalogue(mon, H2, t.nu, t.eps, par):
        if labels is None or entry[1] in labels:
            out[entry[1]] = evaluate(entry, N, E)
    return out


def run_case(mon, kind, idx, rng):
    if kind == "sequence":
        return _sequence_case(mon, idx, rng)
    flavour, n, edges, attrs = gen_base(rng)
    par = gen_params(rng, n)
    t = gen_transform(rng, kind, idx, n, edges)
    active = t.active()
    H = build_base(n, edges, attrs)
    ident = Transform(n, edges)
    if not is_image(H, ident):
        mon.note("discarded:invalid-base")
        return
    N0, E0 = inverse_maps(ident)
    cat = catalogue(mon, H, ident.nu, ident.eps, par)
    base = {entry[1]: evaluate(entry, N0, E0) for entry in cat}
    got = run_variant(mon, t, attrs, par)
    if got is None:
        mon.note("discarded:invalid-image")
        return
    mon.note("cases-compared")
    mon.note(f"flavour:{flavour}")
    if t.nkind != "id":
        mon.note(f"nkind:{t.nkind}")
    if t.ekind != "id":
        mon.note(f"ekind:{t.ekind}")
    for a in active:
        mon.note(f"aspect:{a}")
    if edges and active:
        mon.nontrivial((edges, attrs, t.describe()))
    mon.sample(f"{flavour}: n={n} edges={edges} | {kind}: {t.describe()}")

    memo = {}  # (kept aspects, label) -> result on that restricted variant (only built after a mismatch)

    def on_variant(keep, label):
        k = (tuple(keep), label)
        if k not in memo:
            r = run_variant(mon, t.restrict(keep), attrs, par, labels={label})
            memo[k] = None if r is None else r[label]
            mon.ev()
        return memo[k]

    def attribute(m, label, a, b, clause, desc):
        """Which aspect of the transformation is responsible?  -> (tag, clause, desc, transformation, result).
        1. the first aspect (fixed priority) that reproduces a mismatch when applied alone;
        2. else the first aspect whose removal from the applied transformation makes the mismatch disappear;
        3. else 'combined'."""
        if len(active) == 1:
            return t.tag(active[0]), clause, desc, t, b
        for asp in active:
            r = on_variant([asp], label)
            mm1 = mismatch(a, r, m) if r is not None else None
            if mm1 is not None:
                return t.tag(asp), mm1[0], mm1[1], t.restrict([asp]), r
        for asp in active:
            r = on_variant([x for x in active if x != asp], label)
            if r is not None and mismatch(a, r, m) is None:
                return t.tag(asp), clause, desc, t, b
        return "combined", clause, desc, t, b

    fired = set()
    for m, label, _, _ in cat:
        if (m, "node", t.nkind) in UNSUPPORTED or (m, "edge", t.ekind) in UNSUPPORTED:
            mon.note(f"skipped-unsupported:{m}")
            continue
        a, b = base[label], got[label]
        mon.ev()
        mon.note(f"cmp:{m}")
        if a[0] == "value" and b[0] == "value":
            mon.note(f"value:{m}")
        elif a[0] == "raised" and b[0] == "raised" and a[1] == b[1]:
            mon.note(f"both-raised:{m}")
            mon.note(f"both-raised:{m}:{a[1]}")
        mm = mismatch(a, b, m)
        if mm is None:
            continue
        tag, clause, desc, t_rep, b_rep = attribute(m, label, a, b, *mm)
        key = f"{m}|{tag}|{clause}"
        if key in fired:
            continue
        fired.add(key)
        witness = (
            f"call: {label}\n"
            f"H = xgi.Hypergraph(); [H.add_node(v) for v in range({n})]; "
            f"[H.add_edge(e, **a) for e, a in zip({edges}, {attrs})]\n"
            f"H2 = xgi.Hypergraph(); events (add_node(x) if absent / add_edge(members, idx=id, **attrs)) = {events(t_rep, attrs)}\n"
            f"node map base->H2: {t_rep.nu}\nedge-ID map base->H2: {t_rep.eps}\n"
            f"on H : {_show(a)}\non H2 (mapped back): {_show(b_rep)}"
        )
        mon.fail(key, f"{label}: not invariant under {tag}: {desc}", witness)


def _show(r):
    if r is None:
        return "<not built>"
    if r[0] == "raised":
        return f"raised {r[1]}: {r[2]}"
    s = repr(r[1])
    return s if len(s) < 700 else s[:700] + "..."
