"""C10 - conversions between representations preserve the incidence relation (DESIGN §2 C10).

Round-trip post-condition monitors: a seeded network of one of the three classes is sent through every
applicable converter pair and the network that comes back is compared, clause by clause, with an
observation of the source taken through the public views (xgimon.oracles_c10).  Plus: insertion-order
independence of from_bipartite_graph (the oracle is the network the graph was drawn from), the
class-to-class constructors, and the documented refusal of colliding string casts by to_hypergraph_dict.
"""
import random

import networkx as nx
import numpy as np

from .. import oracles_c10 as O
from ..env import xgi

PID = "C10"
ANCHORS = (
    "xgi/convert/hyperedges.py",
    "xgi/convert/bipartite_edges.py",
    "xgi/convert/incidence.py",
    "xgi/convert/bipartite_graph.py",
    "xgi/convert/pandas.py",
    "xgi/convert/hypergraph_dict.py",
    "xgi/convert/hif_dict.py",
    "xgi/convert/higher_order_network.py",
    "xgi/convert/simplex.py",
)
RULE = (
    "case kinds: roundtrip = one seeded network (class = idx mod 3; <= 7 nodes, <= 7 edges; isolated nodes, empty edges, multi-edges, "
    "explicit/automatic IDs of 7 kinds, node/edge/network attributes) sent through every converter pair applicable to its class "
    "(hyperedge list, hyperedge dict, bipartite edge list, incidence matrix labelled+positional x sparse/dense, bipartite graph, dataframe, "
    "standard dict x casts, HIF dict x casts; complexes also: maximal simplices via from_max_simplices and back through SimplicialComplex(...), hyperedge list with a "
    "non-truncating and a truncating max_order; list/dict readers with create_using omitted / class / fresh instance of the source's class and through the constructors and "
    "to_* functions); graph-order = one bipartite (di)graph drawn from such a network, rebuilt under 5 vertex-insertion "
    "orders x 3 pair orientations (x dual); class = the class-to-class and same-class constructors; collide = to_hypergraph_dict on IDs whose "
    "string casts collide. second-call monitors: every other roundtrip/class case edits the source in place through the public API (ID sets kept where the class "
    "allows) and converts the same object again; 30 % of the from_* calls are repeated on the same representation object after the first result was defaced. "
    "one evaluation = one comparison of a returned network with the source observation. "
    "distinct_nontrivial = distinct (pair, variant, source structure) whose source has at least one incidence"
)
ASSUMPTIONS = [
    "attribute names: identifiers passed as keyword arguments, plus (35 % of the networks) parameter names of the functions involved ('node', 'members', 'idx', 'edge', 'attr', 'self', "
    "'data', 'nodes', 'edges', 'name', 'values'), non-identifiers ('my key', 'a-b', '', '1') and HIF/JSON field names ('attrs', 'incidences', 'network-type', 'metadata', ...) applied only "
    "through set_*_attributes(dict of dicts) / net.nodes[n][k] = v / net[k] = v. Excluded, because the unchanged tree cannot carry them (probed for every name x place x class x representation): "
    "'node'/'self' on an isolated node and 'members'/'idx'/'self' on an empty edge for HIF (from_hif_dict creates those with add_node(n, **attrs) / add_edge(members, idx, **attrs)) - never generated, "
    "and the HIF pair is skipped when an in-place edit produces one; 'node'/'self' on any node for the standard dict (from_hypergraph_dict creates every node with add_node(n, **attrs)) - that pair is skipped and counted",
    "one network never mixes str and non-str node labels (except the collide kind, built edge by edge); no tuple labels; attribute names are identifiers that are not parameter names of add_node/add_edge",
    "inputs failing the C01/C02/C03 structural invariant are discarded and counted (invalid-start-state)",
    "applicability follows the docstrings: incidence matrix, dataframe and standard dict are driven with Hypergraph and SimplicialComplex only; "
    "for DiHypergraph the hyperedge list/dict representation is edges.dimembers() fed to DiHypergraph(...) / from_hyperedge_list|dict(create_using=DiHypergraph)",
    "representations without edge labels are compared position for position in view order; only the standard dict and the HIF dict are required to keep isolated nodes, empty edges and attributes, only HIF the class",
    "networks without any incidence (only isolated nodes / empty edges, or nothing) are inputs like any other: their representation ([], empty frame, 0 x 0 matrix) must convert back to a network with no incidence",
    "an exception raised by either direction of a pair is a violation (clause 'raises'), except the documented XGIError of to_hypergraph_dict when two IDs have the same string cast, which is demanded",
    "to_dihypergraph called without create_using is monitored as its own call site (to_dihypergraph|create_using-omitted); DiHypergraph(list|dict) and from_hyperedge_list|dict(create_using=DiHypergraph) report under the pair",
    "a SimplicialComplex sent through a dataframe back into a SimplicialComplex is compared as a family of member sets (the documented reader assigns new IDs); back into a Hypergraph it is compared under labels",
    "from_max_simplices(S): exactly S's node set, exactly the brute-force maximal member sets as edges (each once), no attribute is demanded (the docstring promises none); the complex "
    "built from it must hold S's simplices again except 0-simplices that are faces of larger simplices (the class generates faces of size >= 2 only, so these cannot come back)",
    "from_hyperedge_list(max_order=k) on the list of a complex: k >= largest order present must change nothing; k below: every listed simplex of size 2..k+1 and nothing else of size >= 2 "
    "(docstring of add_simplices_from: 'creates and adds all its subfaces up to max_order'), listed 0-simplices kept, nothing demanded about further 0-simplices",
    "class-to-class: edge identity is the edge ID when the target is a (Di)Hypergraph, the member set when the target is a SimplicialComplex; edge attributes are required only for source edges with a unique, non-empty member set; no claim that the target has nothing else (C07)",
    "attribute values are compared type-strictly (1, 1.0, True differ); labels by ==/hash",
]
TECHNIQUE = "runtime monitoring: round-trip post-condition monitors against an observation of the source through the public views"
CASE_TIMEOUT = 60

UND = ("Hypergraph", "SimplicialComplex")
AGAIN_TO = "converted-again-after-in-place-mutation"      # to_* on an object that was converted before and edited since (per-object caches)
AGAIN_FROM = "from-called-again-after-first-result-changed"  # from_* on the same representation object after the first result was defaced
ORDERS = ("node-vertices-first", "edge-vertices-first", "interleaved", "shuffled", "incidences-first")
ORIENT = ("node-edge", "edge-node", "mixed")
HOW_DICT = {
    "DiHypergraph": ("from_hyperedge_dict(create_using=DiHypergraph)", "from_hyperedge_dict(create_using=DiHypergraph())", "DiHypergraph(dict)", "to_dihypergraph(dict)"),
    "Hypergraph": ("from_hyperedge_dict", "from_hyperedge_dict(create_using=Hypergraph)", "from_hyperedge_dict(create_using=Hypergraph())", "Hypergraph(dict)", "to_hypergraph(dict)"),
    "SimplicialComplex": ("from_hyperedge_dict", "from_hyperedge_dict(create_using=SimplicialComplex)", "from_hyperedge_dict(create_using=SimplicialComplex())",
                          "SimplicialComplex(dict)", "from_simplex_dict", "from_simplex_dict(create_using=SimplicialComplex)",
                          "from_simplex_dict(create_using=SimplicialComplex())", "to_simplicial_complex(dict)"),
}


def plan(tier):
    if tier == "quick":
        return {"roundtrip": 4800, "graph-order": 2100, "class": 2400, "collide": 300}
    return {"roundtrip": 192000, "graph-order": 84000, "class": 96000, "collide": 4000}


PAIRS = {
    "hyperedge_list": O.CLASSES, "hyperedge_dict": O.CLASSES, "bipartite_edgelist": O.CLASSES, "bipartite_graph": O.CLASSES,
    "hif_dict": O.CLASSES, "incidence_matrix": UND, "dataframe": UND, "hypergraph_dict": UND,
    "max_simplices": ("SimplicialComplex",),
}
C2C = ("Hypergraph(Hypergraph)", "Hypergraph(DiHypergraph)", "Hypergraph(SimplicialComplex)", "SimplicialComplex(Hypergraph)",
       "SimplicialComplex(SimplicialComplex)", "DiHypergraph(DiHypergraph)")


def floors(tier):
    """Quick floors are at most half of what seed 0 shows on a tree without open findings (every seed keeps a margin of about 2 x); thorough = 35 x quick for 40 x the cases."""
    k = 1 if tier == "quick" else 35
    f = {}
    for p, classes in PAIRS.items():
        for c in classes:
            f[f"pair:{p}:{c}"] = 800 * k
    for c in C2C:
        f[f"class:{c}"] = 220 * k
    for o in ORDERS:
        f[f"graph-order:{o}"] = 230 * k
    for v in sorted({v for vs in HOW_DICT.values() for v in vs}):
        f[f"variant:hyperedge_dict:{v}"] = 90 * k
    f.update({
        "graph-order:directed": 560 * k,
        "graph-order:dual": 260 * k,
        "graph-trigger:edge-vertices-inserted-first": 810 * k,
        "graph-trigger:node-vertices-inserted-first": 310 * k,
        "feat:isolated-node": 580 * k,
        "feat:empty-edge": 1000 * k,
        "feat:multi-edge": 1100 * k,
        "feat:explicit-id": 3800 * k,
        "feat:node-attrs": 2100 * k,
        "feat:edge-attrs": 2700 * k,
        "feat:net-attrs": 1900 * k,
        "cast:int": 1100 * k,
        "cast:none-str": 1900 * k,
        "hif:class-checked": 2500 * k,
        f"again:{AGAIN_TO}": 11000 * k,
        f"again:{AGAIN_FROM}": 5900 * k,
        "again:mutated-in-place": 1800 * k,
        "feat:maximal-0-simplex": 180 * k,
        "feat:0-simplex-that-is-a-face": 320 * k,
        "eval:max_simplices-into-complex": 840 * k,
        "variant:from_hyperedge_list:max_order-not-truncating": 270 * k,
        "variant:from_hyperedge_list:max_order-truncating": 270 * k,
        "feat:wild-attr-names": 1200 * k, "feat:node-attr-named-like-add_node-parameter": 80 * k, "feat:edge-attr-named-like-add_edge-parameter": 125 * k,
    })
    f = {name: int(v * 0.88) for name, v in f.items()}  # (the plan was trimmed by that factor after the numbers above were taken)
    f["rejected:colliding-cast"] = 160 if tier == "quick" else 2400
    return f


# -------------------------------------------------------------------------------------
class Ctx:
    def __init__(self, mon, net, info, src):
        self.mon, self.net, self.info, self.src = mon, net, info, src
        self.cls = src.cls
        self.override = None  # trigger class that replaces the pair's own while a second-call monitor runs
        self.collecting = None  # list: firings are held back until a control experiment has attributed them
        self.nfired = self.mark = 0
        self.no_again = False

    def witness(self, extra=""):
        return "construction:\n  " + "\n  ".join(self.info["hist"]) + f"\nsource: {self.src.brief()}\n{extra}"

    def fire(self, name, trigger, clause, what, wit):
        self.nfired += 1
        if self.collecting is not None:
            self.collecting.append((f"{name}|{self.override or trigger}|{clause}", what, wit))
        else:
            self.mon.fail(f"{name}|{self.override or trigger}|{clause}", what, wit)

    def check(self, pair, trigger, exp, back, clauses, variant="", name=None):
        """Compare one returned network with what the source demands."""
        mon = self.mon
        got = O.obs(back)
        mon.ev()
        mon.note((f"pair:{pair}:{self.cls}" if pair in PAIRS else f"eval:{pair}") if not self.override else f"again:{self.override}")
        if self.src.inc:
            mon.nontrivial((pair, variant, self.override, self.src.cls, sorted(map(repr, self.src.inc)), len(self.src.nodes), len(self.src.edges)))
        name = name or NAMES.get(pair, pair)
        for clause, detail in O.diff(exp, got, clauses):
            self.fire(name, trigger, clause, f"{name} [{variant}] on a {self.cls}: {clause}: {detail}", self.witness(f"returned: {got.brief()}"))

    def guarded(self, pair, trigger, fn, variant="", clause="raises"):
        """Run one round trip; an exception is a violation of 'converting ... and back yields ...'."""
        try:
            fn()
        except Exception as exc:
            if O.is_watchdog(exc):
                raise
            self.mon.ev()
            self.fire(NAMES.get(pair, pair), trigger, clause, f"{NAMES.get(pair, pair)} [{variant}] on a {self.cls} raised {type(exc).__name__}: {exc}", self.witness())
        finally:
            if self.override == AGAIN_FROM:
                self.override = None

    def again(self, rng, back, remake, compare):
        """Second call of the from_* side on the *same* representation object, after the first result was defaced:
        the second result must again be what the source demands (a from_* that hands out a cached network fails here)."""
        if self.override or self.no_again or rng.random() > 0.3 or self.nfired > self.mark:  # (a pair that has just fired is not probed further)
            return
        try:
            O.scribble(back)
        except Exception as exc:
            if O.is_watchdog(exc):
                raise
            self.mon.note("again:scribble-not-possible")
            return
        self.override = AGAIN_FROM
        try:
            compare(remake())
        finally:
            self.override = None


NO_DH = "no-dihypergraph-returned"  # the call raised or returned another class: one mechanism, one key
NAMES = {
    "hyperedge_list": "to_hyperedge_list/from_hyperedge_list",
    "hyperedge_dict": "to_hyperedge_dict/from_hyperedge_dict",
    "bipartite_edgelist": "to_bipartite_edgelist/from_bipartite_edgelist",
    "incidence_matrix": "to_incidence_matrix/from_incidence_matrix",
    "bipartite_graph": "to_bipartite_graph/from_bipartite_graph",
    "dataframe": "to_bipartite_pandas_dataframe/from_bipartite_pandas_dataframe",
    "hypergraph_dict": "to_hypergraph_dict/from_hypergraph_dict",
    "hif_dict": "to_hif_dict/from_hif_dict",
    "max_simplices": "from_max_simplices",
}


def _cls(name):
    return getattr(xgi, name)


def _cu(how):
    """create_using argument encoded in a variant name: '...(create_using=Cls)' -> the class, '...(create_using=Cls())' -> a fresh instance."""
    arg = how[how.index("create_using=") + len("create_using="):-1]
    return _cls(arg[:-2])() if arg.endswith("()") else _cls(arg)


def _pos_obs(o):
    """Source observation with edges renamed to their position (what a label-free edge list can carry)."""
    return O.expected(o, emap={e: i for i, e in enumerate(o.edges)}.__getitem__)


# ---- the pairs -----------------------------------------------------------------------
def p_hyperedge_list(c, rng):
    net, src = c.net, c.src
    if src.directed:
        lst = net.edges.dimembers()
        how = rng.choice(("DiHypergraph(list)", "from_hyperedge_list(create_using=DiHypergraph)", "from_hyperedge_list(create_using=DiHypergraph())", "to_dihypergraph(list)"))
        first_empty = bool(lst) and not lst[0][0] and not lst[0][1]
    else:
        lst = xgi.to_hyperedge_list(net)
        if src.cls == "Hypergraph":
            how = rng.choice(("from_hyperedge_list", "Hypergraph(list)", "from_hyperedge_list(create_using=Hypergraph)", "from_hyperedge_list(create_using=Hypergraph())",
                              "to_hypergraph(list)"))
        else:
            how = rng.choice(("from_hyperedge_list", "SimplicialComplex(list)", "from_hyperedge_list(create_using=SimplicialComplex)",
                              "from_hyperedge_list(create_using=SimplicialComplex())", "to_simplicial_complex(list)"))
        first_empty = bool(lst) and not lst[0]
    trigger = "empty-first-edge" if first_empty else src.cls
    name = NAMES["hyperedge_list"]
    if how == "to_dihypergraph(list)":  # the documented function with its default create_using: its own call site
        name, trigger = "to_dihypergraph", "create_using-omitted"
    # max_order (complexes only): a bound that does not truncate must change nothing
    top = max((len(m) for m in src.mem.values()), default=1) - 1 if not src.directed else 0
    mo = {}
    if src.cls == "SimplicialComplex" and how.startswith("from_hyperedge_list(create_using=") and rng.random() < 0.5:
        mo = {"max_order": top + rng.randint(0, 2)}
        how += f" max_order={mo['max_order']} (largest order present: {top})"

    def make():
        if how == "from_hyperedge_list":
            return xgi.from_hyperedge_list(lst)
        if how.startswith("from_hyperedge_list(create_using="):
            return xgi.from_hyperedge_list(lst, create_using=_cu(how.split(" ")[0]), **mo)
        if how == "to_hypergraph(list)":
            return xgi.to_hypergraph(lst)
        if how == "to_dihypergraph(list)":
            return xgi.to_dihypergraph(lst)
        if how == "to_simplicial_complex(list)":
            return xgi.to_simplicial_complex(lst)
        return _cls(how.split("(")[0])(lst)

    def compare(back):
        got = O.obs(back)
        c.mon.ev()
        if src.directed and got.cls != "DiHypergraph":
            c.fire(name, trigger, NO_DH, f"{how} on the dimembers() list of a DiHypergraph returned a {got.cls}", c.witness(f"list: {lst!r}\nreturned: {got.brief()}"))
            return
        # edges carry no label in a list: compare position for position
        exp = _pos_obs(src)
        gpos = _pos_obs(got)
        c.mon.note(f"pair:hyperedge_list:{c.cls}" if not c.override else f"again:{c.override}")
        if mo:
            c.mon.note("variant:from_hyperedge_list:max_order-not-truncating")
        if src.inc:
            c.mon.nontrivial(("hyperedge_list", how, c.override, src.cls, sorted(map(repr, src.inc))))
        for clause, detail in O.diff(exp, gpos, O.INC):
            c.fire(name, trigger, clause, f"{how} on a {c.cls}: position-for-position {clause}: {detail}", c.witness(f"list: {lst!r}\nreturned: {got.brief()}"))

    def go():
        back = make()
        compare(back)
        c.again(rng, back, make, compare)

    c.guarded(name, trigger, go, how, clause=NO_DH if name == "to_dihypergraph" else "raises")
    if src.cls == "SimplicialComplex" and top >= 1 and rng.random() < 0.5:
        # a truncating max_order, by the docstring of add_simplices_from: simplices above the bound are replaced by their subfaces up to the bound.
        # The list of a complex is closed, so what must come back is every listed simplex of order <= k (member sets of size >= 2 exactly; 0-simplices:
        # the listed ones must be there, nothing is demanded about further ones - the docstring does not say whether 'subfaces' include them)
        k = rng.randint(0, top - 1)
        v = f"from_hyperedge_list(create_using=SimplicialComplex, max_order={k}) (largest order present: {top})"

        def go_trunc():
            back = xgi.from_hyperedge_list(lst, create_using=xgi.SimplicialComplex, max_order=k)
            got = O.obs(back)
            c.mon.ev()
            c.mon.note("variant:from_hyperedge_list:max_order-truncating" if not c.override else f"again:{c.override}")
            fam = list(got.mem.values())
            want = {m for m in src.mem.values() if 2 <= len(m) <= k + 1}
            have = {m for m in fam if len(m) >= 2}
            ones_want = {m for m in src.mem.values() if len(m) == 1}
            ones_have = {m for m in fam if len(m) == 1}
            allowed = {frozenset([n]) for m in src.mem.values() for n in m}
            if want != have or len(set(fam)) != len(fam) or not ones_want <= ones_have or not ones_have <= allowed:
                c.fire(NAMES["hyperedge_list"], "truncating-max_order", "simplices", f"{v}: simplices of size >= 2: {O._sd(want, have)}; 0-simplices: listed {sorted(map(sorted, ones_want), key=repr)}, "
                       f"returned {sorted(map(sorted, ones_have), key=repr)}", c.witness(f"list: {lst!r}\nreturned: {got.brief()}"))

        c.guarded("hyperedge_list", "truncating-max_order", go_trunc, v)


def p_hyperedge_dict(c, rng):
    net, src = c.net, c.src
    d = net.edges.dimembers(dtype=dict) if src.directed else xgi.to_hyperedge_dict(net)
    how = rng.choice(HOW_DICT[src.cls])
    name, trigger = NAMES["hyperedge_dict"], src.cls
    if how == "to_dihypergraph(dict)":
        name, trigger = "to_dihypergraph", "create_using-omitted"

    def make():
        if how == "from_hyperedge_dict":
            return xgi.from_hyperedge_dict(d)
        if how.startswith("from_hyperedge_dict(create_using="):
            return xgi.from_hyperedge_dict(d, create_using=_cu(how))
        if how == "from_simplex_dict":
            return xgi.from_simplex_dict(d)
        if how.startswith("from_simplex_dict(create_using="):
            return xgi.from_simplex_dict(d, create_using=_cu(how))
        if how == "to_hypergraph(dict)":
            return xgi.to_hypergraph(d)
        if how == "to_dihypergraph(dict)":
            return xgi.to_dihypergraph(d)
        if how == "to_simplicial_complex(dict)":
            return xgi.to_simplicial_complex(d)
        return _cls(how.split("(")[0])(d)

    def compare(back):
        if src.directed and not isinstance(back, xgi.DiHypergraph):
            c.mon.ev()
            c.fire(name, trigger, NO_DH, f"{how} on the dimembers(dtype=dict) of a DiHypergraph returned a {type(back).__name__}", c.witness(f"dict: {d!r}"))
            return
        c.mon.note("variant:hyperedge_dict:" + how)
        c.check("hyperedge_dict", trigger, O.expected(src), back, O.INC, how, name=name)

    def go():
        back = make()
        compare(back)
        c.again(rng, back, make, compare)

    c.guarded(name, trigger, go, how, clause=NO_DH if name == "to_dihypergraph" else "raises")


def p_bipartite_edgelist(c, rng):
    src = c.src
    el = xgi.to_bipartite_edgelist(c.net)
    shape = rng.choice(("list-of-tuples", "list-of-lists", "tuple-of-tuples"))
    if shape == "list-of-lists":
        el = [list(t) for t in el]
    elif shape == "tuple-of-tuples":
        el = tuple(tuple(t) for t in el)
    trigger = "no-incidences" if len(el) == 0 else src.cls
    exp = O.expected(src, cls="DiHypergraph" if src.directed else "Hypergraph")

    def go():
        back = xgi.from_bipartite_edgelist(el)
        c.check("bipartite_edgelist", trigger, exp, back, O.INC, shape)
        c.again(rng, back, lambda: xgi.from_bipartite_edgelist(el), lambda b: c.check("bipartite_edgelist", trigger, exp, b, O.INC, shape))

    c.guarded("bipartite_edgelist", trigger, go, shape)


def p_incidence_matrix(c, rng):
    net, src = c.net, c.src
    sparse = rng.random() < 0.5

    def labelled():
        I, rd, cd = xgi.to_incidence_matrix(net, sparse=sparse, index=True)
        nl = [rd[i] for i in range(len(rd))]
        el = [cd[j] for j in range(len(cd))]
        if rng.random() < 0.3:
            nl, el = np.array(nl, dtype=object), np.array(el, dtype=object)
        back = xgi.from_incidence_matrix(I, nodelabels=nl, edgelabels=el)
        v = f"index=True sparse={sparse}"
        c.check("incidence_matrix", src.cls, O.expected(src), back, O.INC, v)
        c.again(rng, back, lambda: xgi.from_incidence_matrix(I, nodelabels=nl, edgelabels=el), lambda b: c.check("incidence_matrix", src.cls, O.expected(src), b, O.INC, v))

    def positional():
        I = xgi.to_incidence_matrix(net, sparse=not sparse)
        how = rng.choice(("from_incidence_matrix", "Hypergraph(matrix)"))
        back = xgi.from_incidence_matrix(I) if how == "from_incidence_matrix" else xgi.Hypergraph(I)
        npos = {n: i for i, n in enumerate(src.nodes)}
        epos = {e: i for i, e in enumerate(src.edges)}
        c.check("incidence_matrix", src.cls, O.expected(src, npos.__getitem__, epos.__getitem__), back, O.INC, f"{how} index=False sparse={not sparse}")

    c.guarded("incidence_matrix", src.cls, labelled, "index=True")
    c.guarded("incidence_matrix", src.cls, positional, "index=False")


def p_bipartite_graph(c, rng):
    net, src = c.net, c.src

    def labelled():
        G, itn, ite = xgi.to_bipartite_graph(net, index=True)
        back = xgi.from_bipartite_graph(G)
        n2i = {v: k for k, v in itn.items()}
        e2i = {v: k for k, v in ite.items()}
        exp = O.expected(src, lambda n: n2i.get(n, ("unmapped", n)), lambda e: e2i.get(e, ("unmapped", e)),
                         cls="DiHypergraph" if src.directed else "Hypergraph")
        c.check("bipartite_graph", src.cls, exp, back, O.INC, "index=True")
        c.again(rng, back, lambda: xgi.from_bipartite_graph(G), lambda b: c.check("bipartite_graph", src.cls, exp, b, O.INC, "index=True"))

    def positional():
        G = xgi.to_bipartite_graph(net)
        back = xgi.from_bipartite_graph(G)
        n = len(src.nodes)
        npos = {v: i for i, v in enumerate(src.nodes)}
        epos = {e: n + j for j, e in enumerate(src.edges)}
        exp = O.expected(src, npos.__getitem__, epos.__getitem__, cls="DiHypergraph" if src.directed else "Hypergraph")
        c.check("bipartite_graph", src.cls, exp, back, O.INC, "index=False")

    c.guarded("bipartite_graph", src.cls, labelled, "index=True")
    if rng.random() < 0.5:
        c.guarded("bipartite_graph", src.cls, positional, "index=False")


def p_dataframe(c, rng):
    net, src = c.net, c.src
    how = rng.choice(("default-columns", "named-columns", "swapped-columns", "Hypergraph(df)"))

    def go():
        df = xgi.to_bipartite_pandas_dataframe(net)

        def make():
            if how == "default-columns":
                return xgi.from_bipartite_pandas_dataframe(df)
            if how == "named-columns":
                return xgi.from_bipartite_pandas_dataframe(df, node_column="Node ID", edge_column="Edge ID")
            if how == "swapped-columns":
                return xgi.from_bipartite_pandas_dataframe(df[["Edge ID", "Node ID"]], node_column=1, edge_column=0)
            return xgi.Hypergraph(df)

        back = make()
        c.check("dataframe", src.cls, O.expected(src), back, O.INC, how)
        c.again(rng, back, make, lambda b: c.check("dataframe", src.cls, O.expected(src), b, O.INC, how))

    c.guarded("dataframe", src.cls, go, how)
    if src.cls == "SimplicialComplex":
        def go_sc():
            df = xgi.to_bipartite_pandas_dataframe(net)
            back = xgi.from_bipartite_pandas_dataframe(df, create_using=xgi.SimplicialComplex)
            got = O.obs(back)
            c.mon.ev()
            c.mon.note("eval:dataframe-into-complex")
            fam_s, fam_g = set(src.mem.values()), set(got.mem.values())
            if fam_s != fam_g or len(got.mem) != len(fam_g):
                c.fire(NAMES["dataframe"], "SimplicialComplex-into-SimplicialComplex", "simplices",
                       f"family of member sets differs: {O._sd(fam_s, fam_g)}", c.witness(f"returned: {got.brief()}"))

        c.guarded("dataframe", "SimplicialComplex-into-SimplicialComplex", go_sc, "create_using=SimplicialComplex")


def p_hypergraph_dict(c, rng):
    net, src = c.net, c.src
    nt, nmap = O.casts(rng, src.nodes, c.mon)
    et, emap = O.casts(rng, src.edges, c.mon)
    variant = f"nodetype={getattr(nt, '__name__', None)} edgetype={getattr(et, '__name__', None)}"
    if O.stddict_unsupported(net):  # from_hypergraph_dict creates every node with add_node(n, **attrs): 'node' / 'self' cannot be attribute names there
        c.mon.note("excluded:hypergraph_dict:node-attribute-named-like-add_node-parameter")
        return

    def go():
        try:
            d = xgi.to_hypergraph_dict(net)
        except xgi.exception.XGIError as exc:
            c.mon.ev()
            if O.collides(src.nodes) or O.collides(src.edges):
                c.mon.note("rejected:colliding-cast")
                return
            c.fire("to_hypergraph_dict", src.cls, "refused-without-collision", f"XGIError although no two IDs have the same string cast: {exc}", c.witness())
            return
        back = xgi.from_hypergraph_dict(d, nodetype=nt, edgetype=et)
        clauses = tuple(x for x in O.ALL if x != "class")
        exp = O.expected(src, nmap, emap)
        c.check("hypergraph_dict", src.cls, exp, back, clauses, variant)
        c.again(rng, back, lambda: xgi.from_hypergraph_dict(d, nodetype=nt, edgetype=et), lambda b: c.check("hypergraph_dict", src.cls, exp, b, clauses, variant))

    c.guarded("hypergraph_dict", src.cls, go, variant)


def p_hif_dict(c, rng):
    net, src = c.net, c.src
    nt, nmap = O.hif_casts(rng, src.nodes, c.mon)
    et, emap = O.hif_casts(rng, src.edges, c.mon)
    if O.collides([nmap(x) for x in src.nodes]) or O.collides([emap(x) for x in src.edges]):
        nt, nmap, et, emap = None, O.ident, None, O.ident
    variant = f"nodetype={getattr(nt, '__name__', None)} edgetype={getattr(et, '__name__', None)}"

    if O.hif_unsupported(net):  # (only reachable after an in-place edit isolated a node / emptied an edge: the generator avoids these combinations)
        c.mon.note("excluded:hif_dict:attribute-named-like-a-parameter-on-isolated-node-or-empty-edge")
        return

    def go():
        d = xgi.to_hif_dict(net)
        back = xgi.from_hif_dict(d, nodetype=nt, edgetype=et)
        if not c.override:
            c.mon.note("hif:class-checked")
        exp = O.expected(src, nmap, emap)
        c.check("hif_dict", src.cls, exp, back, O.ALL, variant)
        c.again(rng, back, lambda: xgi.from_hif_dict(d, nodetype=nt, edgetype=et), lambda b: c.check("hif_dict", src.cls, exp, b, O.ALL, variant))

    c.guarded("hif_dict", src.cls, go, variant)


def _maximal(fam):
    """Brute force: the member sets that are not a proper subset of another one."""
    return [m for m in fam if not any(m < o for o in fam)]


def p_max_simplices(c, rng):
    """from_max_simplices(S): exactly S's nodes, exactly S's maximal simplices as edges (each once); a complex built from that hypergraph holds the
    simplices of S again (closure restores every face of size >= 2; a 0-simplex that is a face of a larger simplex is not a face the class ever
    generates, so only the maximal 0-simplices are demanded back)."""
    net, src = c.net, c.src
    fam = list(src.mem.values())
    mx = _maximal(fam)
    has0 = any(len(m) == 1 for m in mx)
    trigger = "maximal-0-simplex" if has0 else src.cls
    name = NAMES["max_simplices"]

    def compare(H):
        got = O.obs(H)
        c.mon.ev()
        c.mon.note("pair:max_simplices:SimplicialComplex" if not c.override else f"again:{c.override}")
        if not c.override:
            if has0:
                c.mon.note("feat:maximal-0-simplex")
            if any(len(m) == 1 for m in fam if m not in mx):
                c.mon.note("feat:0-simplex-that-is-a-face")
        if src.inc:
            c.mon.nontrivial(("max_simplices", c.override, sorted(map(repr, src.inc)), len(src.nodes)))
        wit = c.witness(f"maximal simplices (brute force): {[sorted(m, key=repr) for m in mx]}\nreturned: {got.brief()}")
        if got.cls != "Hypergraph":
            c.fire(name, trigger, "class", f"expected a Hypergraph, got a {got.cls}", wit)
        if set(got.nodes) != set(src.nodes):
            c.fire(name, trigger, "node-set", O._sd(set(src.nodes), set(got.nodes)), wit)
        edges = list(got.mem.values())
        if sorted(map(repr, map(sorted_key, edges))) != sorted(map(repr, map(sorted_key, mx))):
            c.fire(name, trigger, "maximal-simplices", f"edges are not exactly the maximal simplices, each once: {O._sd(set(mx), set(edges))} "
                   f"(counts: {len(mx)} maximal, {len(edges)} edges)", wit)
        elif got.inc2 != got.inc:
            c.fire(name, trigger, "maximal-simplices", "memberships of the returned hypergraph disagree with its members", wit)
        return got

    def closure_back(H, how):
        back = xgi.SimplicialComplex(H)
        got = O.obs(back)
        c.mon.ev()
        c.mon.note("eval:max_simplices-into-complex" if not c.override else f"again:{c.override}")
        want = {m for m in fam if len(m) >= 2 or m in mx}
        have = list(got.mem.values())
        wit = c.witness(f"{how}\nreturned: {got.brief()}")
        if set(have) != want or len(have) != len(set(have)):
            c.fire(f"{name}/SimplicialComplex(Hypergraph)", trigger, "simplices", f"{how}: simplices differ from the source's: {O._sd(want, set(have))}", wit)
        if set(got.nodes) != set(src.nodes):
            c.fire(f"{name}/SimplicialComplex(Hypergraph)", trigger, "node-set", O._sd(set(src.nodes), set(got.nodes)), wit)

    def go():
        H = xgi.from_max_simplices(net)
        n0 = c.nfired
        compare(H)
        if c.nfired == n0:  # (a hypergraph that is already wrong is not sent on)
            closure_back(H, "SimplicialComplex(from_max_simplices(S))")
        c.again(rng, H, lambda: xgi.from_max_simplices(net), compare)

    c.guarded("max_simplices", trigger, go, "")


def sorted_key(m):
    return sorted(m, key=repr)


RUN = {
    "hyperedge_list": p_hyperedge_list, "hyperedge_dict": p_hyperedge_dict, "bipartite_edgelist": p_bipartite_edgelist,
    "incidence_matrix": p_incidence_matrix, "bipartite_graph": p_bipartite_graph, "dataframe": p_dataframe,
    "hypergraph_dict": p_hypergraph_dict, "hif_dict": p_hif_dict, "max_simplices": p_max_simplices,
}


def _source(mon, rng, cls, **kw):
    net, info = O.gen_net(rng, cls, **kw)
    if not O.valid(net):
        mon.note("invalid-start-state")
        return None
    src = O.obs(net)
    for f in info["feats"]:
        mon.note(f"feat:{f}")
    return Ctx(mon, net, info, src)


def case_roundtrip(mon, idx, rng):
    cls = O.CLASSES[idx % 3]
    c = _source(mon, rng, cls)
    if c is None:
        return
    before = repr(O.obs(c.net).brief())
    for pair, classes in PAIRS.items():
        if cls in classes:
            c.mark = c.nfired
            RUN[pair](c, rng)
    if idx % 50 == 0:
        mon.sample(c.info["hist"])
    if repr(O.obs(c.net).brief()) != before:  # C08's business; counted only, so that a surprise here can be explained
        mon.note("source-changed-by-a-converter")
        return
    # second pass: the same object, edited in place through the public API since it was last converted
    if idx % 2 or c.nfired:
        return
    calls = O.mutate(rng, c.net)
    if not calls or not O.valid(c.net):
        mon.note("again:mutation-not-usable")
        return
    c.info = dict(c.info, hist=c.info["hist"] + ["-- every pair was run once on the network so far; then, in place:"] + calls)
    c.src = O.obs(c.net)
    if repr(c.src.brief()) == before:
        mon.note("again:mutation-without-effect")
        return
    mon.note("again:mutated-in-place")
    c.override = AGAIN_TO
    for pair, classes in PAIRS.items():
        if cls in classes:
            _attributed(c, rng, lambda cc, r: RUN[pair](cc, r))


def _attributed(c, rng, run):
    """Run a second-call monitor with its firings held back; if it fires, repeat the same calls (same random choices) on an equal network
    that was built afresh and never converted: if that fires too, the defect is not about the second call and is reported under the
    ordinary trigger class of the control instead."""
    state = rng.getstate()
    c.collecting = held = []
    try:
        run(c, rng)
    finally:
        c.collecting = None
    if held:
        fresh = O.rebuild(c.net)
        if fresh is not None:
            c2 = Ctx(c.mon, fresh, c.info, O.obs(fresh))
            c2.collecting, c2.no_again = [], True
            r2 = random.Random()
            r2.setstate(state)
            run(c2, r2)
            held = c2.collecting or held
            c.mon.note("again:control-experiments")
    for key, what, wit in held:
        c.mon.fail(key, what, wit)


# ---- from_bipartite_graph: insertion-order independence --------------------------------


def case_graph_order(mon, idx, rng):
    cls = ("Hypergraph", "DiHypergraph")[idx % 2]
    c = _source(mon, rng, cls, attrs=False, min_edges=1)
    if c is None:
        return
    src = c.src
    naming = rng.choice(("offset-int", "prefixed-str", "own-labels"))
    if naming == "own-labels" and (set(src.nodes) & set(src.edges) or not all(isinstance(x, (int, str)) for x in src.nodes + src.edges)):
        naming = "offset-int"
    if naming == "offset-int":
        nv = {n: i for i, n in enumerate(src.nodes)}
        evx = {e: len(src.nodes) + j for j, e in enumerate(src.edges)}
    elif naming == "prefixed-str":
        nv = {n: f"n{i}" for i, n in enumerate(src.nodes)}
        evx = {e: f"e{j}" for j, e in enumerate(src.edges)}
    else:
        nv = {n: n for n in src.nodes}
        evx = {e: e for e in src.edges}
    dual = (not src.directed) and rng.random() < 0.5
    order = ORDERS[(idx // 2) % len(ORDERS)]
    orient = rng.choice(ORIENT)
    nflag, eflag = (1, 0) if dual else (0, 1)

    G = nx.DiGraph() if src.directed else nx.Graph()
    verts = [(nv[n], nflag) for n in src.nodes] + [(evx[e], eflag) for e in src.edges]
    if order == "edge-vertices-first":
        verts = verts[len(src.nodes):] + verts[: len(src.nodes)]
    elif order == "interleaved":
        a, b = verts[: len(src.nodes)], verts[len(src.nodes):]
        verts = [v for pair in zip(a, b) for v in pair] + a[len(b):] + b[len(a):]
        if rng.random() < 0.5:
            verts = [v for pair in zip(b, a) for v in pair] + a[len(b):] + b[len(a):]
    elif order == "shuffled":
        rng.shuffle(verts)
    incs = sorted(src.inc, key=repr)
    rng.shuffle(incs)

    def add_incidences():
        for t in incs:
            n, e = nv[t[0]], evx[t[1]]
            if src.directed:
                if t[2] == "tail":
                    G.add_edge(n, e)  # tail member -> edge vertex
                else:
                    G.add_edge(e, n)  # edge vertex -> head member
            else:
                o = orient if orient != "mixed" else rng.choice(ORIENT[:2])
                if o == "node-edge":
                    G.add_edge(n, e)
                else:
                    G.add_edge(e, n)

    if order == "incidences-first":
        add_incidences()
        for v, flag in verts:
            G.add_node(v, bipartite=flag)
    else:
        for v, flag in verts:
            G.add_node(v, bipartite=flag)
        add_incidences()

    # trigger class, from the graph itself: is some vertex of the edge layer (as the call sees it) inserted before a vertex it is joined to?
    pos = {v: i for i, v in enumerate(G.nodes)}
    layer1 = {v for v, d in G.nodes(data=True) if d["bipartite"] == 1}
    early = any((u in layer1 and pos[u] < pos[v]) or (v in layer1 and pos[v] < pos[u]) for u, v in G.edges)
    trigger = "edge-vertices-inserted-first" if early else "node-vertices-inserted-first"
    mon.note(f"graph-order:{order}")
    mon.note("graph-order:" + ("directed" if src.directed else "undirected"))
    mon.note(f"graph-trigger:{trigger}")
    if dual:
        mon.note("graph-order:dual")
    variant = f"order={order} orientation={orient} naming={naming} dual={dual}"

    fired = [0]

    def compare(back, trig):
        got = O.obs(back)
        mon.ev()
        mon.nontrivial(("graph-order", variant, trig, src.cls, sorted(map(repr, src.inc))))
        exp = O.expected(src, nv.__getitem__, evx.__getitem__, cls="DiHypergraph" if src.directed else "Hypergraph")
        wit = c.witness(f"graph ({variant}): vertices={list(G.nodes(data='bipartite'))} edges={list(G.edges)}\nreturned: {got.brief()}")
        name = "from_bipartite_graph"
        if got.inc != exp.inc or got.inc2 != exp.inc:
            rev = {(t[1], t[0]) + tuple(t[2:]) for t in exp.inc}
            clause = "nodes-edges-swapped" if (got.inc & rev) - exp.inc else "incidences"
            fired[0] += 1
            mon.fail(f"{name}|{trig}|{clause}", f"the hypergraph depends on the insertion order of the graph's vertices ({variant}): {O._sd(exp.inc, got.inc)}", wit)
        elif not dual and set(got.nodes) != set(exp.nodes):
            mon.fail(f"{name}|{trig}|node-set", f"vertices with bipartite=0 are not exactly the nodes: {O._sd(set(exp.nodes), set(got.nodes))}", wit)

    def go():
        back = xgi.from_bipartite_graph(G, dual=dual)
        compare(back, trigger)
        if idx % 3 == 0 and not fired[0]:  # the same graph object converted again after the first result was defaced
            O.scribble(back)
            mon.note(f"again:{AGAIN_FROM}")
            compare(xgi.from_bipartite_graph(G, dual=dual), AGAIN_FROM)

    c.guarded("from_bipartite_graph", trigger, go, variant)


# ---- class-to-class -----------------------------------------------------------------------
def _faces(ms):
    from itertools import combinations

    ms = sorted(ms, key=repr)
    return {frozenset(s) for k in range(2, len(ms)) for s in combinations(ms, k)}


def case_class(mon, idx, rng):
    name = C2C[idx % len(C2C)]
    tgt, srcname = name[:-1].split("(")
    c = _source(mon, rng, srcname)
    if c is None:
        return
    how = rng.choice(("constructor", "to_function"))
    fn = {"Hypergraph": xgi.to_hypergraph, "DiHypergraph": xgi.to_dihypergraph, "SimplicialComplex": xgi.to_simplicial_complex}[tgt]

    def go(c=c):
        src = c.src
        back = _cls(tgt)(c.net) if how == "constructor" else fn(c.net)
        got = O.obs(back)
        mon.ev()
        mon.note(f"class:{name}" if not c.override else f"again:{c.override}")
        if src.inc:
            mon.nontrivial((name, how, c.override, sorted(map(repr, src.inc)), repr(src.gattr)))
        wit = c.witness(f"returned ({how}): {got.brief()}")

        def fire(clause, what):
            c.fire(name, srcname, clause, f"{name} via {how}: {what}", wit)

        if got.cls != tgt:
            fire("class", f"expected a {tgt}, got {got.cls}")
        if set(got.nodes) != set(src.nodes):
            fire("node-set", O._sd(set(src.nodes), set(got.nodes)))
        bad = {n: (a, got.nattr.get(n)) for n, a in src.nattr.items() if n in got.nattr and got.nattr[n] != a}
        if bad:
            fire("node-attributes", f"(source, target) per node: {bad}")
        if got.gattr != src.gattr:
            fire("network-attributes", f"source {src.gattr}, target {got.gattr}")
        # member sets
        if tgt == "DiHypergraph":
            bad = {e: (m, got.mem.get(e)) for e, m in src.mem.items() if got.mem.get(e) != m}
            if bad:
                fire("member-sets", f"(source, target) tail/head per edge ID: {bad}")
            elif got.inc2 != src.inc:
                fire("member-sets", "target memberships disagree with the source incidences: " + O._sd(src.inc, got.inc2))
        else:
            union = {e: (m[0] | m[1] if src.directed else m) for e, m in src.mem.items()}
            if tgt == "Hypergraph":
                bad = {e: (m, got.mem.get(e)) for e, m in union.items() if got.mem.get(e) != m}
                if bad:
                    fire("member-sets", f"(source member set, target) per edge ID: {bad}")
                elif {t for t in got.inc2 if t[1] in union} != {(n, e) for e, m in union.items() for n in m}:
                    fire("member-sets", "target memberships disagree with the source member sets")
            else:
                fam = set(got.mem.values())
                need = {m for m in union.values() if m}
                lost = need - fam
                if lost:
                    fire("member-sets", f"source member sets absent from the complex: {sorted(map(sorted, lost))[:5]}")
                lostf = set().union(*[_faces(m) for m in need]) - fam if need else set()
                if lostf:
                    fire("faces", f"faces of source edges absent from the complex: {[sorted(f, key=repr) for f in lostf][:5]}")
        # edge attributes
        if tgt in ("Hypergraph", "DiHypergraph"):
            bad = {e: (a, got.eattr.get(e)) for e, a in src.eattr.items() if e in got.eattr and got.eattr[e] != a}
            if bad:
                fire("edge-attributes", f"(source, target) per edge ID: {bad}")
        else:
            count = {}
            for m in src.mem.values():
                count[m] = count.get(m, 0) + 1
            byset = {m: e for e, m in got.mem.items()}
            bad = {}
            for e, m in src.mem.items():
                if m and count[m] == 1 and m in byset and got.eattr[byset[m]] != src.eattr[e]:
                    bad[e] = (src.eattr[e], got.eattr[byset[m]])
            if bad:
                fire("edge-attributes", f"(source, target) for source edges with a unique member set: {bad}")

    c.guarded(name, srcname, go, how)
    if (idx // len(C2C)) % 2 == 0 and not c.nfired:  # the same source object, edited in place since it was last converted
        calls = O.mutate(rng, c.net)
        if calls and O.valid(c.net):
            c.info = dict(c.info, hist=c.info["hist"] + [f"-- {name} was run once on the network so far; then, in place:"] + calls)
            c.src = O.obs(c.net)
            mon.note("again:mutated-in-place")
            c.override = AGAIN_TO
            _attributed(c, rng, lambda cc, r: cc.guarded(name, srcname, lambda: go(cc), how))


# ---- colliding string casts ------------------------------------------------------------------
def case_collide(mon, idx, rng):
    cls = UND[idx % 2]
    net = _cls(cls)()
    hist = [f"{cls}()"]
    where = rng.choice(("nodes", "edges", "both"))
    k = rng.randint(1, 9)
    add = net.add_edge if cls == "Hypergraph" else net.add_simplex
    if where in ("nodes", "both"):
        pool = [k, str(k), k + 1, str(k + 2)]
    else:
        pool = [k, k + 1, k + 2]
    ids = [None, None, None]
    if where in ("edges", "both"):
        j = rng.randint(0, 5)
        ids = [j, str(j), None]
        rng.shuffle(ids)
    edges = [[pool[0], pool[1]], [pool[1], pool[2]], [pool[0], pool[2], pool[-1]]] if where != "edges" else [[pool[0], pool[1]], [pool[1], pool[2]], [pool[0], pool[1], pool[2]]]
    for mem, i in zip(edges, ids):
        add(mem, idx=i)
        hist.append(f"add({mem!r}, idx={i!r})")
    if not O.valid(net):
        mon.note("invalid-start-state")
        return
    src = O.obs(net)
    c = Ctx(mon, net, {"hist": hist}, src)
    if not (O.collides(src.nodes) or O.collides(src.edges)):
        mon.note("collide:no-collision-generated")
        return

    def go():
        try:
            d = xgi.to_hypergraph_dict(net)
        except xgi.exception.XGIError:
            mon.ev()
            mon.note("rejected:colliding-cast")
            mon.nontrivial(("collide", where, cls, k))
            return
        mon.ev()
        mon.fail(f"to_hypergraph_dict|colliding-string-casts|not-refused",
                 f"IDs with equal string casts ({where}) were written into one dict instead of being refused with XGIError: node-data keys {list(d['node-data'])}, edge-dict keys {list(d['edge-dict'])}",
                 c.witness())

    c.guarded("to_hypergraph_dict", "colliding-string-casts", go, where)


def run_case(mon, kind, idx, rng):
    if kind == "roundtrip":
        case_roundtrip(mon, idx, rng)
    elif kind == "graph-order":
        case_graph_order(mon, idx, rng)
    elif kind == "class":
        case_class(mon, idx, rng)
    else:
        case_collide(mon, idx, rng)
