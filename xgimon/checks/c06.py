"""C06 - views and statistics are live and mutually consistent (DESIGN §2 C06).

A battery of definitional post-conditions evaluated at every state of a seeded edit
history, on view / stat objects that were created *before* the history started and are
held across all mutations.
"""
import math

import numpy as np

from .. import ops, snap
from ..env import xgi
from . import common

PID = "C06"
ANCHORS = ("xgi/core/views.py", "xgi/stats/__init__.py", "xgi/stats/nodestats.py", "xgi/stats/edgestats.py",
           "xgi/stats/dinodestats.py", "xgi/stats/diedgestats.py")
TECHNIQUE = "runtime monitoring: definitional post-conditions on held views/stats at every state of an edit history"
RULE = (
    "case = one seeded edit history (<= 14 ops) on one of the three classes; node/edge views, degree/size stats and a multi-stat are created "
    "before the first op and re-queried after every op; one evaluation = one definitional assertion of the battery at one state. "
    "distinct_nontrivial = distinct canonical states (with at least one edge) at which the full battery was evaluated"
)
ASSUMPTIONS = [
    "order: surviving IDs keep their relative order and new IDs come after them; inside one call the order of *new* nodes is only pinned where the "
    "argument is ordered; rebuild helpers (merge, cleanup) only have to keep the relative order of untouched IDs; relabelling yields 0..n-1 in order",
    "duplicates(): k-1 IDs of every class of k equal member sets (which representative is kept is left open)",
    "filtered views are snapshots of an ID list by design: only required to be right when created",
    "weighted degree uses 1 for a missing weight attribute; states whose weight values are not numbers are skipped for the weighted variants",
]
CLASSES = ("Hypergraph", "DiHypergraph", "SimplicialComplex")


def plan(tier):
    if tier == "quick":
        return {f"{c}:steered": n for c, n in zip(CLASSES, (260, 160, 120))}
    return {f"{c}:steered": n for c, n in zip(CLASSES, (60000, 40000, 28000))}


def floors(tier):
    return {"states": 2000, "assert:view-order": 2000, "assert:stat-forms": 10000, "assert:filterby": 10000, "assert:neighbors": 5000,
            "assert:held-objects-live": 2000, "assert:maximal": 1000, "assert:duplicates": 1000, "assert:aspandas": 3000,
            "assert:multi": 3000, "assert:directed-degrees": 1000, "state:with-empty-edge": 20, "state:with-duplicates": 50}


class P:
    """Plain observation of one state (through the public API)."""

    def __init__(self, net):
        self.di = isinstance(net, xgi.DiHypergraph)
        self.nodes = list(net.nodes)
        self.edges = list(net.edges)
        if self.di:
            dm = net.edges.dimembers(dtype=dict)
            self.tail = {e: set(t) for e, (t, h) in dm.items()}
            self.head = {e: set(h) for e, (t, h) in dm.items()}
            self.mem = {e: self.tail[e] | self.head[e] for e in self.edges}
            ds = net.nodes.dimemberships()
            self.inm = {n: set(i) for n, (i, o) in ds.items()}
            self.outm = {n: set(o) for n, (i, o) in ds.items()}
            self.mship = {n: self.inm[n] | self.outm[n] for n in self.nodes}
        else:
            self.mem = {e: set(m) for e, m in net.edges.members(dtype=dict).items()}
            self.mship = {n: set(m) for n, m in net.nodes.memberships().items()}
        self.nattr = {n: dict(net.nodes[n]) for n in self.nodes}
        self.eattr = {e: dict(net.edges[e]) for e in self.edges}


def eq(a, b):
    if isinstance(a, float) or isinstance(b, float):
        try:
            return (math.isnan(a) and math.isnan(b)) or abs(a - b) <= 1e-9 * max(1, abs(a), abs(b))
        except TypeError:
            return a == b
    return a == b


def same_list(a, b):
    a, b = list(a), list(b)
    return len(a) == len(b) and all(eq(x, y) for x, y in zip(a, b))


class Battery:
    def __init__(self, mon, net, cls, hist, rng):
        self.mon, self.net, self.cls, self.hist, self.rng = mon, net, cls, hist, rng
        self.failed = False

    def fire(self, site, clause, what):
        self.failed = True
        self.mon.fail(f"{site}|{self.cls}|{clause}", f"{self.cls}: {what}", "history:\n  " + "\n  ".join(self.hist[-16:]) + f"\nstate: {snap.pretty(self.net)}")

    def ok(self, cond, site, clause, what, counter):
        self.mon.ev()
        self.mon.note(counter)
        if not cond and not self.failed:
            self.fire(site, clause, what)
        return cond

    # -- one stat in all its output forms ---------------------------------------
    def stat_forms(self, view, ids, st, expected, site):
        """expected: {id: value} for every id of the view; ids: view order."""
        ok = self.ok
        d = st.asdict()
        ok(list(d) == ids and all(eq(d[i], expected[i]) for i in ids), site, "asdict-wrong", f"{site}.asdict() = {d} expected {expected} in order {ids}", "assert:stat-forms")
        ok(same_list(st.aslist(), [expected[i] for i in ids]), site, "aslist-wrong", f"{site}.aslist() = {st.aslist()} expected {[expected[i] for i in ids]}", "assert:stat-forms")
        arr = st.asnumpy()
        ok(isinstance(arr, np.ndarray) and same_list(arr.tolist(), [expected[i] for i in ids]), site, "asnumpy-wrong", f"{site}.asnumpy() = {arr}", "assert:stat-forms")
        ser = st.aspandas()
        ok(list(ser.index) == ids and same_list(ser.tolist(), [expected[i] for i in ids]), site, "aspandas-wrong",
           f"{site}.aspandas() has index {list(ser.index)} values {ser.tolist()}; expected index {ids} values {[expected[i] for i in ids]}", "assert:aspandas")
        ok(len(st) == len(ids), site, "len-wrong", f"len({site}) = {len(st)}", "assert:stat-forms")
        for i in ids[:3]:
            ok(eq(st[i], expected[i]), site, "getitem-wrong", f"{site}[{i!r}] = {st[i]} expected {expected[i]}", "assert:stat-forms")
        it = dict(iter(st))
        ok(set(it) == set(ids) and all(eq(it[i], expected[i]) for i in ids), site, "iter-wrong", f"iter({site}) = {it}", "assert:stat-forms")
        if ids and all(isinstance(v, (int, float)) and not isinstance(v, bool) for v in expected.values()):
            vals = [expected[i] for i in ids]
            ok(eq(st.max(), max(vals)) and eq(st.min(), min(vals)) and eq(st.sum(), sum(vals)), site, "aggregate-wrong",
               f"{site}.max/min/sum = {st.max()}, {st.min()}, {st.sum()} expected {max(vals)}, {min(vals)}, {sum(vals)}", "assert:stat-forms")
            ok(expected[st.argmax()] == max(vals) and expected[st.argmin()] == min(vals), site, "argmax-wrong", f"{site}.argmax/argmin wrong", "assert:stat-forms")
            srt = st.argsort()
            ok(sorted(map(repr, srt)) == sorted(map(repr, ids)) and all(expected[a] <= expected[b] for a, b in zip(srt, srt[1:])), site, "argsort-wrong", f"{site}.argsort() = {srt}", "assert:stat-forms")

    def filters(self, view, ids, statname, expected, site, kwargs=None):
        rng, ok = self.rng, self.ok
        vals = sorted(set(expected.values()), key=repr)
        if not vals or not all(isinstance(v, (int, float)) and not isinstance(v, bool) for v in vals):
            return
        st = getattr(view, statname)
        if kwargs:
            st = st(**kwargs)
        v = rng.choice(vals + [max(vals) + 1])
        lo, hi = sorted((rng.choice(vals), rng.choice(vals)))
        import operator as O

        for mode, pred in (("eq", O.eq), ("neq", O.ne), ("lt", O.lt), ("gt", O.gt), ("leq", O.le), ("geq", O.ge)):
            got = list(view.filterby(st if (kwargs or rng.random() < 0.5) else statname, v, mode))
            want = [i for i in ids if pred(expected[i], v)]
            ok(got == want, f"{site}.filterby", f"mode={mode}", f"filterby({statname}{kwargs or ''}, {v}, {mode!r}) = {got} expected {want}", "assert:filterby")
        got = list(view.filterby(st, (lo, hi), "between"))
        ok(got == [i for i in ids if lo <= expected[i] <= hi], f"{site}.filterby", "mode=between", f"filterby({statname}, ({lo},{hi}), 'between') = {got}", "assert:filterby")
        got = list(view.filterby(st, v, lambda a, b: a % 2 == b % 2))
        ok(got == [i for i in ids if expected[i] % 2 == v % 2], f"{site}.filterby", "mode=callable", f"filterby with a callable = {got}", "assert:filterby")

    def filter_attr(self, view, ids, attrs, site):
        rng, ok = self.rng, self.ok
        name = rng.choice(ops.ATTR_NAMES)
        present = [attrs[i][name] for i in ids if name in attrs[i]]
        nums = [x for x in present if isinstance(x, (int, float)) and not isinstance(x, bool)]
        import operator as O

        # without `missing`: IDs lacking the attribute are never returned
        if present:
            v = rng.choice(present)
            if v is not None:
                got = list(view.filterby_attr(name, v))
                want = [i for i in ids if attrs[i].get(name) is not None and attrs[i].get(name) == v]
                ok(got == want, f"{site}.filterby_attr", "eq", f"filterby_attr({name!r}, {v!r}) = {got} expected {want}", "assert:filterby")
                got = list(view.filterby_attr(name, v, "neq"))
                want = [i for i in ids if attrs[i].get(name) is not None and attrs[i].get(name) != v]
                ok(got == want, f"{site}.filterby_attr", "neq", f"filterby_attr({name!r}, {v!r}, 'neq') = {got} expected {want}", "assert:filterby")
        if nums and len(nums) == len([x for x in present if x is not None]):
            v = rng.choice(nums)
            for mode, pred in (("lt", O.lt), ("gt", O.gt), ("leq", O.le), ("geq", O.ge)):
                got = list(view.filterby_attr(name, v, mode))
                want = [i for i in ids if attrs[i].get(name) is not None and pred(attrs[i][name], v)]
                ok(got == want, f"{site}.filterby_attr", mode, f"filterby_attr({name!r}, {v}, {mode!r}) = {got} expected {want}", "assert:filterby")
            # with `missing`: IDs lacking the attribute take part with that value
            miss = rng.choice(nums)
            got = list(view.filterby_attr(name, v, "geq", missing=miss))
            want = [i for i in ids if (attrs[i].get(name, miss) is not None) and attrs[i].get(name, miss) >= v]
            ok(got == want, f"{site}.filterby_attr", "missing", f"filterby_attr({name!r}, {v}, 'geq', missing={miss}) = {got} expected {want}", "assert:filterby")
            lo, hi = sorted((rng.choice(nums), rng.choice(nums)))
            got = list(view.filterby_attr(name, (lo, hi), "between"))
            want = [i for i in ids if attrs[i].get(name) is not None and lo <= attrs[i][name] <= hi]
            ok(got == want, f"{site}.filterby_attr", "between", f"filterby_attr between = {got} expected {want}", "assert:filterby")
        # attrs stat itself
        a = view.attrs.asdict()
        ok(list(a) == ids and all(a[i] == attrs[i] for i in ids), f"{site}.attrs", "asdict-wrong", f"{site}.attrs.asdict() wrong", "assert:stat-forms")
        a = view.attrs(name, missing="?").asdict()
        ok(a == {i: attrs[i].get(name, "?") for i in ids}, f"{site}.attrs", "named-wrong", f"{site}.attrs({name!r}, missing='?') = {a}", "assert:stat-forms")

    # -- the battery ----------------------------------------------------------------
    def run(self, held):
        net, mon, ok, rng = self.net, self.mon, self.ok, self.rng
        p = P(net)
        nv, ev = net.nodes, net.edges
        ns, es = p.nodes, p.edges
        mon.note("states")
        if any(len(m) == 0 for m in p.mem.values()):
            mon.note("state:with-empty-edge")
        # held objects created before the history describe the current state
        ok(list(held["nv"]) == ns and list(held["ev"]) == es and len(held["nv"]) == len(ns) and len(held["ev"]) == len(es),
           "held-view", "stale", f"held views list {list(held['nv'])}/{list(held['ev'])} but the network has {ns}/{es}", "assert:held-objects-live")
        ok(set(nv.ids) == set(ns) and set(ev.ids) == set(es) and all(n in nv for n in ns) and all(e in ev for e in es), "view", "ids-wrong", "view ids/contains disagree", "assert:view-order")
        ok(net.num_nodes == len(ns) and net.num_edges == len(es) and len(net) == len(ns) and list(iter(net)) == ns, "network", "counts-wrong", "num_nodes/num_edges/len/iter disagree with the views", "assert:view-order")
        deg = {n: len(p.mship[n]) for n in ns}
        size = {e: len(p.mem[e]) for e in es}
        hd, hs = held["deg"].asdict(), held["size"].asdict()
        ok(hd == deg and list(hd) == ns and hs == size and list(hs) == es, "held-stat", "stale", f"held degree/size stats give {hd}/{hs}; expected {deg}/{size}", "assert:held-objects-live")
        hm = held["multi"].asdict()
        ok(list(hm) == ns and all(hm[n]["degree"] == deg[n] for n in ns), "held-multi", "stale", f"held multi-stat gives {hm}", "assert:held-objects-live")
        ok(sum(deg.values()) == sum(size.values()) if not p.di else True, "degree-size", "sums-differ", "sum of degrees != sum of sizes", "assert:stat-forms")
        # node stats
        self.stat_forms(nv, ns, nv.degree, deg, "nodes.degree")
        self.stat_forms(ev, es, ev.size, size, "edges.size")
        self.stat_forms(ev, es, ev.order, {e: size[e] - 1 for e in es}, "edges.order")
        k = rng.choice((0, 1, 2, 3))
        dk = {n: sum(1 for e in p.mship[n] if size[e] == k + 1) for n in ns}
        self.stat_forms(nv, ns, nv.degree(order=k), dk, f"nodes.degree(order)")
        w = rng.choice(("w", "weight"))
        try:
            dw = {n: sum(p.eattr[e].get(w, 1) for e in p.mship[n]) for n in ns}
            dwk = {n: sum(p.eattr[e].get(w, 1) for e in p.mship[n] if size[e] == k + 1) for n in ns}
            numeric = all(isinstance(v, (int, float)) for v in list(dw.values()) + list(dwk.values()))
        except TypeError:
            numeric = False
        if numeric:
            self.stat_forms(nv, ns, nv.degree(weight=w), dw, "nodes.degree(weight)")
            self.stat_forms(nv, ns, nv.degree(order=k, weight=w), dwk, "nodes.degree(order,weight)")
        dgr = rng.choice((1, 2, 3))
        sd = {e: sum(1 for n in p.mem[e] if deg[n] == dgr) for e in es}
        self.stat_forms(ev, es, ev.size(degree=dgr), sd, "edges.size(degree)")
        self.stat_forms(ev, es, ev.order(degree=dgr), {e: sd[e] - 1 for e in es}, "edges.order(degree)")
        if p.di:
            ind = {n: len(p.inm[n]) for n in ns}
            outd = {n: len(p.outm[n]) for n in ns}
            self.stat_forms(nv, ns, nv.in_degree, ind, "nodes.in_degree")
            self.stat_forms(nv, ns, nv.out_degree, outd, "nodes.out_degree")
            self.stat_forms(nv, ns, nv.in_degree(order=k), {n: sum(1 for e in p.inm[n] if size[e] == k + 1) for n in ns}, "nodes.in_degree(order)")
            self.stat_forms(nv, ns, nv.out_degree(order=k), {n: sum(1 for e in p.outm[n] if size[e] == k + 1) for n in ns}, "nodes.out_degree(order)")
            self.stat_forms(ev, es, ev.head_size, {e: len(p.head[e]) for e in es}, "edges.head_size")
            self.stat_forms(ev, es, ev.tail_size, {e: len(p.tail[e]) for e in es}, "edges.tail_size")
            self.stat_forms(ev, es, ev.head_order, {e: len(p.head[e]) - 1 for e in es}, "edges.head_order")
            self.stat_forms(ev, es, ev.tail_order, {e: len(p.tail[e]) - 1 for e in es}, "edges.tail_order")
            # degree= option of the directed edge statistics (a node in both head and tail has ONE degree per edge)
            hsd = {e: sum(1 for n in p.head[e] if deg[n] == dgr) for e in es}
            tsd = {e: sum(1 for n in p.tail[e] if deg[n] == dgr) for e in es}
            self.stat_forms(ev, es, ev.head_size(degree=dgr), hsd, "edges.head_size(degree)")
            self.stat_forms(ev, es, ev.tail_size(degree=dgr), tsd, "edges.tail_size(degree)")
            self.stat_forms(ev, es, ev.head_order(degree=dgr), {e: hsd[e] - 1 for e in es}, "edges.head_order(degree)")
            self.stat_forms(ev, es, ev.tail_order(degree=dgr), {e: tsd[e] - 1 for e in es}, "edges.tail_order(degree)")
            try:
                diw = {n: sum(p.eattr[e].get(w, 1) for e in p.inm[n]) for n in ns}
                dow = {n: sum(p.eattr[e].get(w, 1) for e in p.outm[n] if size[e] == k + 1) for n in ns}
                if all(isinstance(v, (int, float)) for v in list(diw.values()) + list(dow.values())):
                    self.stat_forms(nv, ns, nv.in_degree(weight=w), diw, "nodes.in_degree(weight)")
                    self.stat_forms(nv, ns, nv.out_degree(order=k, weight=w), dow, "nodes.out_degree(order,weight)")
            except TypeError:
                pass
            ok(all(n in p.tail[e] for n in ns for e in p.outm[n]) and all(n in p.head[e] for n in ns for e in p.inm[n])
               and sum(ind.values()) == sum(len(h) for h in p.head.values()) and sum(outd.values()) == sum(len(t) for t in p.tail.values()),
               "directed-degrees", "incidence-mismatch", "in/out degrees do not match head/tail incidence", "assert:directed-degrees")
            mon.note("assert:directed-degrees")
        else:
            nb = {n: set().union(*(p.mem[e] for e in p.mship[n])) - {n} if p.mship[n] else set() for n in ns}
            and_ = {n: (sum(deg[x] for x in nb[n]) / len(nb[n]) if nb[n] else 0) for n in ns}
            self.stat_forms(nv, ns, nv.average_neighbor_degree, and_, "nodes.average_neighbor_degree")
        # multi
        names = ["degree", "in_degree"] if p.di else ["degree", "average_neighbor_degree"]
        exp2 = ({n: len(p.inm[n]) for n in ns}) if p.di else and_
        m = nv.multi(names)
        md = m.asdict()
        ok(list(md) == ns and all(list(md[n]) == names and eq(md[n][names[0]], deg[n]) and eq(md[n][names[1]], exp2[n]) for n in ns), "nodes.multi", "asdict-wrong", f"multi.asdict() = {md}", "assert:multi")
        mt = m.asdict(transpose=True)
        ok(list(mt) == names and list(mt[names[0]]) == ns and all(eq(mt[names[0]][n], deg[n]) for n in ns), "nodes.multi", "asdict-transpose-wrong", f"multi.asdict(transpose=True) = {mt}", "assert:multi")
        ml = m.asdict(list)
        ok(list(ml) == ns and all(same_list(ml[n], [deg[n], exp2[n]]) for n in ns), "nodes.multi", "asdict-list-wrong", f"multi.asdict(list) = {ml}", "assert:multi")
        al = m.aslist()
        ok(len(al) == len(ns) and all(same_list(r, [deg[n], exp2[n]]) for r, n in zip(al, ns)), "nodes.multi", "aslist-wrong", f"multi.aslist() = {al}", "assert:multi")
        alt = m.aslist(transpose=True)
        ok(len(alt) == 2 and same_list(alt[0], [deg[n] for n in ns]) and same_list(alt[1], [exp2[n] for n in ns]), "nodes.multi", "aslist-transpose-wrong", f"multi.aslist(transpose=True) = {alt}", "assert:multi")
        ald = m.aslist(dict)
        ok(len(ald) == len(ns) and all(eq(r[names[0]], deg[n]) for r, n in zip(ald, ns)), "nodes.multi", "aslist-dict-wrong", f"multi.aslist(dict) = {ald}", "assert:multi")
        if ns:
            arr = m.asnumpy()
            ok(arr.shape == (len(ns), 2) and same_list(arr[:, 0].tolist(), [deg[n] for n in ns]), "nodes.multi", "asnumpy-wrong", f"multi.asnumpy() = {arr}", "assert:multi")
            df = m.aspandas()
            ok(list(df.index) == ns and list(df.columns) == names and same_list(df[names[0]].tolist(), [deg[n] for n in ns]) and same_list(df[names[1]].tolist(), [exp2[n] for n in ns]),
               "nodes.multi", "aspandas-wrong", f"multi.aspandas() index {list(df.index)} expected {ns}", "assert:aspandas")
        em = ev.multi(["size", "order"]).asdict()
        ok(list(em) == es and all(em[e] == {"size": size[e], "order": size[e] - 1} for e in es), "edges.multi", "asdict-wrong", f"edges.multi = {em}", "assert:multi")
        # filters
        self.filters(nv, ns, "degree", deg, "nodes")
        self.filters(ev, es, "size", size, "edges")
        self.filters(nv, ns, "degree", dk, "nodes", {"order": k})
        self.filter_attr(nv, ns, p.nattr, "nodes")
        self.filter_attr(ev, es, p.eattr, "edges")
        # neighbours (undirected views only: the directed views inherit neighbors() but it is not defined for
        # the in/out tables - DH.nodes.neighbors(n) raises IDNotFound('in'); recorded in DESIGN as not claimed)
        for s in (() if p.di else (1, 2, 3)):
            for n in ns[:5]:
                want = {x for x in ns if x != n and len(p.mship[n] & p.mship[x]) >= s}
                if s == 1:
                    want = {x for x in ns if x != n and p.mship[n] & p.mship[x]}
                got = nv.neighbors(n, s) if s > 1 else nv.neighbors(n)
                ok(got == want, "nodes.neighbors", f"s={'1' if s == 1 else '>1'}", f"nodes.neighbors({n!r}, s={s}) = {got} expected {want}", "assert:neighbors")
            for e in es[:5]:
                want = {x for x in es if x != e and len(p.mem[e] & p.mem[x]) >= s}
                got = ev.neighbors(e, s)
                ok(got == want, "edges.neighbors", f"s={'1' if s == 1 else '>1'}", f"edges.neighbors({e!r}, s={s}) = {got} expected {want}", "assert:neighbors")
        # lookup, isolates, singletons, empty, members/memberships accessors
        if not p.di:
            if es:
                target = p.mem[rng.choice(es)]
                got = list(ev.lookup(target))
                ok(got == [e for e in es if p.mem[e] == target], "edges.lookup", "wrong", f"edges.lookup({target}) = {got}", "assert:neighbors")
            if ns:
                target = p.mship[rng.choice(ns)]
                got = list(nv.lookup(target))
                ok(got == [n for n in ns if p.mship[n] == target], "nodes.lookup", "wrong", f"nodes.lookup({target}) = {got}", "assert:neighbors")
            got = list(nv.isolates())
            ok(got == [n for n in ns if deg[n] == 0], "nodes.isolates", "wrong", f"isolates() = {got}", "assert:filterby")
            got = set(nv.isolates(ignore_singletons=True))
            ok(got == {n for n in ns if all(size[e] == 1 for e in p.mship[n])}, "nodes.isolates", "ignore_singletons-wrong", f"isolates(ignore_singletons=True) = {got}", "assert:filterby")
            ok(list(ev.singletons()) == [e for e in es if size[e] == 1], "edges.singletons", "wrong", "singletons() wrong", "assert:filterby")
            ok(list(ev.empty()) == [e for e in es if size[e] == 0], "edges.empty", "wrong", "empty() wrong", "assert:filterby")
            ok(ev.members() == [p.mem[e] for e in es] and all(ev.members(e) == p.mem[e] for e in es[:4]), "edges.members", "list-form-wrong", "members() list form disagrees with dict form", "assert:view-order")
            # maximal
            strict = {e for e in es if not any(f != e and p.mem[e] <= p.mem[f] for f in es)}
            nonstrict = {e for e in es if not any(p.mem[e] < p.mem[f] for f in es)}
            got = set(ev.maximal())
            ok(got == nonstrict, "edges.maximal", "nonstrict-wrong", f"maximal() = {got} expected {nonstrict}", "assert:maximal")
            got = set(ev.maximal(strict=True))
            ok(got == strict, "edges.maximal", "strict-wrong", f"maximal(strict=True) = {got} expected {strict}", "assert:maximal")
            # asked again in the order the next state will ask first (a last-result cache keyed on the ID sets would
            # answer the next state's first query from this state's result)
            got = set(ev.maximal())
            ok(got == nonstrict, "edges.maximal", "nonstrict-wrong-on-repeat", f"second maximal() = {got} expected {nonstrict}", "assert:maximal")
            # duplicates: k-1 IDs out of every class of k
            classes = {}
            for e in es:
                classes.setdefault(frozenset(p.mem[e]), []).append(e)
            if any(len(c) > 1 for c in classes.values()):
                mon.note("state:with-duplicates")
            got = list(ev.duplicates())
            cnt = {}
            for e in got:
                cnt[frozenset(p.mem[e])] = cnt.get(frozenset(p.mem[e]), 0) + 1
            ok(len(set(got)) == len(got) and all(cnt.get(fs, 0) == len(c) - 1 for fs, c in classes.items()), "edges.duplicates", "not-k-minus-1", f"duplicates() = {got}; classes {list(classes.values())}", "assert:duplicates")
            nclasses = {}
            for n in ns:
                nclasses.setdefault(frozenset(p.mship[n]), []).append(n)
            got = list(nv.duplicates())
            cnt = {}
            for n in got:
                cnt[frozenset(p.mship[n])] = cnt.get(frozenset(p.mship[n]), 0) + 1
            ok(all(cnt.get(fs, 0) == len(c) - 1 for fs, c in nclasses.items()), "nodes.duplicates", "not-k-minus-1", f"nodes.duplicates() = {got}", "assert:duplicates")
        else:
            ok(list(nv.isolates()) == [n for n in ns if deg[n] == 0], "nodes.isolates", "wrong", "directed isolates() wrong", "assert:filterby")
            ok(list(ev.empty()) == [e for e in es if size[e] == 0], "edges.empty", "wrong", "directed empty() wrong", "assert:filterby")
            ok(ev.head(dtype=dict) == p.head and ev.tail(dtype=dict) == p.tail and ev.members(dtype=dict) == p.mem and ev.sources(dtype=dict) == p.tail and ev.targets(dtype=dict) == p.head
               and ev.dimembers() == [(p.tail[e], p.head[e]) for e in es], "diedges.accessors", "disagree", "head/tail/members/dimembers accessors disagree", "assert:view-order")
        # network-level stat accessor H.degree() == H.nodes.degree.asdict()
        ok(net.degree() == deg and (not ns or net.degree(ns[0]) == deg[ns[0]]), "network.degree()", "wrong", f"net.degree() = {net.degree()}", "assert:stat-forms")
        if es:
            mon.nontrivial((self.cls, tuple(map(repr, ns)), tuple((repr(e), tuple(sorted(map(repr, p.mem[e])))) for e in es)))
        return p


REBUILD = {"merge_duplicate_edges", "cleanup", "convert_labels_to_integers"}


def check_order(bat, op, pre, post, outcome):
    """Insertion-order oracle between two consecutive states."""
    for kind, a, b in (("nodes", pre.nodes, post.nodes), ("edges", pre.edges, post.edges)):
        if op.name == "convert_labels_to_integers" and outcome == "returned":
            bat.ok(b == list(range(len(b))), f"{kind}-order", "relabel-not-sequential", f"after relabelling the {kind} view lists {b}", "assert:view-order")
            continue
        if op.name == "cleanup" and op.kwargs.get("relabel", True):
            continue
        sa, sb = set(a), set(b)
        survivors_a = [x for x in a if x in sb]
        survivors_b = [x for x in b if x in sa]
        if op.name in REBUILD:
            # merged edges are re-inserted: only untouched edges keep their relative order
            if kind == "edges":
                count = {}
                for e in a:
                    count[frozenset(pre.mem[e])] = count.get(frozenset(pre.mem[e]), 0) + 1
                untouched = {e for e in survivors_a if count[frozenset(pre.mem[e])] == 1 and pre.mem[e] == post.mem.get(e) and pre.eattr[e] == post.eattr.get(e)}
                bat.ok([x for x in a if x in untouched] == [x for x in b if x in untouched], f"{kind}-order", "rebuild-reordered-untouched", f"{op.name} reordered untouched {kind}: {a} -> {b}", "assert:view-order")
            else:
                bat.ok(survivors_a == survivors_b, f"{kind}-order", "survivors-reordered", f"{op.name} reordered surviving {kind}: {a} -> {b}", "assert:view-order")
            continue
        bat.ok(survivors_a == survivors_b, f"{kind}-order", "survivors-reordered", f"after {op!r} surviving {kind} changed relative order: {a} -> {b}", "assert:view-order")
        new = [x for x in b if x not in sa]
        bat.ok(b[len(b) - len(new):] == new, f"{kind}-order", "new-ids-not-appended", f"after {op!r} new {kind} {new} are not at the end: {b}", "assert:view-order")
        # (not for complexes: generated faces get automatic IDs that may coincide with the ID of a skipped entry)
        if kind == "edges" and bat.cls != "SimplicialComplex" and op.name == "add_edges_from" and outcome == "returned" and new:
            fmt = [int(t[3:]) for t in op.tags if t.startswith("fmt")]
            if fmt and fmt[0] in (2, 4, 5) and op.kwargs.get("max_order") is None:  # (a cut simplex's ID may be re-used by a face)
                eb = op.args[0]
                req = list(eb) if fmt[0] == 5 else [e[1] for e in eb]
                want = list(req)
                explicit_new = [x for x in new if x in want]
                # only when every requested ID is distinct and was actually created (no skipped / refused entries)
                if len(set(want)) == len(want) and all(i in new for i in want):  # (set(): 1 == True == 1.0 are one ID)
                  bat.ok(explicit_new == want, "edges-order", "bulk-explicit-ids-not-in-request-order", f"after {op!r} new explicit IDs appear as {explicit_new}, requested order {want}", "assert:view-order")


def run_case(mon, kind, idx, rng):
    cls, mode = kind.split(":")
    avoid = set(common.steer_tags(PID)) | {"none-member", "none-node"}
    gen = ops.GENS[cls](rng, hostile=rng.random() < 0.5, avoid=frozenset(avoid))
    net = ops.new_net(cls)
    held = {"nv": net.nodes, "ev": net.edges, "deg": net.nodes.degree, "size": net.edges.size,
            "multi": net.nodes.multi(["degree", "in_degree"] if cls == "DiHypergraph" else ["degree", "average_neighbor_degree"])}
    hist = []
    bat = Battery(mon, net, cls, hist, rng)
    pre = bat.run(held)
    for step in range(rng.randint(2, 14)):
        op = gen.gen(net)
        hist.append(repr(op))
        outcome, val, _ = common.run_op(op, net)
        mon.note(f"op:{op.name}")
        if [b for b in snap.inv(net) if "disagree" not in b and "stat-unobservable" not in b]:
            # incidence tables inconsistent: owned by C01-C03 (clauses about the statistics themselves stay with this check)
            mon.note("episode-ended:invariant-broken (owned by C01-C03)")
            return
        post = bat.run(held)
        if bat.failed:
            return
        check_order(bat, op, pre, post, outcome)
        if bat.failed:
            return
        pre = post
    mon.sample([cls] + hist)
