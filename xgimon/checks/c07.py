"""C07 - copies, pickles and network-to-network constructors are equal and independent (DESIGN §2 C07).

Two-object history monitor: Y is derived from X by copy(), a pickle round trip or the
constructor of X's own class; (1) Y equals X; (2) a random edit history applied to one
side leaves the other side's snapshot bit-identical after every op; (3) for copy(),
in-place mutation of nested attribute values on one side is invisible on the other;
(4) both sides keep assigning fresh automatic edge IDs; (5) a copy of a frozen network is
unfrozen, equal and editable.
"""
import copy
import pickle

from .. import ops, snap
from ..env import xgi
from . import common

PID = "C07"
ANCHORS = ("xgi/core/hypergraph.py", "xgi/core/dihypergraph.py", "xgi/core/simplicialcomplex.py", "xgi/convert/higher_order_network.py")
TECHNIQUE = "runtime monitoring: two-object history monitor (equality, then non-interference after every op on either side)"
RULE = (
    "case = (class, derivation in {copy, pickle, constructor}, seeded source network built by a public-API history incl. tuple / 0 / non-increasing edge IDs, "
    "empty edges, isolated nodes, nested mutable attribute values) + an edit history on a randomly chosen side; one evaluation = one equality or "
    "non-interference assertion. distinct_nontrivial = distinct (class, derivation, source snapshot) with at least one edge"
)
ASSUMPTIONS = [
    "equality is compared on nodes, edges, members (tail/head), node, edge and network attributes as unordered mappings (the statement does not mention order)",
    "nested in-place mutation is only required to be invisible for copy() (as the statement says); for the other derivations only structural edits and top-level attribute sets are driven",
]
CLASSES = ("Hypergraph", "DiHypergraph", "SimplicialComplex")
DERIV = ("copy", "pickle", "ctor")


def plan(tier):
    n = 600 if tier == "quick" else 120000
    return {f"{c}:{d}": n for c in CLASSES for d in DERIV}


def floors(tier):
    f = {f"derived:{c}:{d}": 100 for c in CLASSES for d in DERIV}
    f.update({"assert:equal": 1000, "assert:non-interference": 8000, "assert:nested-independence": 300, "assert:fresh-ids-both-sides": 1000,
              "assert:frozen-copy": 100, "source:tuple-edge-id": 20, "source:empty-edge": 20, "source:isolated-node": 50})
    return f


def nested_value(rng):
    import collections

    import numpy as np

    return rng.choice((
        lambda: [[1, 2], [3]], lambda: {"a": [1], "b": {"c": [2]}}, lambda: [{"k": [0]}],
        # mutable values that are not plain list / dict / set at the top level
        lambda: ([1, 2], {"k": [0]}), lambda: collections.deque([[1], [2]]), lambda: np.array([1.0, 2.0, 3.0]),
        lambda: {"arr": np.zeros(2), "t": ([0],)}, lambda: collections.OrderedDict(a=[1]), lambda: bytearray(b"ab"),
    ))()


def build_source(rng, cls):
    gen = ops.GENS[cls](rng, hostile=False, avoid=frozenset({"none-member", "none-node"}))
    net = ops.new_net(cls)
    hist = []
    for _ in range(rng.randint(1, 10)):
        op = gen.gen(net)
        hist.append(repr(op))
        common.run_op(op, net)
    # hostile IDs and shapes, added through the public API
    pool = gen.npool
    if rng.random() < 0.35 and cls != "SimplicialComplex":
        tid = (rng.randint(0, 3), rng.randint(4, 6))
        ms = ops.rand_members(rng, pool, 1, 3)
        net.add_edge((ms[:1], ms[1:]) if cls == "DiHypergraph" else ms, idx=tid)
        hist.append(f".add_edge(..., idx={tid})")
    if rng.random() < 0.45:
        import numpy as np

        # IDs that compare equal to ints but are not Python ints, ID 0, IDs above the edge count
        i = rng.choice((0, 9, 4, np.int64(7), np.int64(12), 6.0, 11.0, True, np.int32(5)))
        if i not in net.edges:
            ms = ops.rand_members(rng, pool, 2, 3)
            if cls == "SimplicialComplex":
                net.add_simplex(ms, idx=i)
            else:
                net.add_edge((ms[:1], ms[1:]) if cls == "DiHypergraph" else ms, idx=i)
            hist.append(f".add(..., idx={i})")
    if rng.random() < 0.3 and cls != "SimplicialComplex":
        net.add_edge(([], []) if cls == "DiHypergraph" else [])
        hist.append(".add_edge(<empty>)")
    if rng.random() < 0.5:
        net.add_node(ops.node_pool(rng, gen.nkind, 9)[1][-1])
    # nested mutable attribute values on nodes, edges and the network
    for n in list(net.nodes)[:2]:
        net.nodes[n]["nest"] = nested_value(rng)
    for e in list(net.edges)[:2]:
        net.edges[e]["nest"] = nested_value(rng)
    net["nest"] = nested_value(rng)
    net["name"] = "src"
    return net, gen, hist


def derive(X, how):
    if how == "copy":
        return X.copy()
    if how == "pickle":
        return pickle.loads(pickle.dumps(X))
    return type(X)(X)


def mutate_nested(val, rng):
    """Append to the innermost list reachable from val."""
    import collections

    import numpy as np

    v = val
    for _ in range(6):
        if isinstance(v, (list, tuple, collections.deque)) and len(v) and isinstance(v[0], (list, dict, tuple, np.ndarray)):
            v = v[0]
        elif isinstance(v, dict):
            v = v[sorted(v)[-1]]
        else:
            break
    if isinstance(v, (list, collections.deque)):
        v.append(("mutated", rng.randint(0, 9)))
        return True
    if isinstance(v, np.ndarray) and v.size:
        v[0] += 1.5
        return True
    if isinstance(v, bytearray):
        v.append(rng.randint(65, 90))
        return True
    return False


def run_case(mon, kind, idx, rng):
    cls, how = kind.split(":")
    X, gen, hist = build_source(rng, cls)
    if snap.inv(X):
        mon.note("discarded-invalid-start")
        return
    sx = snap.snap(X, order=False)
    if any(isinstance(e, tuple) for e in sx[2]):
        mon.note("source:tuple-edge-id")
    if any(len(snapm(m)) == 0 for m, _ in sx[2].values()):
        mon.note("source:empty-edge")
    memb = sx[3]
    if any(len(snapm(m)) == 0 for m in memb.values()):
        mon.note("source:isolated-node")
    hist.append(f"Y = {how}(X); X = {snap.pretty(X)}")

    def fire(clause, what):
        mon.fail(f"{cls}|{how}|{clause}", f"{cls} {how}: {what}", "history:\n  " + "\n  ".join(hist[-18:]))

    Y = derive(X, how)
    mon.note(f"derived:{cls}:{how}")
    # (1) equality
    mon.ev()
    mon.note("assert:equal")
    sy = snap.snap(Y, order=False)
    if sy != sx or type(Y) is not type(X):
        diff = [i for i in range(5) if sy[i] != sx[i]]
        fire("not-equal", f"derived network differs from the source in {[('class', 'nodes', 'edges', 'memberships', 'net-attrs')[i] for i in diff]}: Y = {snap.pretty(Y)}")
        return
    if snap.inv(Y):
        fire("derived-invalid", f"derived network violates the incidence invariant: {snap.inv(Y)}")
        return
    if sx[2]:
        mon.nontrivial((cls, how, repr(sx)))
    # (5) frozen source -> unfrozen, editable, equal copy
    if how == "copy" and rng.random() < 0.4:
        F = X.copy()
        F.freeze()
        C = F.copy()
        mon.ev()
        mon.note("assert:frozen-copy")
        if C.is_frozen or snap.snap(C, order=False) != sx:
            fire("frozen-copy-wrong", f"copy of a frozen network is frozen={C.is_frozen} or not equal")
            return
        try:
            C.add_node("fresh-node")
        except Exception as exc:
            fire("frozen-copy-not-editable", f"copy of a frozen network rejects an edit: {type(exc).__name__}: {exc}")
            return
    # (3) nested in-place mutation through copy()
    if how == "copy":
        for side, (A, B) in (("source", (X, Y)), ("copy", (Y, X))):
            before = snap.snap(B)
            done = False
            for n in list(A.nodes)[:2]:
                done |= mutate_nested(A.nodes[n].get("nest"), rng)
            for e in list(A.edges)[:2]:
                done |= mutate_nested(A.edges[e].get("nest"), rng)
            done |= mutate_nested(A["nest"], rng)
            mon.ev()
            mon.note("assert:nested-independence")
            if snap.snap(B) != before:
                fire("nested-attribute-shared", f"in-place change of a nested attribute value on the {side} is visible on the other side")
                return
    # (2) independence under an edit history on one side
    side = rng.choice(("source", "derived"))
    A, B = (X, Y) if side == "source" else (Y, X)
    hist.append(f"-- editing the {side} --")
    gen.hostile = False
    for step in range(rng.randint(3, 14)):
        before = snap.snap(B, uid=True)
        op = gen.gen(A)
        hist.append(repr(op))
        outcome, val, _ = common.run_op(op, A)
        mon.note(f"op:{op.name}")
        mon.ev()
        mon.note("assert:non-interference")
        try:
            after = snap.snap(B, uid=True)
        except Exception as exc:
            after = f"<unobservable {type(exc).__name__}>"
        if after != before:
            fire("edit-visible-on-other-side", f"after {op!r} on the {side} the other network changed: {snap.pretty(B)}")
            return
        if snap.inv(A):
            mon.note("episode-ended:invariant-broken (owned by C01-C03)")
            return
    # (4) both keep assigning fresh IDs
    for name, N in (("source", X), ("derived", Y)):
        for _ in range(rng.randint(2, 6)):
            pre = snap.snap(N, order=False)[2]
            pool = list(N.nodes)[:4] or [0, 1]
            ms = ops.rand_members(rng, pool + [pool[0]], 1, 3)
            ms = list(dict.fromkeys(ms))
            if cls == "DiHypergraph":
                N.add_edge((ms[:1], ms))
            elif cls == "SimplicialComplex":
                fresh_node = f"c07-new-{rng.randint(0, 10 ** 9)}" if isinstance(pool[0], str) else 10 ** 6 + rng.randint(0, 10 ** 9)
                N.add_simplex(ms + [fresh_node])
            else:
                N.add_edge(ms)
            post = snap.snap(N, order=False)[2]
            mon.ev()
            mon.note("assert:fresh-ids-both-sides")
            lost = [e for e in pre if e not in post or post[e] != pre[e]]
            new = [e for e in post if e not in pre]
            if lost or not new:
                fire("automatic-id-not-fresh", f"an automatic addition on the {name} side altered existing edges {lost} / created {new}")
                return
    mon.sample([cls, how] + hist[-8:])


def snapm(m):
    if isinstance(m, tuple):
        return m[0] | m[1]
    return m
