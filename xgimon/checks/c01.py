"""C01 - undirected incidence integrity under every edit history (DESIGN §2 C01).

Invariant at the quiescent point, preservation form: after every op of a Hypergraph
history - returning or raising - the two-way incidence, the node/edge reference
integrity and the one-attribute-record rule are evaluated; the monitor fires when the
pre-state satisfied the invariant and the post-state does not.
"""
from .. import ops, snap
from ..env import xgi
from .. import suite
from ..monitor import short
from . import common

PID = "C01"
CLS = "Hypergraph"
ANCHORS = ("xgi/core/hypergraph.py", "xgi/utils/utilities.py", "xgi/algorithms/connected.py")
TECHNIQUE = "runtime monitoring: structural invariant evaluated at the quiescent point after every op of seeded edit histories (preservation form)"
RULE = (
    "case = one seeded edit history (<= 25 ops from the full Hypergraph mutator alphabet incl. in-place library helpers) "
    "from a constructible start state; one evaluation = the invariant checked after one op (returned or raised). "
    "distinct_nontrivial = distinct (op name, outcome, canonical post-state) triples where the op changed the state or raised"
    " | suite: the repository's own tests run under xgimon/suite_plugin.py; every outermost public boundary call on a network is one more evaluation"
)
ASSUMPTIONS = [
    "labels: ints, gapped/negative ints, strings; explicit edge IDs incl. 0, True, 2.0, non-increasing; None and empty members in hostile episodes",
    "node labels of mixed str/non-str type inside one bulk call and tuple node labels are not generated (bulk format detection is documented only for such labels)",
    "internal tables _node_attr/_edge_attr are read for the 'exactly one attribute record' clause (named by the property's anchors)",
]
INV = staticmethod(snap.inv_undirected)


def plan(tier):
    if tier == "quick":
        return {"hostile": 7000, "steered": 3500, "start": 1500, "suite": 1}
    return {"hostile": 500000, "steered": 300000, "start": 100000, "suite": 1}


def floors(tier):
    f = {f"op:{n}": 20 for n in common.op_names(CLS)}
    f.update({"post-raise-evaluations": 50, "outcome:returned": 1000, "changed-state": 500})
    f["suite:evaluations"] = 300  # boundary calls of the repository's own tests observed by the same oracle
    return f


def run_case(mon, kind, idx, rng):
    if kind == "suite":  # the repository's own tests as a workload, observed by xgimon/suite_plugin.py
        return suite.run(mon, PID, mon.tier)
    common.invariant_episode(mon, PID, CLS, snap.inv_undirected, kind, rng)
