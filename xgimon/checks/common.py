"""Shared drivers for the history-based checks (C01, C02, C03, C05, C06, C07, C18)."""
import json
import warnings

import numpy as np
import pandas as pd

from .. import ops, snap
from ..env import xgi
from ..monitor import KNOWN_PATH, short

_ALIAS = {"relabel": "convert_labels_to_integers", "lcc": "largest_connected_hypergraph", "set_net_attr": "__setitem__"}


def op_names(cls):
    out = []
    for n in ops.GENS[cls].NAMES:
        n = _ALIAS.get(n, n)
        if n.startswith("alias_"):
            n = n[len("alias_"):]
        if n not in out:
            out.append(n)
    return out


# trigger tags that name a *hostile* argument shape; only these go into violation keys
# (format / explicit-id / max_order ... describe ordinary use and would only multiply keys)
KEY_TAGS = frozenset({
    "none-member", "none-node", "empty-members", "empty-first", "bad-direction", "not-a-sequence",
    "missing-id", "dup-id", "idx0", "non-member", "tuple-id", "nan-member",
})


def key_tags(op):
    return ",".join(sorted(op.tags & KEY_TAGS))


def steer_tags(pid):
    """Trigger tags that *open* known findings ask steered episodes of `pid` to avoid."""
    try:
        with open(KNOWN_PATH) as f:
            data = json.load(f)
    except FileNotFoundError:
        return frozenset()
    tags = set()
    for ent in data.get("findings", []):
        if ent.get("status") == "open" and pid in ent.get("steer_in", []):
            tags.update(ent.get("steer_tags", []))
    return frozenset(tags)


# ---------------------------------------------------------------------------------
# constructible start states
# ---------------------------------------------------------------------------------
def start_state(rng, cls, gen):
    """A network obtained in one of the ways the library offers, then handed to the history."""
    pool = gen.npool
    edges = [ops.rand_members(rng, pool, 1, 4) for _ in range(rng.randint(0, 6))]
    how = rng.choice(START_KINDS[cls])
    if cls == "Hypergraph":
        if how == "list":
            return how, xgi.Hypergraph(edges)
        if how == "dict":
            ids = rng.sample(gen.epool, min(len(edges), len(gen.epool)))
            return how, xgi.Hypergraph(dict(zip(ids, edges)))
        if how == "dataframe":
            rows = [(n, i) for i, e in enumerate(edges) for n in e]
            if not rows:
                return "list", xgi.Hypergraph(edges)
            return how, xgi.Hypergraph(pd.DataFrame(rows))
        if how == "incidence":
            n, m = rng.randint(1, 5), rng.randint(1, 5)
            M = np.array([[int(rng.random() < 0.5) for _ in range(m)] for _ in range(n)])
            return how, xgi.Hypergraph(M)
        if how == "generator":
            return how, xgi.random_hypergraph(rng.randint(3, 6), [0.3, 0.2], seed=rng.randint(0, 999))
        if how == "copy":
            return how, xgi.Hypergraph(edges).copy()
        if how == "dual":
            return how, xgi.Hypergraph(edges).dual()
        if how == "subhypergraph-copy":
            H = xgi.Hypergraph(edges)
            return how, xgi.subhypergraph(H, nodes=list(H.nodes)[: max(1, len(H.nodes) - 1)]).copy()
        if how == "from-sc":
            return how, xgi.Hypergraph(xgi.SimplicialComplex([e for e in edges if e]))
        if how == "from-dh":
            return how, xgi.Hypergraph(xgi.DiHypergraph([(e[: len(e) // 2], e[len(e) // 2:]) for e in edges]))
    if cls == "DiHypergraph":
        des = [(ops.rand_members(rng, pool, 0, 3), ops.rand_members(rng, pool, 0, 3)) for _ in range(rng.randint(0, 6))]
        if how == "list":
            return how, xgi.DiHypergraph(des)
        if how == "dict":
            ids = rng.sample(gen.epool, min(len(des), len(gen.epool)))
            return how, xgi.DiHypergraph(dict(zip(ids, des)))
        if how == "copy":
            return how, xgi.DiHypergraph(des).copy()
        if how == "generator":
            return how, xgi.random_hypergraph(3, [0.1]) and xgi.DiHypergraph(des)
    if cls == "SimplicialComplex":
        edges = [e for e in edges if e]
        if how == "list":
            return how, xgi.SimplicialComplex(edges)
        if how == "dict":
            ids = rng.sample(gen.epool, min(len(edges), len(gen.epool)))
            return how, xgi.SimplicialComplex(dict(zip(ids, edges)))
        if how == "copy":
            return how, xgi.SimplicialComplex(edges).copy()
        if how == "generator":
            return how, xgi.random_simplicial_complex(rng.randint(3, 6), [0.4, 0.2], seed=rng.randint(0, 999))
        if how == "from-h":
            return how, xgi.SimplicialComplex(xgi.Hypergraph(edges))
    return "empty", ops.new_net(cls)


START_KINDS = {
    "Hypergraph": ("list", "dict", "dataframe", "incidence", "generator", "copy", "dual", "subhypergraph-copy", "from-sc", "from-dh"),
    "DiHypergraph": ("list", "dict", "copy"),
    "SimplicialComplex": ("list", "dict", "copy", "generator", "from-h"),
}


def run_op(op, net):
    """Apply an op at the client boundary; returns (outcome, value_or_exception, warnings)."""
    with warnings.catch_warnings(record=True) as w:
        warnings.simplefilter("always")
        try:
            val = ops.apply(op, net)
            return "returned", val, w
        except Exception as exc:
            return f"raised:{type(exc).__name__}", exc, w


# ---------------------------------------------------------------------------------
# invariant episodes (C01, C02, C03 clause a-d)
# ---------------------------------------------------------------------------------
def invariant_episode(mon, pid, cls, inv, kind, rng, max_ops=25, per_op=None):
    """One history; `inv` evaluated after every op in preservation form.

    per_op(mon, net, op, pre, outcome) -> optional extra per-op postconditions (C03 f-h).
    """
    hostile = kind != "steered"
    avoid = steer_tags(pid) if kind == "steered" else frozenset()
    nkind = None
    if pid == "C01" and kind != "start" and rng.random() < 0.1:
        # tuple node labels (grid coordinates): only through the single-edge API - the bulk formats are documented
        # as ambiguous for iterable labels
        nkind = "tuple"
        avoid = frozenset(avoid | {"fmt1", "fmt2", "fmt3", "fmt4", "fmt5"})
        mon.note("episodes:tuple-node-labels")
    gen = ops.GENS[cls](rng, hostile=hostile, avoid=avoid, nkind=nkind)
    # NaN labels and pickle round trips exclude each other: unpickling gives every table its own NaN object, and NaN
    # is only equal to itself by identity - that is NaN's semantics, not the library's
    gen.nan_ok = pid == "C01" and hostile and rng.random() < 0.5
    roundtrips = not gen.nan_ok
    hist = []
    if kind == "start":
        how, net = start_state(rng, cls, gen)
        hist.append(f"<start:{how}> {snap.pretty(net)}")
        mon.note(f"start:{how}")
        bad = inv(net)
        mon.ev()
        if bad:
            key = f"{cls}.<start:{how}>|{','.join(bad)}"
            mon.fail(key, f"start state obtained via {how} violates the invariant: {bad}", "\n".join(hist))
            return
    else:
        net = ops.new_net(cls)
    n_ops = rng.randint(1, max_ops)
    held = (net.nodes, net.edges)  # views obtained before the edits report the same network
    for step in range(n_ops):
        if roundtrips and rng.random() < 0.04 and not inv(net):
            # the history continues on a pickled / deep-copied / copied network (a constructible start state like any other)
            import copy as _copy
            import pickle as _pickle

            how = rng.choice(("pickle", "deepcopy", "copy"))
            net = _pickle.loads(_pickle.dumps(net)) if how == "pickle" else (_copy.deepcopy(net) if how == "deepcopy" else net.copy())
            hist.append(f"<net = {how}(net)>")
            mon.note(f"history-continues-on:{how}")
            held = (net.nodes, net.edges)
        op = gen.gen(net)
        hist.append(repr(op))
        pre = snap.snap(net) if per_op else None
        try:
            pre_h = repr(snap.snap(net, order=False)) if not per_op else repr(pre)
        except Exception:
            pre_h = None
        outcome, val, _ = run_op(op, net)
        mon.note(f"op:{op.name}")
        mon.note("outcome:" + ("returned" if outcome == "returned" else "raised"))
        mon.note(f"op-outcome:{op.name}:{outcome}")
        bad = inv(net)
        if not bad:
            try:
                if list(held[0]) != list(net.nodes) or list(held[1]) != list(net.edges):
                    bad = ["view-obtained-before-the-edit-reports-another-network"]
            except Exception as exc:
                bad = [f"held-view-unobservable:{type(exc).__name__}"]
        mon.ev()
        if outcome != "returned":
            mon.note("post-raise-evaluations")
        try:
            post_h = repr(snap.snap(net, order=False))
        except Exception:
            post_h = "<unobservable>"
        if post_h != pre_h:
            mon.note("changed-state")
        if post_h != pre_h or outcome != "returned":
            mon.nontrivial((op.name, outcome, post_h))
        if bad:
            key = f"{cls}.{op.name}|{key_tags(op)}|{outcome}|{','.join(bad)}"
            mon.fail(
                key,
                f"after {op!r} ({outcome}) the invariant is violated: {bad}",
                "history:\n  " + "\n  ".join(hist) + f"\nstate: {snap.pretty(net)}",
            )
            return  # every later discrepancy would be a consequence of this one
        if per_op and per_op(mon, net, op, pre, outcome, hist):
            return
    mon.sample(hist)
