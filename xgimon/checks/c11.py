"""C11 - what is written to disk reads back as the same network (DESIGN §2 C11).

C10 through the file system: every case writes into a fresh tempfile.TemporaryDirectory (removed when the case
ends), reads the file(s) back with the library's reader and compares the returned network, clause by clause,
with an observation of the written network taken through the public views (xgimon.oracles_c10).
"""
import os
import tempfile

from .. import oracles_c10 as O
from ..env import xgi

PID = "C11"
ANCHORS = (
    "xgi/readwrite/hif.py",
    "xgi/readwrite/json.py",
    "xgi/readwrite/edgelist.py",
    "xgi/readwrite/bipartite.py",
    "xgi/readwrite/incidence.py",
    "xgi/convert/hif_dict.py",
    "xgi/convert/hypergraph_dict.py",
)
RULE = (
    "case kinds: hif = one seeded network (class = idx mod 3; isolated nodes, empty edges, multi-edges, explicit/automatic int and str IDs, "
    "JSON-representable node/edge/network attributes incl. nested lists/dicts) through write_hif/read_hif x ID casts; hif-collection and json-collection = "
    "1-3 networks as list or dict x collection_name; json = one Hypergraph through write_json/read_json x nodetype/edgetype casts (5% with colliding "
    "string casts: must be refused); edgelist / bipartite = Hypergraph or SimplicialComplex (no empty edges) x 6 delimiters x nodetype/edgetype in "
    "{None, int, str} (x dual); incidence = such a network, or a 1 x m / n x 1 / 1 x 1 one, x 5 single-character delimiters. one evaluation = one "
    "comparison of a re-read network with the written one. distinct_nontrivial = distinct (format, options, written structure) with at least one incidence"
)
ASSUMPTIONS = [
    "labels: int or str without whitespace, '#' or any of the delimiters; attribute names are identifiers; attribute values are what JSON represents faithfully "
    "(str, int, finite float, bool, None, lists, string-keyed dicts) and are compared type-strictly",
    "inputs failing the C01/C02/C03 structural invariant are discarded and counted (invalid-start-state)",
    "write_json/read_json are driven with Hypergraph only (the statement says undirected hypergraphs); text formats with Hypergraph and SimplicialComplex "
    "(the writers list members without direction), never with empty edges (no representation), compared on incidences only: edge-list and matrix files "
    "position for position, bipartite files under the cast labels",
    "a SimplicialComplex read back from an edge list *into a SimplicialComplex* is compared as a family of member sets (add_simplex numbers faces itself)",
    "the reader is always given the delimiter the writer used (None only for whitespace delimiters); the matrix format is not driven with '::' "
    "(the docstrings say 'char' and numpy.loadtxt refuses longer delimiters) nor with 0 x 0 matrices (an empty file)",
    "a collection written from a list is keyed by str(position) when read back (JSON object keys)",
]
TECHNIQUE = "runtime monitoring: write/read round-trip post-condition monitors on files in a temporary directory"
CASE_TIMEOUT = 60

UND = ("Hypergraph", "SimplicialComplex")
DELIMS = (" ", ",", "\t", ";", "|", "::")
DNAME = {" ": "space", ",": "comma", "\t": "tab", ";": "semicolon", "|": "bar", "::": "double-colon"}
SHAPES = ("general", "single-row", "single-column", "single-entry")


QUICK = {"hif": 7500, "hif-collection": 2000, "json": 3500, "json-collection": 1500, "edgelist": 6000, "bipartite": 6000, "incidence": 6000}


def plan(tier):
    return dict(QUICK) if tier == "quick" else {k: 40 * v for k, v in QUICK.items()}


def floors(tier):
    """Quick floors are about half of what seed 0 shows on the current tree (open findings cut the matrix reader short); thorough = 35 x for 40 x the cases."""
    k = 1 if tier == "quick" else 35
    f = {}
    for c in O.CLASSES:
        f[f"read_hif:{c}"] = 1500 * k
    for c in UND:
        f[f"read_edgelist:{c}"] = 1500 * k
        f[f"read_bipartite_edgelist:{c}"] = 1500 * k
        f[f"read_incidence_matrix:{c}"] = 400 * k
    for d in DELIMS:
        f[f"edgelist:delim:{DNAME[d]}"] = 500 * k
        f[f"bipartite:delim:{DNAME[d]}"] = 500 * k
        if len(d) == 1:
            f[f"incidence:delim:{DNAME[d]}"] = 600 * k
    f.update({"incidence:shape:general": 800 * k, "incidence:shape:single-row": 400 * k, "incidence:shape:single-column": 500 * k, "incidence:shape:single-entry": 700 * k})
    for t in ("none-str", "int", "str"):
        f[f"cast:{t}"] = 4000 * k
    f.update({
        "read_json:Hypergraph": 2000 * k, "rejected:colliding-cast": 100 * k, "bipartite:dual": 1200 * k,
        "hif-collection:list": 500 * k, "hif-collection:dict": 500 * k, "json-collection:list": 400 * k, "json-collection:dict": 400 * k,
        "collection:members-read": 3500 * k, "feat:isolated-node": 2000 * k, "feat:empty-edge": 1800 * k, "feat:multi-edge": 3000 * k,
        "feat:explicit-id": 10000 * k, "feat:node-attrs": 5000 * k, "feat:edge-attrs": 7000 * k, "feat:net-attrs": 5000 * k,
        "tempdirs-removed": 30000 * k,
    })
    return f


# -------------------------------------------------------------------------------------
class Ctx:
    def __init__(self, mon, tmp):
        self.mon, self.tmp = mon, tmp

    def source(self, rng, cls, **kw):
        net, info = O.gen_net(rng, cls, json_only=True, **kw)
        if not O.valid(net):
            self.mon.note("invalid-start-state")
            return None
        for f in info["feats"]:
            self.mon.note(f"feat:{f}")
        info["src"] = O.obs(net)
        return net, info

    def witness(self, infos, files=(), extra=""):
        out = []
        for info in infos:
            out.append("construction:\n  " + "\n  ".join(info["hist"]) + f"\nwritten: {info['src'].brief()}")
        for p in files:
            try:
                with open(p, encoding="utf-8") as fh:
                    txt = fh.read()
                out.append(f"file {os.path.basename(p)}:\n{txt if len(txt) < 900 else txt[:900] + '...'}")
            except OSError:
                out.append(f"file {os.path.basename(p)}: <not there>")
        if extra:
            out.append(extra)
        return "\n".join(out)

    def compare(self, reader, trigger, exp, back, clauses, variant, infos, files, count=None):
        mon = self.mon
        got = O.obs(back)
        mon.ev()
        mon.note(count or f"{reader}:{exp.cls if 'class' in clauses else infos[0]['cls']}")
        if exp.inc:
            mon.nontrivial((reader, variant, exp.cls, sorted(map(repr, exp.inc)), len(exp.nodes), len(exp.edges)))
        for clause, detail in O.diff(exp, got, clauses):
            mon.fail(f"{reader}|{trigger}|{clause}", f"{reader} [{variant}]: {clause}: {detail}", self.witness(infos, files, f"read back: {got.brief()}"))

    def guarded(self, name, trigger, fn, variant, infos, files=()):
        try:
            return fn()
        except Exception as exc:
            if O.is_watchdog(exc):
                raise
            self.mon.ev()
            self.mon.fail(f"{name}|{trigger}|raises", f"{name} [{variant}] raised {type(exc).__name__}: {exc}", self.witness(infos, files))
            return None


def _tn(t):
    return getattr(t, "__name__", None)


# ---- HIF ---------------------------------------------------------------------------------
def case_hif(c, idx, rng):
    cls = O.CLASSES[idx % 3]
    s = c.source(rng, cls)
    if s is None:
        return
    net, info = s
    src = info["src"]
    nt, nmap = O.hif_casts(rng, src.nodes, c.mon)
    et, emap = O.hif_casts(rng, src.edges, c.mon)
    if O.collides([nmap(x) for x in src.nodes]) or O.collides([emap(x) for x in src.edges]):
        nt, nmap, et, emap = None, O.ident, None, O.ident
    variant = f"nodetype={_tn(nt)} edgetype={_tn(et)}"
    path = os.path.join(c.tmp, "net.hif.json")
    if c.guarded("write_hif", cls, lambda: (xgi.write_hif(net, path), True)[1], variant, [info]) is None:
        return
    back = c.guarded("read_hif", cls, lambda: xgi.read_hif(path, nodetype=nt, edgetype=et), variant, [info], [path])
    if back is not None:
        c.compare("read_hif", cls, O.expected(src, nmap, emap), back, O.ALL, variant, [info], [path])
    if idx % 100 == 0:
        c.mon.sample(info["hist"])


def _collection(c, rng, classes, same_kinds):
    n = rng.randint(1, 3)
    nk = rng.choice(O.NODE_KINDS) if same_kinds else None
    ek = rng.choice([k for k in O.EID_KINDS if k != "str+auto"]) if same_kinds else None
    nets = []
    for _ in range(n):
        s = c.source(rng, rng.choice(classes), nkind=nk, ekind=ek)
        if s is None:
            return None
        nets.append(s)
    as_dict = rng.random() < 0.5
    names = rng.sample(["alpha", "b2", "net_c", "D", "x"], n) if as_dict else list(range(n))
    cname = rng.choice(("", "coll", "my_data"))
    return nets, as_dict, names, cname


def case_hif_collection(c, idx, rng):
    col = _collection(c, rng, O.CLASSES, False)
    if col is None:
        return
    nets, as_dict, names, cname = col
    infos = [i for _, i in nets]
    kind = "dict" if as_dict else "list"
    c.mon.note(f"hif-collection:{kind}")
    variant = f"{kind} of {len(nets)} collection_name={cname!r}"
    arg = {nm: n for nm, (n, _) in zip(names, nets)} if as_dict else [n for n, _ in nets]
    if c.guarded("write_hif_collection", kind, lambda: (xgi.write_hif_collection(arg, c.tmp, collection_name=cname), True)[1], variant, infos) is None:
        return
    main = os.path.join(c.tmp, f"{cname}_collection_information.json")
    files = [main] + [os.path.join(c.tmp, f"{cname}_{nm}.json") for nm in names]
    back = c.guarded("read_hif_collection", kind, lambda: xgi.read_hif_collection(main), variant, infos, files)
    if back is None:
        return
    _compare_collection(c, "read_hif_collection", kind, back, names, infos, O.ALL, O.ident, O.ident, variant, files)


def _compare_collection(c, reader, kind, back, names, infos, clauses, nmap, emap, variant, files):
    c.mon.ev()
    want = [str(nm) for nm in names]
    if not isinstance(back, dict) or sorted(back) != sorted(want):
        c.mon.fail(f"{reader}|{kind}|members-of-collection", f"{reader} [{variant}]: expected the datasets {want}, got {sorted(back) if isinstance(back, dict) else type(back).__name__}",
                   c.witness(infos, files[:1]))
        return
    for nm, info in zip(want, infos):
        c.mon.note("collection:members-read")
        c.compare(reader, info["cls"], O.expected(info["src"], nmap, emap), back[nm], clauses, variant, [info], [files[0], files[1 + want.index(nm)]], count=f"{reader}:{kind}")


# ---- JSON (standard dict) --------------------------------------------------------------------
def case_json(c, idx, rng):
    if idx % 20 == 7:
        return _json_collide(c, rng)
    s = c.source(rng, "Hypergraph")
    if s is None:
        return
    net, info = s
    src = info["src"]
    nt, nmap = O.casts(rng, src.nodes, c.mon)
    et, emap = O.casts(rng, src.edges, c.mon)
    variant = f"nodetype={_tn(nt)} edgetype={_tn(et)}"
    path = os.path.join(c.tmp, "net.json")
    if c.guarded("write_json", "Hypergraph", lambda: (xgi.write_json(net, path), True)[1], variant, [info]) is None:
        return
    back = c.guarded("read_json", "Hypergraph", lambda: xgi.read_json(path, nodetype=nt, edgetype=et), variant, [info], [path])
    if back is not None:
        c.compare("read_json", "Hypergraph", O.expected(src, nmap, emap), back, O.ALL, variant, [info], [path])


def _json_collide(c, rng):
    net = xgi.Hypergraph()
    k, j = rng.randint(1, 9), rng.randint(0, 5)
    where = rng.choice(("nodes", "edges"))
    if where == "nodes":
        edges, ids = [[k, str(k)], [k + 1, k]], [None, None]
    else:
        edges, ids = [[k, k + 1], [k + 1, k + 2]], [j, str(j)]
    hist = ["Hypergraph()"]
    for m, i in zip(edges, ids):
        net.add_edge(m, idx=i)
        hist.append(f"add_edge({m!r}, idx={i!r})")
    info = {"hist": hist, "src": O.obs(net), "cls": "Hypergraph"}
    path = os.path.join(c.tmp, "net.json")
    c.mon.ev()
    try:
        xgi.write_json(net, path)
    except xgi.exception.XGIError:
        c.mon.note("rejected:colliding-cast")
        c.mon.nontrivial(("json-collide", where, k, j))
        return
    except Exception as exc:
        if O.is_watchdog(exc):
            raise
        c.mon.fail("write_json|colliding-string-casts|raises", f"{type(exc).__name__} instead of the documented XGIError: {exc}", c.witness([info]))
        return
    c.mon.fail("write_json|colliding-string-casts|not-refused", f"IDs with equal string casts ({where}) were written instead of being refused with XGIError", c.witness([info], [path]))


def case_json_collection(c, idx, rng):
    col = _collection(c, rng, ("Hypergraph",), True)
    if col is None:
        return
    nets, as_dict, names, cname = col
    infos = [i for _, i in nets]
    kind = "dict" if as_dict else "list"
    c.mon.note(f"json-collection:{kind}")
    allnodes = [n for i in infos for n in i["src"].nodes]
    alledges = [e for i in infos for e in i["src"].edges]
    nt, nmap = O.casts(rng, allnodes, c.mon)
    et, emap = O.casts(rng, alledges, c.mon)
    variant = f"{kind} of {len(nets)} collection_name={cname!r} nodetype={_tn(nt)} edgetype={_tn(et)}"
    arg = {nm: n for nm, (n, _) in zip(names, nets)} if as_dict else [n for n, _ in nets]
    if c.guarded("write_json", kind, lambda: (xgi.write_json(arg, c.tmp, collection_name=cname), True)[1], variant, infos) is None:
        return
    pre = cname + "_" if cname else ""
    main = os.path.join(c.tmp, f"{pre}collection_information.json")
    files = [main] + [os.path.join(c.tmp, f"{pre}{nm}.json") for nm in names]
    back = c.guarded("read_json", kind, lambda: xgi.read_json(main, nodetype=nt, edgetype=et), variant, infos, files)
    if back is None:
        return
    _compare_collection(c, "read_json", kind, back, names, infos, O.ALL, nmap, emap, variant, files)


# ---- text formats -------------------------------------------------------------------------------
def _text_source(c, idx, rng, **kw):
    cls = UND[idx % 2]
    ekind = rng.choice([k for k in O.EID_KINDS])
    s = c.source(rng, cls, empties=False, ekind=ekind, attrs=rng.random() < 0.3, **kw)
    if s is not None and (O.collides(s[1]["src"].nodes) or O.collides(s[1]["src"].edges)):
        c.mon.note("discarded:labels-collide-as-text")  # e.g. the explicit ID '3' next to the automatic ID 3: outside 'labels that survive the cast'
        return None
    return s


def _delim(rng, idx, pool=DELIMS):
    return pool[(idx // 2) % len(pool)]


def case_edgelist(c, idx, rng):
    s = _text_source(c, idx, rng)
    if s is None:
        return
    net, info = s
    src = info["src"]
    cls = src.cls
    d = _delim(rng, idx)
    c.mon.note(f"edgelist:delim:{DNAME[d]}")
    nt, nmap = O.casts(rng, src.nodes, c.mon)
    rd = None if (d in (" ", "\t") and rng.random() < 0.3) else d
    into = rng.choice((None, "Hypergraph", cls))
    variant = f"delimiter={d!r} read-delimiter={rd!r} nodetype={_tn(nt)} create_using={into}"
    path = os.path.join(c.tmp, "edges.txt")
    wkw = {} if (d == " " and rng.random() < 0.5) else {"delimiter": d}
    if c.guarded("write_edgelist", cls, lambda: (xgi.write_edgelist(net, path, **wkw), True)[1], variant, [info]) is None:
        return
    rkw = {"create_using": getattr(xgi, into)} if into else {}
    back = c.guarded("read_edgelist", cls, lambda: xgi.read_edgelist(path, delimiter=rd, nodetype=nt, **rkw), variant, [info], [path])
    if back is None:
        return
    if into == "SimplicialComplex":
        got = O.obs(back)
        c.mon.ev()
        c.mon.note(f"read_edgelist:{cls}")
        fam_s = {frozenset(map(nmap, m)) for m in src.mem.values()}
        fam_g = set(got.mem.values())
        if fam_s != fam_g or len(got.mem) != len(fam_g):
            c.mon.fail("read_edgelist|SimplicialComplex-into-SimplicialComplex|simplices", f"[{variant}] family of member sets differs: {O._sd(fam_s, fam_g)}",
                       c.witness([info], [path], f"read back: {got.brief()}"))
        return
    epos = {e: i for i, e in enumerate(src.edges)}
    exp = O.expected(src, nmap, epos.__getitem__, cls="Hypergraph")
    c.compare("read_edgelist", cls, exp, back, O.INC, variant, [info], [path], count=f"read_edgelist:{cls}")


def case_bipartite(c, idx, rng):
    s = _text_source(c, idx, rng)
    if s is None:
        return
    net, info = s
    src = info["src"]
    cls = src.cls
    d = _delim(rng, idx)
    c.mon.note(f"bipartite:delim:{DNAME[d]}")
    dual = rng.random() < 0.4
    if dual:
        c.mon.note("bipartite:dual")
    # with dual=True the reader takes column 1 (our nodes) as edge IDs and column 2 (our edge IDs) as node IDs
    first, second = (src.nodes, src.edges)
    t1, m1 = O.casts(rng, first, c.mon)
    t2, m2 = O.casts(rng, second, c.mon)
    kw = {"nodetype": t2, "edgetype": t1} if dual else {"nodetype": t1, "edgetype": t2}
    rd = None if (d in (" ", "\t") and rng.random() < 0.3) else d
    variant = f"delimiter={d!r} read-delimiter={rd!r} nodetype={_tn(kw['nodetype'])} edgetype={_tn(kw['edgetype'])} dual={dual}"
    path = os.path.join(c.tmp, "bip.txt")
    wkw = {} if (d == " " and rng.random() < 0.5) else {"delimiter": d}
    if c.guarded("write_bipartite_edgelist", cls, lambda: (xgi.write_bipartite_edgelist(net, path, **wkw), True)[1], variant, [info]) is None:
        return
    back = c.guarded("read_bipartite_edgelist", cls, lambda: xgi.read_bipartite_edgelist(path, delimiter=rd, dual=dual, **kw), variant, [info], [path])
    if back is None:
        return
    exp = O.expected(src, m1, m2, cls="Hypergraph")
    if dual:
        swapped = {(e, n) for n, e in exp.inc}
        exp.inc, exp.inc2 = swapped, swapped
    c.compare("read_bipartite_edgelist", "dual" if dual else cls, exp, back, O.INC, variant, [info], [path], count=f"read_bipartite_edgelist:{cls}")


def _shaped(c, rng, cls, shape):
    """A network whose incidence matrix has one row and/or one column."""
    nk = rng.choice(O.NODE_KINDS)
    pool = O.node_pool(rng, nk, 5)
    net = getattr(xgi, cls)()
    add = net.add_edge if cls == "Hypergraph" else net.add_simplex
    hist = [f"{cls}()"]
    if shape == "single-row":  # one node, m >= 2 edges
        m = rng.randint(2, 5) if cls == "Hypergraph" else 1
        for _ in range(m):
            mem = [] if (cls == "Hypergraph" and rng.random() < 0.2 and len(net.nodes)) else [pool[0]]
            add(list(mem))
            hist.append(f"add({mem!r})")
        if cls != "Hypergraph":
            shape = "single-entry"
    elif shape == "single-column":  # n >= 2 nodes, one edge
        k = rng.randint(2, 4) if cls == "Hypergraph" else 2
        mem = pool[:k]
        add(list(mem), idx=rng.choice((None, "e0", 3)))
        hist.append(f"add({mem!r})")
        if rng.random() < 0.4:
            net.add_node(pool[4])
            hist.append(f"add_node({pool[4]!r})")
    else:
        add([pool[0]])
        hist.append(f"add({[pool[0]]!r})")
    return net, {"hist": hist, "cls": cls, "feats": set()}, shape


def case_incidence(c, idx, rng):
    cls = UND[idx % 2]
    shape = (SHAPES + ("general", "general"))[(idx // 2) % 6]
    if shape == "general":
        s = c.source(rng, cls, empties=True, min_edges=1, attrs=False)
        if s is None:
            return
        net, info = s
    else:
        net, info, shape = _shaped(c, rng, cls, shape)
        if not O.valid(net):
            c.mon.note("invalid-start-state")
            return
        info["src"] = O.obs(net)
    src = info["src"]
    n, m = len(src.nodes), len(src.edges)
    if n == 0 or m == 0:
        c.mon.note("discarded:empty-matrix")
        return
    if shape == "general":  # name the trigger class by what the file looks like
        shape = "single-entry" if (n, m) == (1, 1) else "single-row" if n == 1 else "single-column" if m == 1 else "general"
    c.mon.note(f"incidence:shape:{shape}")
    d = DELIMS[(idx // 12) % 5]
    c.mon.note(f"incidence:delim:{DNAME[d]}")
    rd = None if (d in (" ", "\t") and rng.random() < 0.3) else d
    variant = f"{n} x {m} delimiter={d!r} read-delimiter={rd!r}"
    path = os.path.join(c.tmp, "inc.txt")
    wkw = {} if (d == " " and rng.random() < 0.5) else {"delimiter": d}
    trig = {"single-entry": "single-row"}.get(shape, shape if shape != "general" else cls)
    if c.guarded("write_incidence_matrix", trig, lambda: (xgi.write_incidence_matrix(net, path, **wkw), True)[1], variant, [info]) is None:
        return
    back = c.guarded("read_incidence_matrix", trig, lambda: xgi.read_incidence_matrix(path, delimiter=rd), variant, [info], [path])
    if back is None:
        return
    npos = {v: i for i, v in enumerate(src.nodes)}
    epos = {e: i for i, e in enumerate(src.edges)}
    exp = O.expected(src, npos.__getitem__, epos.__getitem__, cls="Hypergraph")
    c.compare("read_incidence_matrix", trig, exp, back, O.INC, variant, [info], [path], count=f"read_incidence_matrix:{cls}")


CASES = {
    "hif": case_hif, "hif-collection": case_hif_collection, "json": case_json, "json-collection": case_json_collection,
    "edgelist": case_edgelist, "bipartite": case_bipartite, "incidence": case_incidence,
}


def _tmproot():
    """Where the per-case temporary directories live: $XGIMON_TMPDIR, else a RAM disk when there is one (50 x faster than /tmp here), else the default."""
    for d in (os.environ.get("XGIMON_TMPDIR"), "/dev/shm"):
        if d and os.path.isdir(d) and os.access(d, os.W_OK | os.X_OK):
            return d
    return None


TMPROOT = _tmproot()


def run_case(mon, kind, idx, rng):
    with tempfile.TemporaryDirectory(prefix="xgimon-c11-", dir=TMPROOT) as tmp:
        CASES[kind](Ctx(mon, tmp), idx, rng)
    if not os.path.exists(tmp):
        mon.note("tempdirs-removed")
