"""C11 - what is written to disk reads back as the same network (DESIGN §2 C11).

C10 through the file system: every case writes into a fresh tempfile.TemporaryDirectory (removed when the case
ends), reads the file(s) back with the library's reader and compares the returned network, clause by clause,
with an observation of the written network taken through the public views (xgimon.oracles_c10).
"""
import os
import tempfile

from .. import oracles_c10 as O
from ..env import xgi

PID = "C11"
ANCHORS = (
    "xgi/readwrite/hif.py",
    "xgi/readwrite/json.py",
    "xgi/readwrite/edgelist.py",
    "xgi/readwrite/bipartite.py",
    "xgi/readwrite/incidence.py",
    "xgi/convert/hif_dict.py",
    "xgi/convert/hypergraph_dict.py",
)
RULE = (
    "case kinds: hif = seeded networks (class = idx mod 3; isolated nodes, empty edges, multi-edges, explicit/automatic int, str and non-ASCII IDs, "
    "JSON-representable node/edge/network attributes incl. nested lists/dicts) through write_hif/read_hif x ID casts; hif-collection and json-collection = "
    "1-3 networks as list or dict x collection_name (20 % with one object under two names); json = Hypergraphs through write_json/read_json x nodetype/edgetype "
    "casts (5 % with colliding string casts: must be refused); edgelist / bipartite = Hypergraph or SimplicialComplex (no empty edges) x 6 delimiters x "
    "nodetype/edgetype in {None, int, str} (x dual) x encoding in {omitted, utf-8, latin-1, cp1252} (same on both sides; 20-45 % of the label families non-ASCII; "
    "30 % 'odd' string labels: inner blanks/tabs/no-break space under non-whitespace delimiters, the other delimiters, quotes, '%', number look-alikes, empty string) "
    "x comments in {omitted, '#', '%', '//', None} (labels containing '#' only under the last three) x create_using in {omitted, class, instance}; incidence = such "
    "a network, or a 1 x m / n x 1 / 1 x 1 one, x 5 single-character delimiters x the same encoding/comments/create_using options. EVERY case is a session on "
    "one path: write A, read, compare; in 35 % deface the returned network and read the same file again; then write a different network B (same class and label "
    "family) to the same path, read, compare with B. one evaluation = one comparison of a re-read network with the written one. "
    "distinct_nontrivial = distinct (format, step, options, written structure) with at least one incidence"
)
ASSUMPTIONS = [
    "labels of the text formats: int or str; a str label never contains the delimiter in use nor the comment token in use ('#' unless the reader is given another one), "
    "has no leading/trailing whitespace (the readers strip every line), contains no whitespace at all when the reader splits on whitespace (delimiter=None), is not the "
    "empty string when the delimiter is a blank or a tab, does not begin or end with a character of a multi-character delimiter, and every character is representable in the "
    "encoding in use; inside these bounds (established on the unchanged tree) inner blanks, tabs, no-break spaces, the other delimiters, quotes, '%', number look-alikes "
    "('007', '1e3', '-0') and the empty string are driven; unicode whitespace outside latin-1 and control characters (\\r, \\x0b ...) are not; attribute names are identifiers; attribute values are what JSON represents faithfully (str, int, finite float, bool, None, lists, string-keyed "
    "dicts) and are compared type-strictly",
    "attribute names: identifiers passed as keyword arguments, plus (35 % of the networks) parameter names of the functions involved ('node', 'members', 'idx', 'edge', 'attr', 'self', 'data', "
    "'nodes', 'edges', 'name', 'values'), non-identifiers ('my key', 'a-b', '', '1') and HIF/JSON field names ('attrs', 'incidences', 'network-type', 'metadata', ...), applied only through "
    "set_*_attributes(dict of dicts) / net.nodes[n][k] = v / net[k] = v. Excluded because the unchanged tree cannot carry them (probed for every name x place x class x format): 'node'/'self' on an "
    "isolated node and 'members'/'idx'/'self' on an empty edge for HIF (the reader creates those with add_node(n, **attrs) / add_edge(members, idx, **attrs)) - never generated, and an in-place edit "
    "that would produce one is not written; 'node'/'self' on any node for write_json/read_json (from_hypergraph_dict creates every node with add_node(n, **attrs)) - never generated there",
    "inputs failing the C01/C02/C03 structural invariant are discarded and counted (invalid-start-state)",
    "write_json/read_json are driven with Hypergraph only (the statement says undirected hypergraphs); text formats with Hypergraph and SimplicialComplex "
    "(the writers list members without direction), never with empty edges (no representation), compared on incidences only: edge-list and matrix files "
    "position for position, bipartite files under the cast labels",
    "a SimplicialComplex read back from an edge list *into a SimplicialComplex* is compared as a family of member sets (add_simplex numbers faces itself)",
    "the reader is always given the delimiter, encoding and comment token the writer's file needs (delimiter None only for whitespace delimiters); the matrix format "
    "is not driven with '::' (the docstrings say 'char' and numpy.loadtxt refuses longer delimiters) nor with 0 x 0 matrices (an empty file)",
    "create_using is only ever a Hypergraph class or a fresh empty instance for the bipartite and matrix readers (they build with add_node_to_edge), any of the two "
    "undirected classes for the edge-list reader",
    "a collection written from a list is keyed by str(position) when read back (JSON object keys); a rewritten collection reuses container kind, names and collection_name",
    "the sequence write-read-write-read on one path within one process is part of 'what is written reads back': the second read must show the second network",
]
TECHNIQUE = "runtime monitoring: write/read round-trip post-condition monitors on files in a temporary directory"
CASE_TIMEOUT = 60

UND = ("Hypergraph", "SimplicialComplex")
DELIMS = (" ", ",", "\t", ";", "|", "::")
DNAME = {" ": "space", ",": "comma", "\t": "tab", ";": "semicolon", "|": "bar", "::": "double-colon"}
SHAPES = ("general", "single-row", "single-column", "single-entry")
ENCODINGS = (None, "utf-8", "latin-1", "cp1252")   # None = the parameter is left out (documented default utf-8)
COMMENTS = ("default", "#", "%", "//", None)        # "default" = the parameter is left out (documented default '#')


QUICK = {"hif": 4800, "hif-collection": 1150, "json": 2200, "json-collection": 900, "edgelist": 3500, "bipartite": 3500, "incidence": 3500}


def plan(tier):
    return dict(QUICK) if tier == "quick" else {k: 40 * v for k, v in QUICK.items()}


def floors(tier):
    """Quick floors are 50-60 % of what seed 0 shows on a tree without open findings; thorough = 35 x for 40 x the cases."""
    k = 1 if tier == "quick" else 35
    f = {}
    for c in O.CLASSES:
        f[f"read_hif:{c}"] = 2500 * k
    for c in UND:
        f[f"read_edgelist:{c}"] = 2800 * k
        f[f"read_bipartite_edgelist:{c}"] = 2800 * k
        f[f"read_incidence_matrix:{c}"] = 2800 * k
    for d in DELIMS:
        f[f"edgelist:delim:{DNAME[d]}"] = 400 * k
        f[f"bipartite:delim:{DNAME[d]}"] = 400 * k
        if len(d) == 1:
            f[f"incidence:delim:{DNAME[d]}"] = 500 * k
    for fmt in ("edgelist", "bipartite", "incidence"):
        for e in ENCODINGS:
            f[f"{fmt}:encoding:{e}"] = 600 * k
        for cm in COMMENTS:
            f[f"{fmt}:comments:{cm}"] = 450 * k
    f.update({"incidence:shape:general": 900 * k, "incidence:shape:single-row": 300 * k, "incidence:shape:single-column": 500 * k, "incidence:shape:single-entry": 700 * k})
    f.update({"cast:none-str": 4000 * k, "cast:int": 2400 * k, "cast:str": 4000 * k})
    for r, n, m, e in (("read_hif", 1000, 1800, 1000), ("read_hif_collection", 250, 450, 200), ("read_json", 650, 1100, 600), ("read_edgelist", 800, 1300, 700),
                       ("read_bipartite_edgelist", 800, 1300, 700), ("read_incidence_matrix", 800, 950, 700)):
        f[f"reread:{r}"] = n * k
        f[f"rewrite:{r}:distinct"] = m * k
        f[f"rewrite:{r}:same-object-edited"] = e * k
    f.update({
        "read_json:Hypergraph": 3500 * k, "rejected:colliding-cast": 100 * k, "bipartite:dual": 1000 * k,
        "hif-collection:list": 400 * k, "hif-collection:dict": 400 * k, "json-collection:list": 300 * k, "json-collection:dict": 300 * k,
        "collection:members-read": 6000 * k, "collection:repeated-member": 350 * k, "feat:isolated-node": 3200 * k, "feat:empty-edge": 3200 * k,
        "feat:multi-edge": 5000 * k, "feat:explicit-id": 19000 * k, "feat:node-attrs": 9000 * k, "feat:edge-attrs": 12000 * k, "feat:net-attrs": 8000 * k,
        "text:odd-labels:edgelist": 600 * k, "text:odd-labels:bipartite": 900 * k,
        "text:inner-whitespace-in-labels:edgelist:non-blank-delimiter": 280 * k, "text:inner-whitespace-in-labels:bipartite:non-blank-delimiter": 500 * k,
        "text:empty-string-label:edgelist": 80 * k, "text:empty-string-label:bipartite": 80 * k,
        "text:other-delimiter-in-labels:edgelist": 400 * k, "text:other-delimiter-in-labels:bipartite": 700 * k,
        "text:non-ascii-labels": 2800 * k, "text:non-ascii-labels-in-single-byte-encoding": 1200 * k, "text:hash-in-labels": 800 * k,
    })
    # the numbers above are 50-70 % of what seed 0 shows; a further factor keeps every floor at or below half of any seed's count
    f = {name: int(v * 0.52) for name, v in f.items()}
    f.update({"feat:wild-attr-names": 4000 * k, "feat:node-attr-named-like-add_node-parameter": 200 * k, "feat:edge-attr-named-like-add_edge-parameter": 450 * k})
    f["tempdirs-removed"] = sum(plan(tier).values())  # exact by construction: one directory per case, gone when the case ends
    return f


# -------------------------------------------------------------------------------------
REWRITTEN = "rewritten-path"                          # a different network written to a path that was written and read before
REREAD = "read-again-after-first-result-changed"      # the same file read twice, the first result defaced in between
EDITED = "same-object-written-again-after-in-place-edit"  # ... and the network written the second time is the first one, edited through the public API
SECOND = (REWRITTEN, REREAD, EDITED)


class Ctx:
    def __init__(self, mon, tmp):
        self.mon, self.tmp = mon, tmp
        self.collecting = None  # list: monitor firings are held back (to be attributed after a control experiment)
        self.fired = 0

    def fail(self, key, what, wit):
        if self.collecting is not None:
            self.collecting.append((key, what, wit))
        else:
            self.fired += 1
            self.mon.fail(key, what, wit)

    def source(self, rng, cls, **kw):
        net, info = O.gen_net(rng, cls, json_only=True, **kw)
        if not O.valid(net):
            self.mon.note("invalid-start-state")
            return None
        for f in info["feats"]:
            self.mon.note(f"feat:{f}")
        info["src"] = O.obs(net)
        return net, info

    def pair(self, rng, cls, **kw):
        """Two networks of one class and one label family: the second one is written over the first."""
        a = self.source(rng, cls, **kw)
        if a is None:
            return None
        kw = dict(kw, nkind=a[1]["nkind"], ekind=a[1]["ekind"])
        b = self.source(rng, cls, **kw)
        if b is None:
            return None
        return a, b

    def witness(self, infos, files=(), extra=""):
        out = []
        for info in infos:
            out.append("construction:\n  " + "\n  ".join(info["hist"]) + f"\nwritten: {info['src'].brief()}")
        for p in files:
            try:
                with open(p, encoding="utf-8", errors="replace") as fh:
                    txt = fh.read()
                out.append(f"file {os.path.basename(p)} (shown as utf-8):\n{txt if len(txt) < 900 else txt[:900] + '...'}")
            except OSError:
                out.append(f"file {os.path.basename(p)}: <not there>")
        if extra:
            out.append(extra)
        return "\n".join(out)

    def compare(self, reader, trigger, exp, back, clauses, variant, infos, files, count=None, stale=None):
        """stale: what the path held before it was rewritten - a second read that shows exactly that is reported under one clause."""
        mon = self.mon
        got = O.obs(back)
        mon.ev()
        mon.note(count or f"{reader}:{exp.cls if 'class' in clauses else infos[0]['cls']}")
        if exp.inc:
            mon.nontrivial((reader, trigger in SECOND and trigger, variant, exp.cls, sorted(map(repr, exp.inc)), len(exp.nodes), len(exp.edges)))
        d = O.diff(exp, got, clauses)
        if d and stale is not None and not O.diff(stale, got, clauses):
            self.fail(f"{reader}|{trigger}|stale-result", f"{reader} [{variant}]: the read after rewriting the path returned the network written there before: {d[0][0]}: {d[0][1]}",
                     self.witness(infos, files, f"read back: {got.brief()}"))
            return
        for clause, detail in d:
            self.fail(f"{reader}|{trigger}|{clause}", f"{reader} [{variant}]: {clause}: {detail}", self.witness(infos, files, f"read back: {got.brief()}"))

    def guarded(self, name, trigger, fn, variant, infos, files=()):
        try:
            return fn()
        except Exception as exc:
            if O.is_watchdog(exc):
                raise
            self.mon.ev()
            self.fail(f"{name}|{trigger}|raises", f"{name} [{variant}] raised {type(exc).__name__}: {exc}", self.witness(infos, files() if callable(files) else files))
            return None

    def session(self, rng, writer, reader, trigger, a, b, write, read, check, variant, files, differs, relocate, usable=None):
        """write(A) read  [deface the result, read again]  write(B) to the same path, read.

        write(item) / read() call the library on the case's current location; check(back, item, trigger, stale_item) compares; files() lists
        the current location's files; relocate() moves the location to a fresh, never used path.  `a`, `b` are whatever the case writes
        (a (net, info) pair or a collection).  The session ends at the first step that fires.  A firing of the rewrite step is attributed by a
        control experiment: B written to and read from a fresh path - if that fails as well, B does not survive the format on its own and
        the control's firings are reported under the ordinary trigger class instead."""
        infos_a, infos_b = _infos(a), _infos(b)
        a_before = _frozen(a)

        def step(item, infos, trig, stale, do_write=True):
            if do_write and self.guarded(writer, trig, lambda: (write(item), True)[1], variant, infos) is None:
                return
            back = self.guarded(reader, trig, read, variant, infos, files)
            if back is not None:
                check(back, item, trig, stale)
            return back

        back = step(a, infos_a, trigger, None)
        if self.fired or back is None:
            return
        if rng.random() < 0.35:
            try:
                for x in (back.values() if isinstance(back, dict) else [back]):
                    O.scribble(x)
                ok = True
            except Exception as exc:
                if O.is_watchdog(exc):
                    raise
                ok = False
            if ok:
                self.mon.note(f"reread:{reader}")
                step(a, infos_a, REREAD, None, do_write=False)  # the same file passed a moment ago: whatever fires now is about reading twice
                if self.fired:
                    return
        trig2 = REWRITTEN
        if b is None or rng.random() < 0.4:
            # the second network is the first *object*, edited in place since it was written (no label it did not have before)
            b = _edit_in_place(rng, a, usable)
            if b is None:
                self.mon.note("rewrite:in-place-edit-not-usable")
                return
            infos_b, differs, trig2 = _infos(b), True, EDITED
            variant += " [second write: the same object, edited in place]"
        self.mon.note(f"rewrite:{reader}:" + ("same-object-edited" if trig2 == EDITED else "distinct" if differs else "same-content"))
        self.collecting = held = []
        step(b, infos_b, trig2, a_before)
        if held:
            # control: an equal network that was never written before, to a path that was never used before
            self.collecting = control = []
            fresh = _rebuilt(b)
            if fresh is not None:
                relocate()
                step(fresh, infos_b, trigger, None)
                held = control or held
                self.mon.note("rewrite:control-experiments")
        self.collecting = None
        for key, what, wit in held:
            self.fail(key, what, wit)


def _is_single(item):
    return isinstance(item, tuple)


def _frozen(item):
    """What `item` looked like now (its infos hold observations, which do not change when the networks are edited later)."""
    if _is_single(item):
        return (item[0], dict(item[1]))
    return dict(item, nets=[(n, dict(i)) for n, i in item["nets"]])


def _edit_in_place(rng, item, usable=None):
    nets = [item] if _is_single(item) else item["nets"]
    out, seen = [], {}
    for net, info in nets:
        if id(net) in seen:  # one object under two names: edited once
            out.append((net, seen[id(net)]))
            continue
        calls = O.mutate(rng, net, new_labels=False)
        if not calls or not O.valid(net) or (usable is not None and not usable(net)):
            return None
        new = dict(info, hist=info["hist"] + ["-- written and read back once; then, in place:"] + calls, src=O.obs(net))
        if new["src"].brief() == info["src"].brief() or not new["src"].nodes or not new["src"].edges:
            return None
        seen[id(net)] = new
        out.append((net, new))
    return out[0] if _is_single(item) else dict(item, nets=out)


def _rebuilt(item):
    nets = [item] if _is_single(item) else item["nets"]
    out = []
    for net, info in nets:
        new = O.rebuild(net)
        if new is None:
            return None
        out.append((new, info))
    if _is_single(item):
        return out[0]
    arg = {nm: n for nm, (n, _) in zip(item["names"], out)} if item["as_dict"] else [n for n, _ in out]
    return dict(item, nets=out, arg=arg)


class Loc:
    """Where a case writes: <dir>/<name>.  relocate() moves to a fresh, never used directory (control experiment)."""

    def __init__(self, tmp, name):
        self.tmp, self.dir, self.name, self.n = tmp, tmp, name, 0

    @property
    def path(self):
        return os.path.join(self.dir, self.name)

    def relocate(self):
        self.n += 1
        self.dir = os.path.join(self.tmp, f"control{self.n}")
        os.makedirs(self.dir)


def _infos(item):
    if item is None:
        return []
    if isinstance(item, tuple) and isinstance(item[1], dict) and "hist" in item[1]:
        return [item[1]]
    return [i for _, i in item["nets"]]


def _tn(t):
    return getattr(t, "__name__", None)


def _hif_usable(net):
    """An in-place edit may isolate a node / empty an edge whose attribute is named like a parameter of add_node / add_edge: the HIF reader of
    the unchanged tree cannot take that (see oracles_c10.NODE_KW), so such an edited network is not written."""
    return not O.hif_unsupported(net)


def _differ(ia, ib):
    return ia["src"].brief() != ib["src"].brief()


# ---- HIF ---------------------------------------------------------------------------------
def case_hif(c, idx, rng):
    cls = O.CLASSES[idx % 3]
    ab = c.pair(rng, cls)
    if ab is None:
        return
    a, b = ab
    nodes = a[1]["src"].nodes + b[1]["src"].nodes
    edges = a[1]["src"].edges + b[1]["src"].edges
    nt, nmap = O.hif_casts(rng, nodes, c.mon)
    et, emap = O.hif_casts(rng, edges, c.mon)
    if any(O.collides([nmap(x) for x in i["src"].nodes]) or O.collides([emap(x) for x in i["src"].edges]) for i in (a[1], b[1])):
        nt, nmap, et, emap = None, O.ident, None, O.ident
    variant = f"nodetype={_tn(nt)} edgetype={_tn(et)}"
    loc = Loc(c.tmp, "net.hif.json")

    def check(back, item, trig, stale):
        c.compare("read_hif", cls if trig == cls else trig, O.expected(item[1]["src"], nmap, emap), back, O.ALL, variant, [item[1]], [loc.path],
                  stale=O.expected(stale[1]["src"], nmap, emap) if stale else None)

    c.session(rng, "write_hif", "read_hif", cls, a, b, lambda it: xgi.write_hif(it[0], loc.path), lambda: xgi.read_hif(loc.path, nodetype=nt, edgetype=et),
              check, variant, lambda: [loc.path], _differ(a[1], b[1]), loc.relocate, usable=_hif_usable)
    if idx % 100 == 0:
        c.mon.sample(a[1]["hist"])


def _collection(c, rng, classes, same_kinds, like=None, **kw):
    """like: a collection whose paths (container kind, names, collection_name) and label family the new one reuses."""
    n = len(like["nets"]) if like else rng.randint(1, 3)
    nk = like["nk"] if like else (rng.choice(O.NODE_KINDS) if same_kinds else None)
    ek = like["ek"] if like else (rng.choice([k for k in O.EID_KINDS if k != "str+auto"]) if same_kinds else None)
    nets = []
    for _ in range(n):
        s = c.source(rng, rng.choice(classes), nkind=nk, ekind=ek, **kw)
        if s is None:
            return None
        nets.append(s)
    if n >= 2 and rng.random() < 0.2:  # the same object under two names / positions
        nets[1] = nets[0]
        c.mon.note("collection:repeated-member")
    if like:
        as_dict, names, cname = like["as_dict"], like["names"], like["cname"]
    else:
        as_dict = rng.random() < 0.5
        names = rng.sample(["alpha", "b2", "net_c", "D", "x"], n) if as_dict else list(range(n))
        cname = rng.choice(("", "coll", "my_data"))
    arg = {nm: net for nm, (net, _) in zip(names, nets)} if as_dict else [net for net, _ in nets]
    return {"nets": nets, "as_dict": as_dict, "names": names, "cname": cname, "nk": nk, "ek": ek, "arg": arg, "kind": "dict" if as_dict else "list"}


def _coll_differs(a, b):
    return any(_differ(x[1], y[1]) for x, y in zip(a["nets"], b["nets"]))


def case_hif_collection(c, idx, rng):
    a = _collection(c, rng, O.CLASSES, False)
    if a is None:
        return
    b = _collection(c, rng, O.CLASSES, False, like=a)
    kind, cname, names = a["kind"], a["cname"], a["names"]
    c.mon.note(f"hif-collection:{kind}")
    variant = f"{kind} of {len(names)} collection_name={cname!r}"
    loc = Loc(c.tmp, f"{cname}_collection_information.json")

    def files():
        return [loc.path] + [os.path.join(loc.dir, f"{cname}_{nm}.json") for nm in names]

    def check(back, item, trig, stale):
        _compare_collection(c, "read_hif_collection", kind, trig, back, names, _infos(item), O.ALL, O.ident, O.ident, variant, files(), _infos(stale))

    c.session(rng, "write_hif_collection", "read_hif_collection", kind, a, b, lambda it: xgi.write_hif_collection(it["arg"], loc.dir, collection_name=cname),
              lambda: xgi.read_hif_collection(loc.path), check, variant, files, b is not None and _coll_differs(a, b), loc.relocate, usable=_hif_usable)


def _compare_collection(c, reader, kind, trig, back, names, infos, clauses, nmap, emap, variant, files, stale_infos):
    c.mon.ev()
    want = [str(nm) for nm in names]
    second = trig in SECOND
    if not isinstance(back, dict) or sorted(back) != sorted(want):
        c.fail(f"{reader}|{trig if second else kind}|members-of-collection", f"{reader} [{variant}]: expected the datasets {want}, got {sorted(back) if isinstance(back, dict) else type(back).__name__}",
                   c.witness(infos, files[:1]))
        return
    for k, (nm, info) in enumerate(zip(want, infos)):
        c.mon.note("collection:members-read")
        stale = O.expected(stale_infos[k]["src"], nmap, emap) if stale_infos else None
        c.compare(reader, trig if second else info["cls"], O.expected(info["src"], nmap, emap), back[nm], clauses, variant, [info], [files[0], files[1 + k]],
                  count=f"{reader}:{kind}", stale=stale)


# ---- JSON (standard dict) --------------------------------------------------------------------
def case_json(c, idx, rng):
    if idx % 20 == 7:
        return _json_collide(c, rng)
    ab = c.pair(rng, "Hypergraph", avoid_node_names=O.NODE_KW)
    if ab is None:
        return
    a, b = ab
    nt, nmap = O.casts(rng, a[1]["src"].nodes + b[1]["src"].nodes, c.mon)
    et, emap = O.casts(rng, a[1]["src"].edges + b[1]["src"].edges, c.mon)
    variant = f"nodetype={_tn(nt)} edgetype={_tn(et)}"
    loc = Loc(c.tmp, "net.json")

    def check(back, item, trig, stale):
        c.compare("read_json", trig, O.expected(item[1]["src"], nmap, emap), back, O.ALL, variant, [item[1]], [loc.path],
                  stale=O.expected(stale[1]["src"], nmap, emap) if stale else None)

    c.session(rng, "write_json", "read_json", "Hypergraph", a, b, lambda it: xgi.write_json(it[0], loc.path), lambda: xgi.read_json(loc.path, nodetype=nt, edgetype=et),
              check, variant, lambda: [loc.path], _differ(a[1], b[1]), loc.relocate)


def _json_collide(c, rng):
    net = xgi.Hypergraph()
    k, j = rng.randint(1, 9), rng.randint(0, 5)
    where = rng.choice(("nodes", "edges"))
    if where == "nodes":
        edges, ids = [[k, str(k)], [k + 1, k]], [None, None]
    else:
        edges, ids = [[k, k + 1], [k + 1, k + 2]], [j, str(j)]
    hist = ["Hypergraph()"]
    for m, i in zip(edges, ids):
        net.add_edge(m, idx=i)
        hist.append(f"add_edge({m!r}, idx={i!r})")
    info = {"hist": hist, "src": O.obs(net), "cls": "Hypergraph"}
    path = os.path.join(c.tmp, "net.json")
    c.mon.ev()
    try:
        xgi.write_json(net, path)
    except xgi.exception.XGIError:
        c.mon.note("rejected:colliding-cast")
        c.mon.nontrivial(("json-collide", where, k, j))
        return
    except Exception as exc:
        if O.is_watchdog(exc):
            raise
        c.mon.fail("write_json|colliding-string-casts|raises", f"{type(exc).__name__} instead of the documented XGIError: {exc}", c.witness([info]))
        return
    c.mon.fail("write_json|colliding-string-casts|not-refused", f"IDs with equal string casts ({where}) were written instead of being refused with XGIError", c.witness([info], [path]))


def case_json_collection(c, idx, rng):
    a = _collection(c, rng, ("Hypergraph",), True, avoid_node_names=O.NODE_KW)
    if a is None:
        return
    b = _collection(c, rng, ("Hypergraph",), True, like=a, avoid_node_names=O.NODE_KW)
    kind, cname, names = a["kind"], a["cname"], a["names"]
    c.mon.note(f"json-collection:{kind}")
    both = _infos(a) + _infos(b)
    nt, nmap = O.casts(rng, [n for i in both for n in i["src"].nodes], c.mon)
    et, emap = O.casts(rng, [e for i in both for e in i["src"].edges], c.mon)
    variant = f"{kind} of {len(names)} collection_name={cname!r} nodetype={_tn(nt)} edgetype={_tn(et)}"
    pre = cname + "_" if cname else ""
    loc = Loc(c.tmp, f"{pre}collection_information.json")

    def files():
        return [loc.path] + [os.path.join(loc.dir, f"{pre}{nm}.json") for nm in names]

    def check(back, item, trig, stale):
        _compare_collection(c, "read_json", kind, trig, back, names, _infos(item), O.ALL, nmap, emap, variant, files(), _infos(stale))

    c.session(rng, "write_json", "read_json", kind, a, b, lambda it: xgi.write_json(it["arg"], loc.dir, collection_name=cname),
              lambda: xgi.read_json(loc.path, nodetype=nt, edgetype=et), check, variant, files, b is not None and _coll_differs(a, b), loc.relocate)


# ---- text formats -------------------------------------------------------------------------------


def _text_options(c, rng, fmt):
    enc = rng.choice(ENCODINGS)
    cm = rng.choice(COMMENTS)
    c.mon.note(f"{fmt}:encoding:{enc}")
    c.mon.note(f"{fmt}:comments:{cm}")
    ekw = {} if enc is None else {"encoding": enc}
    ckw = {} if cm == "default" else {"comments": cm}
    return enc, cm, ekw, ckw


def _label_ok(d, rd, cm):
    """Which string labels a text file written with delimiter d and read with (rd, comments=cm) can carry, as established on the unchanged
    tree: the delimiter and the comment token must not occur in the label; the readers strip each line, so no leading/trailing whitespace; a
    whitespace-splitting read (rd None) carries no whitespace at all; the empty label needs a non-whitespace delimiter (a leading/trailing
    whitespace delimiter is stripped with the line); with a multi-character delimiter a label must not begin or end with one of its characters
    ('a:' + '::' + 'b' is ambiguous)."""
    tok = "#" if cm in ("default", "#") else cm

    def ok(x):
        s = str(x)
        if d in s or (tok is not None and tok in s) or s != s.strip():
            return False
        if rd is None and (s == "" or any(ch.isspace() for ch in s)):
            return False
        if s == "" and d.strip() == "":
            return False
        if len(d) > 1 and s and (s[0] in d or s[-1] in d):
            return False
        return True

    return ok


def _text_pair(c, idx, rng, fmt, cm, enc, d, rd, **kw):
    """Two networks for one text file.  Label families: 30 % 'odd' strings (inner blanks / tabs / no-break space, number look-alikes, the other
    delimiters, quotes, '%', one-character and empty labels - filtered by _label_ok for the delimiter and comment token in use), labels containing
    '#' where the reader is told another comment token, 20-25 % non-ASCII (all representable in latin-1 / cp1252 / utf-8), else int / str / digit strings."""
    cls = UND[idx % 2]
    plain = [k for k in O.NODE_KINDS if k != "odd"]
    r = rng.random()
    if r < 0.3:
        nkind = "odd"
    elif cm in ("%", "//", None) and r < 0.42:
        nkind = "hash"
    elif r < 0.62:
        nkind = "latin"
    else:
        nkind = rng.choice(plain)
    r = rng.random()
    ekind = "odd" if r < 0.25 else "latin" if r < 0.45 else rng.choice([k for k in O.EID_KINDS if k != "odd"])
    ab = c.pair(rng, cls, empties=False, nkind=nkind, ekind=ekind, attrs=rng.random() < 0.3, label_ok=_label_ok(d, rd, cm), **kw)
    if ab is None:
        return None
    for _, i in ab:
        if O.collides(i["src"].nodes) or O.collides(i["src"].edges):
            c.mon.note("discarded:labels-collide-as-text")  # e.g. the explicit ID '3' next to the automatic ID 3: outside 'labels that survive the cast'
            return None
    carried = [str(x) for _, i in ab for x in (i["src"].nodes + (i["src"].edges if fmt == "bipartite" else []))]
    if any(not x.isascii() for x in carried):
        c.mon.note("text:non-ascii-labels")
        if enc in ("latin-1", "cp1252"):
            c.mon.note("text:non-ascii-labels-in-single-byte-encoding")
    if any("#" in x for x in carried):
        c.mon.note("text:hash-in-labels")
    if nkind == "odd" or (ekind == "odd" and fmt == "bipartite"):
        c.mon.note(f"text:odd-labels:{fmt}")
    if any(ch.isspace() for x in carried for ch in x):
        c.mon.note(f"text:inner-whitespace-in-labels:{fmt}")
        if d.strip():
            c.mon.note(f"text:inner-whitespace-in-labels:{fmt}:non-blank-delimiter")
    if "" in carried:
        c.mon.note(f"text:empty-string-label:{fmt}")
    if any(o in x for x in carried for o in DELIMS if o != d and o != " "):
        c.mon.note(f"text:other-delimiter-in-labels:{fmt}")
    return ab


def _delim(rng, idx, pool=DELIMS):
    return pool[(idx // 2) % len(pool)]


def _into(rng, choices):
    into = rng.choice(choices)
    if into is None:
        return into, {}
    if into.endswith("()"):
        return into, {"create_using": getattr(xgi, into[:-2])()}
    return into, {"create_using": getattr(xgi, into)}


def case_edgelist(c, idx, rng):
    enc, cm, ekw, ckw = _text_options(c, rng, "edgelist")
    d = _delim(rng, idx)
    rd = None if (d in (" ", "\t") and rng.random() < 0.3) else d
    ab = _text_pair(c, idx, rng, "edgelist", cm, enc, d, rd)
    if ab is None:
        return
    a, b = ab
    cls = a[1]["cls"]
    c.mon.note(f"edgelist:delim:{DNAME[d]}")
    nt, nmap = O.casts(rng, a[1]["src"].nodes + b[1]["src"].nodes, c.mon)
    into = rng.choice((None, "Hypergraph", "Hypergraph()", cls))
    variant = f"delimiter={d!r} read-delimiter={rd!r} nodetype={_tn(nt)} create_using={into} encoding={enc!r} comments={cm!r}"
    loc = Loc(c.tmp, "edges.txt")
    wkw = {} if (d == " " and rng.random() < 0.5) else {"delimiter": d}

    def read():
        rkw = {} if into is None else {"create_using": getattr(xgi, into[:-2])() if into.endswith("()") else getattr(xgi, into)}
        return xgi.read_edgelist(loc.path, delimiter=rd, nodetype=nt, **rkw, **ekw, **ckw)

    def check(back, item, trig, stale):
        src = item[1]["src"]
        if into == "SimplicialComplex":
            got = O.obs(back)
            c.mon.ev()
            c.mon.note(f"read_edgelist:{cls}")
            fam_s = {frozenset(map(nmap, m)) for m in src.mem.values()}
            fam_g = set(got.mem.values())
            if fam_s != fam_g or len(got.mem) != len(fam_g):
                c.fail(f"read_edgelist|{'SimplicialComplex-into-SimplicialComplex' if trig == cls else trig}|simplices", f"[{variant}] family of member sets differs: {O._sd(fam_s, fam_g)}",
                           c.witness([item[1]], [loc.path], f"read back: {got.brief()}"))
            return

        def exp(o):
            epos = {e: i for i, e in enumerate(o.edges)}
            return O.expected(o, nmap, epos.__getitem__, cls="Hypergraph")

        c.compare("read_edgelist", trig, exp(src), back, O.INC, variant, [item[1]], [loc.path], count=f"read_edgelist:{cls}", stale=exp(stale[1]["src"]) if stale else None)

    c.session(rng, "write_edgelist", "read_edgelist", cls, a, b, lambda it: xgi.write_edgelist(it[0], loc.path, **wkw, **ekw), read, check, variant, lambda: [loc.path],
              _differ(a[1], b[1]), loc.relocate)


def case_bipartite(c, idx, rng):
    enc, cm, ekw, ckw = _text_options(c, rng, "bipartite")
    d = _delim(rng, idx)
    rd = None if (d in (" ", "\t") and rng.random() < 0.3) else d
    ab = _text_pair(c, idx, rng, "bipartite", cm, enc, d, rd)
    if ab is None:
        return
    a, b = ab
    cls = a[1]["cls"]
    c.mon.note(f"bipartite:delim:{DNAME[d]}")
    dual = rng.random() < 0.4
    if dual:
        c.mon.note("bipartite:dual")
    # with dual=True the reader takes column 1 (our nodes) as edge IDs and column 2 (our edge IDs) as node IDs
    t1, m1 = O.casts(rng, a[1]["src"].nodes + b[1]["src"].nodes, c.mon)
    t2, m2 = O.casts(rng, a[1]["src"].edges + b[1]["src"].edges, c.mon)
    kw = {"nodetype": t2, "edgetype": t1} if dual else {"nodetype": t1, "edgetype": t2}
    into = rng.choice((None, None, "Hypergraph", "Hypergraph()"))
    variant = f"delimiter={d!r} read-delimiter={rd!r} nodetype={_tn(kw['nodetype'])} edgetype={_tn(kw['edgetype'])} dual={dual} create_using={into} encoding={enc!r} comments={cm!r}"
    loc = Loc(c.tmp, "bip.txt")
    wkw = {} if (d == " " and rng.random() < 0.5) else {"delimiter": d}
    base = "dual" if dual else cls

    def read():
        rkw = {} if into is None else {"create_using": getattr(xgi, into[:-2])() if into.endswith("()") else getattr(xgi, into)}
        return xgi.read_bipartite_edgelist(loc.path, delimiter=rd, dual=dual, **kw, **rkw, **ekw, **ckw)

    def exp(o):
        e = O.expected(o, m1, m2, cls="Hypergraph")
        if dual:
            swapped = {(x, n) for n, x in e.inc}
            e.inc, e.inc2 = swapped, swapped
        return e

    def check(back, item, trig, stale):
        c.compare("read_bipartite_edgelist", trig, exp(item[1]["src"]), back, O.INC, variant, [item[1]], [loc.path], count=f"read_bipartite_edgelist:{cls}",
                  stale=exp(stale[1]["src"]) if stale else None)

    c.session(rng, "write_bipartite_edgelist", "read_bipartite_edgelist", base, a, b, lambda it: xgi.write_bipartite_edgelist(it[0], loc.path, **wkw, **ekw), read, check,
              variant, lambda: [loc.path], _differ(a[1], b[1]), loc.relocate)


def _shaped(c, rng, cls, shape):
    """A network whose incidence matrix has one row and/or one column."""
    nk = rng.choice(O.NODE_KINDS)
    pool = O.node_pool(rng, nk, 5)
    net = getattr(xgi, cls)()
    add = net.add_edge if cls == "Hypergraph" else net.add_simplex
    hist = [f"{cls}()"]
    if shape == "single-row":  # one node, m >= 2 edges
        m = rng.randint(2, 5) if cls == "Hypergraph" else 1
        for _ in range(m):
            mem = [] if (cls == "Hypergraph" and rng.random() < 0.2 and len(net.nodes)) else [pool[0]]
            add(list(mem))
            hist.append(f"add({mem!r})")
        if cls != "Hypergraph":
            shape = "single-entry"
    elif shape == "single-column":  # n >= 2 nodes, one edge
        k = rng.randint(2, 4) if cls == "Hypergraph" else 2
        mem = pool[:k]
        add(list(mem), idx=rng.choice((None, "e0", 3)))
        hist.append(f"add({mem!r})")
        if rng.random() < 0.4:
            net.add_node(pool[4])
            hist.append(f"add_node({pool[4]!r})")
    else:
        add([pool[0]])
        hist.append(f"add({[pool[0]]!r})")
    return net, {"hist": hist, "cls": cls, "feats": set()}, shape


def _matrix_net(c, rng, cls, shape):
    if shape == "general":
        s = c.source(rng, cls, empties=True, min_edges=1, attrs=False)
        if s is None:
            return None
        net, info = s
    else:
        net, info, shape = _shaped(c, rng, cls, shape)
        if not O.valid(net):
            c.mon.note("invalid-start-state")
            return None
        info["src"] = O.obs(net)
    if len(info["src"].nodes) == 0 or len(info["src"].edges) == 0:
        c.mon.note("discarded:empty-matrix")
        return None
    return net, info


def _shape_of(src):
    n, m = len(src.nodes), len(src.edges)
    return "single-entry" if (n, m) == (1, 1) else "single-row" if n == 1 else "single-column" if m == 1 else "general"


def case_incidence(c, idx, rng):
    enc, cm, ekw, ckw = _text_options(c, rng, "incidence")
    cls = UND[idx % 2]
    want = (SHAPES + ("general", "general"))[(idx // 2) % 6]
    a = _matrix_net(c, rng, cls, want)
    if a is None:
        return
    b = _matrix_net(c, rng, cls, want if rng.random() < 0.6 else rng.choice(SHAPES + ("general", "general")))  # mostly the same size class
    src = a[1]["src"]
    shape = _shape_of(src)  # name the trigger class by what the file looks like
    c.mon.note(f"incidence:shape:{shape}")
    d = DELIMS[(idx // 12) % 5]
    c.mon.note(f"incidence:delim:{DNAME[d]}")
    rd = None if (d in (" ", "\t") and rng.random() < 0.3) else d
    into = rng.choice((None, None, "Hypergraph", "Hypergraph()"))
    variant = f"{len(src.nodes)} x {len(src.edges)} delimiter={d!r} read-delimiter={rd!r} create_using={into} encoding={enc!r} comments={cm!r}"
    loc = Loc(c.tmp, "inc.txt")
    wkw = {} if (d == " " and rng.random() < 0.5) else {"delimiter": d}
    trig = {"single-entry": "single-row"}.get(shape, shape if shape != "general" else cls)

    def read():
        rkw = {} if into is None else {"create_using": getattr(xgi, into[:-2])() if into.endswith("()") else getattr(xgi, into)}
        return xgi.read_incidence_matrix(loc.path, delimiter=rd, **rkw, **ekw, **ckw)

    def exp(o):
        npos = {v: i for i, v in enumerate(o.nodes)}
        epos = {e: i for i, e in enumerate(o.edges)}
        return O.expected(o, npos.__getitem__, epos.__getitem__, cls="Hypergraph")

    def check(back, item, t, stale):
        if t not in SECOND:  # (the control experiment of a rewrite step reads B, whose file may have another shape than A's)
            sh = _shape_of(item[1]["src"])
            t = {"single-entry": "single-row"}.get(sh, sh if sh != "general" else cls)
        c.compare("read_incidence_matrix", t, exp(item[1]["src"]), back, O.INC, variant, [item[1]], [loc.path], count=f"read_incidence_matrix:{cls}",
                  stale=exp(stale[1]["src"]) if stale else None)

    c.session(rng, "write_incidence_matrix", "read_incidence_matrix", trig, a, b, lambda it: xgi.write_incidence_matrix(it[0], loc.path, **wkw, **ekw), read, check,
              variant, lambda: [loc.path], b is not None and exp(a[1]["src"]).inc != exp(b[1]["src"]).inc, loc.relocate)


CASES = {
    "hif": case_hif, "hif-collection": case_hif_collection, "json": case_json, "json-collection": case_json_collection,
    "edgelist": case_edgelist, "bipartite": case_bipartite, "incidence": case_incidence,
}


def _tmproot():
    """Where the per-case temporary directories live: $XGIMON_TMPDIR, else a RAM disk when there is one (50 x faster than /tmp here), else the default."""
    for d in (os.environ.get("XGIMON_TMPDIR"), "/dev/shm"):
        if d and os.path.isdir(d) and os.access(d, os.W_OK | os.X_OK):
            return d
    return None


TMPROOT = _tmproot()


def run_case(mon, kind, idx, rng):
    with tempfile.TemporaryDirectory(prefix="xgimon-c11-", dir=TMPROOT) as tmp:
        CASES[kind](Ctx(mon, tmp), idx, rng)
    if not os.path.exists(tmp):
        mon.note("tempdirs-removed")
