"""C13 - boundary operators form a chain complex (DESIGN §2 C13).

Algebraic post-conditions on xgi.boundary_matrix / xgi.hodge_laplacian, observed through the
returned index maps and compared with the complex as read from list(S.nodes) and
S.edges.members(dtype=dict):

  for every order k = 0 .. dim+1 and every orientation assignment
    shape        B_k is (#(k-1)-simplices, #k-simplices); row map of B_k = column map of B_{k-1}
    columns      (k >= 1) column of simplex s has exactly k+1 non-zeros, all +-1, in the rows of the faces of s
    chain        B_{k-1} B_k = 0 exactly
    Hodge        L_k is (#k-simplices)^2, symmetric, lambda_min >= -1e-9
    kernel       dim ker L_0 = number of connected components (networkx on a 1-skeleton built here)

Workload: kind "enum" enumerates EVERY downward-closed family on <= 4 vertices (x {no singleton
simplices, all singleton simplices}) with ALL orientation assignments when <= 10 simplices carry an
orientation (the full tetrahedron has 11: 64 seeded assignments + all-0 +
all-1 + default); kind "enum-labels" repeats the same families under every label kind x simplex-ID
kind with sampled orientations; kind "random" draws complexes on 5-7 vertices.
Kind "scale": a few large complexes whose sizes depend on idx only - a vertex in 150 / 300 / 390 edges, an edge in 130
triangles, vertex degrees 127..129 and edges in 125 / 126 triangles - under the default and one seeded typed orientation assignment, same oracle,
orders 0..3 (trigger tag "scale").
Key = "<function>|<trigger class>|<clause>".
"""
from itertools import combinations, product

import networkx as nx
import numpy as np

from .. import snap
from ..env import xgi

PID = "C13"
ANCHORS = ("xgi/linalg/hodge_matrix.py", "xgi/core/simplicialcomplex.py")
TECHNIQUE = "runtime monitoring: algebraic post-condition monitor, exhaustive on <= 4 vertices"
RULE = (
    "case = one simplicial complex built with add_node(s) / add_simplex, checked under a set of orientation assignments. "
    "enum: family idx//2 of the 127 downward-closed families of subsets of size >= 2 of {0..n-1}, n <= 4 (1+1+2+9+114), idx%2 = all vertices also present as "
    "singleton simplices; int labels, automatic IDs, seeded insertion order; default orientations + all 2^m assignments (m <= 10) else 64 seeded + all-0 + all-1. "
    "enum-labels: the same 254 complexes x 5 label kinds (str, mixed str/number, negative ints, floats, int+float) with explicit simplex IDs in shuffled order "
    "(int / str / mixed, or automatic), default + 6 seeded assignments (one with bool values). random: 1-6 random maximal simplices of size 1-5 on 5-7 vertices, "
    "any label kind and ID kind, default + 4 seeded assignments. one evaluation = one boundary matrix (shape, maps, column structure), one product "
    "B_{k-1} B_k, or one Hodge Laplacian. distinct_nontrivial = distinct (labelled complex with IDs, orientation assignment) having at least one simplex of order >= 1"
)
ASSUMPTIONS = [
    "the brute-force side reads the complex only through list(S.nodes) and S.edges.members(dtype=dict); 0-simplices are the nodes (singleton simplices in the edge table are optional extras)",
    "orientation assignments are dicts {ID of every simplex of order >= 1: 0/1 (or False/True)}, as documented; orientations=None is the all-zero assignment",
    "the 0/1 values are passed as Python int, Python bool, np.bool_ (elements of a boolean array), np.int64, np.int32 or np.int8, `order` as int, np.int64, np.int32 or np.intp, rotating; "
    "unsigned numpy types are excluded: with NumPy >= 2 `(-1) ** np.uint8(1)` raises OverflowError on the unchanged tree (for orientation values and for order), a loud refusal of an undocumented type. "
    "A failure that disappears with Python-int arguments gets the trigger tag 'non-int-valued-arguments'",
    "boundary matrices hold small integers in floats: products and symmetry are compared exactly; PSD means lambda_min >= -1e-9 (n <= 35 simplices per order)",
    "the row map of B_k must equal the column map of B_{k-1} (otherwise the product of the matrices as returned is not the composition of the operators)",
    "hodge_laplacian is only asked for what the statement lists (shape, symmetric, PSD, dim ker L_0); agreement with B_k^T B_k + B_{k+1} B_{k+1}^T of the returned boundary matrices is counted, not asserted",
    "node labels: one network never contains two labels that compare equal (1 and 1.0); tuples / None labels are outside the input space; mixed labels are numbers and strings only",
    "exhaustive only for the 'enum' kind (see coverage.exhaustive_bound); label kinds, ID kinds, insertion orders and the 5-7 vertex complexes are sampled",
    "complexes whose construction did not yield the intended family (structural invariant or family mismatch) are discarded and counted; the enum floors require zero discards",
]
CASE_TIMEOUT = 300

LABEL_KINDS = ("str", "mixed", "negative", "float", "numeric-mixed")
ID_KINDS = ("explicit-int", "explicit-str", "auto", "explicit-mixed")
# types of the 0/1 orientation values and of the `order` argument.  np.uint8 (any unsigned type) is NOT a legal input: with NumPy >= 2
# `(-1) ** np.uint8(1)` raises OverflowError on the unchanged tree, for orientation values and for `order` alike.
VALUE_TYPES = (int, bool, np.bool_, np.int64, np.int32, np.int8)
ORDER_TYPES = (int, np.int64, np.int32, np.intp)


def tname(t):
    return f"{t.__module__}.{t.__name__}"


# ---------------------------------------------------------------------------------
# enumeration of all downward-closed families on <= 4 vertices
# ---------------------------------------------------------------------------------
def families(n):
    subs = [frozenset(c) for k in range(2, n + 1) for c in combinations(range(n), k)]
    out = []
    for bits in product((0, 1), repeat=len(subs)):
        fam = {s for s, b in zip(subs, bits) if b}
        if all(frozenset(f) in fam for s in fam if len(s) > 2 for f in combinations(s, len(s) - 1)):
            out.append(tuple(sorted(fam, key=lambda s: (len(s), sorted(s)))))
    return sorted(out, key=lambda fam: (len(fam), [sorted(s) for s in fam]))


_FAMS = None


def fams():
    global _FAMS
    if _FAMS is None:
        _FAMS = [(n, fam) for n in range(5) for fam in families(n)]
        assert [sum(1 for m, _ in _FAMS if m == n) for n in range(5)] == [1, 1, 2, 9, 114]
    return _FAMS


N_ENUM = 254  # 127 families x {no singleton simplices, all}


def plan(tier):
    if tier == "quick":
        return {"enum": N_ENUM, "enum-labels": N_ENUM * 5, "random": 300, "sequence": 60, "scale": 4}
    return {"enum": N_ENUM, "enum-labels": N_ENUM * 5 * 8, "random": 48000, "sequence": 6000, "scale": 64}


def _sequence_case(mon, idx, rng):
    """Same-object sequences: boundary matrices / Hodge Laplacians of a complex that was edited in place must
    equal those of a freshly built equal complex (which the other kinds check algebraically)."""
    from .. import ops, stale

    kind = ("int", "gap", "str")[idx % 3]
    _, pool = ops.node_pool(rng, kind, 6)

    def build():
        S = xgi.SimplicialComplex()
        for _ in range(rng.randint(2, 4)):
            S.add_simplex(ops.rand_members(rng, pool[:5], 2, 4))
        return S

    def bm(k, idx_=False):
        return lambda S: xgi.boundary_matrix(S, order=k, index=idx_)

    fns = [(f"boundary_matrix(order={k})", bm(k)) for k in (1, 2, 3)]
    fns += [("boundary_matrix(order=2,index=True)", bm(2, True))]
    fns += [(f"hodge_laplacian(order={k})", (lambda k: (lambda S: xgi.hodge_laplacian(S, order=k)))(k)) for k in (0, 1, 2)]
    mon.note("sequence-cases")
    stale.run(mon, rng, "SimplicialComplex", fns, build, pool)


def floors(tier):
    q = tier == "quick"
    f = {
        "enum:complexes-completed": N_ENUM,
        "enum:all-assignments": N_ENUM - 2,  # only the full tetrahedron (x 2 singleton variants) has 11 oriented simplices
        "enum:sampled-assignments": 2,
        "enum-labels:complexes-completed": N_ENUM * 5 * (1 if q else 8),
        "random:complexes-completed": 150 if q else 24000,
        "boundary:order=0": 1000, "boundary:order=1": 1000, "boundary:order>=2": 1000,
        "product:order>=2": 1000, "product-with-2-simplices-and-custom-orientation": 500,
        "hodge:checked": 3000, "kernel:checked": 1000, "kernel:disconnected": 200,
        "orientation:bool-values": 100, "index=False": 1000,
        "scale:complexes-completed": 2, "scale:vertex-degree>=128": 2, "scale:vertex-degree>=256": 1, "scale:edge-in>=126-triangles": 1, "scale:assignments": 4,
        **{f"orientation:values:{tname(t)}": 1500 for t in VALUE_TYPES},
        **{f"order-arg:{tname(t)}": 20000 for t in set(ORDER_TYPES)},
    }
    f.update({f"labels:{k}": 140 for k in LABEL_KINDS})
    f.update({f"ids:{k}": 180 for k in ID_KINDS})
    return f


def extra_coverage(mon):
    c = mon.counters
    done = c.get("enum:complexes-completed", 0) == N_ENUM and c.get("enum:discarded", 0) == 0 and c.get("enum:all-assignments", 0) == N_ENUM - 2
    return {
        "exhaustive": bool(done),
        "exhaustive_bound": (
            "ONLY the 'enum' kind is exhaustive: all 127 downward-closed families of subsets of size >= 2 on the vertex sets {0..n-1}, n = 0..4 "
            "(1+1+2+9+114, isolated vertices included as nodes), each without and with all vertices as singleton simplices, integer labels, automatic simplex IDs, "
            "one seeded insertion order each; for the 252 complexes with <= 10 oriented simplices ALL 2^m orientation assignments plus orientations=None, for the 2 "
            "complexes with 11 oriented simplices 64 seeded assignments + all-0 + all-1 + None; every order 0..dim+1. "
            "Each assignment is passed with ONE representation of its 0/1 values, rotating with the assignment number through Python int, Python bool, np.bool_, np.int64, np.int32, np.int8, "
            "and `order` rotates through int, np.int64, np.int32, np.intp: the (assignment x value type) product is sampled, not exhaustive. "
            f"Assignments checked in this run: {c.get('enum:assignments', 0)}. Everything else (label kinds, explicit IDs, insertion orders, complexes on 5-7 vertices) is sampled, not exhaustive."
        ),
    }


# ---------------------------------------------------------------------------------
# construction
# ---------------------------------------------------------------------------------
def labels_for(rng, kind, n):
    if kind == "int":
        return list(range(n))
    if kind == "str":
        return rng.sample(["a", "b", "n10", "n2", "x", "yy", "Z", "10", "2"], n)
    if kind == "negative":
        return rng.sample([-7, -3, -1, 0, 2, 5, -12, 40, 11], n)
    if kind == "float":
        return rng.sample([0.5, -1.5, 2.25, 3.0, -0.25, 10.0, 7.5, 1e3, -2.0], n)
    if kind == "numeric-mixed":
        return rng.sample([0, 1.5, -2, 3, 2.5, -0.5, 7, 10.25, 4], n)
    # mixed numbers and strings: at least one of each when n >= 2
    nums, strs = [3, -1, 0, 2.5, 12, 7, -4.5], ["a", "b", "n10", "n2", "x", "1", "Z"]
    if n < 2:
        return rng.sample(nums + strs, n)
    k = rng.randint(1, n - 1)
    out = rng.sample(nums, k) + rng.sample(strs, n - k)
    rng.shuffle(out)
    return out


def id_pool(rng, kind, m):
    if kind == "explicit-int":
        return rng.sample(range(0, 3 * m + 5), m)
    if kind == "explicit-str":
        p = [f"s{j}" for j in range(m + 3)]
        rng.shuffle(p)
        return p[:m]
    p = [f"s{j}" for j in range(m)] + list(range(100, 100 + m))
    rng.shuffle(p)
    return p[:m]


def build(rng, labels, fam, singles, idkind):
    """Complex with vertex i -> labels[i]; fam = all simplices of size >= 2 (downward closed), singles = vertex indices
    that are also singleton simplices.  Returns S or None (construction did not give the intended family)."""
    S = xgi.SimplicialComplex()
    n = len(labels)
    order = list(range(n))
    rng.shuffle(order)
    covered = set().union(*fam) | set(singles) if (fam or singles) else set()
    nodes_first = rng.random() < 0.5
    if nodes_first:
        S.add_nodes_from([labels[i] for i in order])
    else:
        # the simplices bring their own nodes; uncovered vertices are added here, before the simplices
        for i in order:
            if i not in covered:
                S.add_node(labels[i])
    fam = list(fam)
    if idkind == "auto":
        todo = [f for f in fam if not any(f < g for g in fam)] + [frozenset([i]) for i in singles]
        rng.shuffle(todo)
        for f in todo:
            mem = [labels[i] for i in f]
            rng.shuffle(mem)
            S.add_simplex(mem)
    else:
        todo = [frozenset([i]) for i in singles] + fam
        # faces before cofaces, so that no automatic ID is ever created; shuffled within a size, singletons anywhere
        keyed = [((len(f) if len(f) > 1 else rng.choice((0, 1.5, 2.5, 9))), rng.random(), f) for f in todo]
        keyed.sort(key=lambda t: t[:2])
        ids = id_pool(rng, idkind, len(todo))
        for (_, _, f), i in zip(keyed, ids):
            mem = [labels[j] for j in f]
            rng.shuffle(mem)
            S.add_simplex(mem, idx=i)
    want = {frozenset(labels[i] for i in f) for f in fam} | {frozenset([labels[i]]) for i in singles}
    got = [frozenset(m) for m in S.edges.members(dtype=dict).values()]
    if snap.inv(S) or set(got) != want or len(got) != len(want) or set(S.nodes) != set(labels) or len(S.nodes) != n:
        return None
    return S


# ---------------------------------------------------------------------------------
# oracle
# ---------------------------------------------------------------------------------
class Fired(Exception):
    pass


def check_complex(mon, S, orients, lk, desc, count_prefix=None, tag=None):
    """All clauses for complex S under each assignment in `orients` (None = default).  Returns number of assignments checked."""
    nodes = list(S.nodes)
    mem = {e: frozenset(m) for e, m in S.edges.members(dtype=dict).items()}
    dim = max([len(m) - 1 for m in mem.values()] + [0 if nodes else -1])
    byorder = {k: [e for e, m in mem.items() if len(m) - 1 == k] for k in range(1, dim + 4)}
    byorder[0] = nodes
    byorder[-1] = []
    G = nx.Graph()
    G.add_nodes_from(nodes)
    G.add_edges_from(tuple(mem[e]) for e in byorder.get(1, []))
    ncc = nx.number_connected_components(G)
    struct = (tuple(map(repr, nodes)), tuple((repr(e), tuple(sorted(map(repr, m)))) for e, m in mem.items()))
    mixed = ",".join(x for x in (tag, "mixed-labels" if lk == "mixed" else None) if x) or None

    def members_of(k, ident):
        return frozenset([ident]) if k == 0 else mem[ident]

    def type_matters():
        """Do numerically equal plain-Python arguments (int orders, int 0/1 values) give different matrices?"""
        plain = None if orient is None else {e: int(v) for e, v in orient.items()}
        try:
            for k in range(0, dim + 2):
                for T in ORDER_TYPES:
                    if not np.array_equal(xgi.boundary_matrix(S, T(k), orient, False), xgi.boundary_matrix(S, k, plain, False)):
                        return True
                    if not np.array_equal(xgi.hodge_laplacian(S, T(k), orient, False), xgi.hodge_laplacian(S, k, plain, False)):
                        return True
        except Exception:
            return True
        return False

    def fire(fn, trig, clause, call, text):
        if type_matters():
            trig += ",non-int-valued-arguments"
            text += "\n(the same call with Python-int order and Python-int 0/1 orientation values gives a different matrix)"
        mon.fail(f"{fn}|{trig}|{clause}", f"{call}: {text}", f"{call}\norientations = {orient!r}\non {snap.pretty(S)}\n({desc})")
        raise Fired()

    done = 0
    for orient in orients:
        custom = orient is not None and any(orient.values())
        otag = "orientations" if custom else "default-orientations"
        if orient is not None and any(isinstance(v, bool) for v in orient.values()):
            mon.note("orientation:bool-values")
        if orient:
            for t in {type(v) for v in orient.values()}:
                mon.note(f"orientation:values:{tname(t)}")
        if any(len(m) > 1 for m in mem.values()):
            mon.nontrivial((struct, None if orient is None else tuple(sorted((repr(k), int(v)) for k, v in orient.items()))))
        try:
            prev = None
            Bs = {}
            for k in range(0, dim + 2):
                oc = "order=0" if k == 0 else "order=1" if k == 1 else "order>=2"
                trig = ",".join(x for x in (oc, mixed, otag) if x)
                call = f"boundary_matrix(S, {k}, orientations, index=True)"
                OT = ORDER_TYPES[(k + done) % 4]
                mon.note(f"order-arg:{tname(OT)}")
                B, rd, cd = xgi.boundary_matrix(S, OT(k), orient, True)
                mon.ev()
                mon.note(f"boundary:{oc}")
                B = np.asarray(B)
                rows, cols = byorder[k - 1], byorder[k]
                if B.shape != (len(rows), len(cols)):
                    fire("boundary_matrix", trig, "shape-wrong", call, f"shape {B.shape}, expected {(len(rows), len(cols))}")
                if set(rd) != set(range(len(rows))) or set(rd.values()) != set(rows) or set(cd) != set(range(len(cols))) or set(cd.values()) != set(cols):
                    fire("boundary_matrix", trig, "index-map-wrong", call, f"maps {rd} / {cd} are not bijections onto {rows} / {cols}")
                if k >= 1:
                    for j in range(len(cols)):
                        s = members_of(k, cd[j])
                        col = B[:, j]
                        nzr = [i for i in range(len(rows)) if col[i] != 0]
                        faces = {i for i in range(len(rows)) if members_of(k - 1, rd[i]) < s}
                        if len(nzr) != k + 1 or any(abs(col[i]) != 1 for i in nzr) or set(nzr) != faces:
                            fire("boundary_matrix", trig, "column-structure", call,
                                 f"column of simplex {cd[j]!r}={sorted(s, key=repr)} has non-zeros {[(rd[i], col[i]) for i in nzr]}; expected k+1={k + 1} entries +-1 at faces {[rd[i] for i in sorted(faces)]}")
                if k >= 1:
                    pB, prd, pcd = prev
                    ptrig = ",".join(x for x in (mixed, otag) if x)
                    if rd != pcd:
                        fire("boundary_matrix", ptrig, "index-maps-do-not-chain", call, f"row map of B_{k} {rd} != column map of B_{k - 1} {pcd}")
                    mon.ev()
                    if k >= 2:
                        mon.note("product:order>=2")
                        if custom and len(cols):
                            mon.note("product-with-2-simplices-and-custom-orientation")
                    P = pB @ B
                    if np.any(P != 0):
                        fire("boundary_matrix", ptrig, "product-nonzero", f"B_{k - 1} @ B_{k}", f"B_{k - 1} =\n{pB}\nB_{k} =\n{B}\nproduct =\n{P}\nrows {prd}\nmiddle {rd}\ncols {cd}")
                prev = (B, rd, cd)
                Bs[k] = B
                if (k + done) % 3 == 0:
                    mon.note("index=False")
                    B2 = xgi.boundary_matrix(S, ORDER_TYPES[(k + done + 2) % 4](k), orient, False)
                    if isinstance(B2, tuple) or not np.array_equal(np.asarray(B2), B):
                        fire("boundary_matrix", trig, "index=False-differs", call, f"index=False gives\n{B2}\nindex=True gave\n{B}")
            Bs[dim + 2] = np.zeros((len(byorder[dim + 1]), 0))
            for k in range(0, dim + 2):
                oc = "order=0" if k == 0 else "order>=1"
                trig = ",".join(x for x in (oc, mixed, otag) if x)
                call = f"hodge_laplacian(S, {k}, orientations, index=True)"
                OT = ORDER_TYPES[(k + done + 1) % 4]
                mon.note(f"order-arg:{tname(OT)}")
                L, md = xgi.hodge_laplacian(S, OT(k), orient, True)
                mon.ev()
                mon.note("hodge:checked")
                L = np.asarray(L)
                nk = len(byorder[k])
                if L.shape != (nk, nk):
                    fire("hodge_laplacian", trig, "shape-wrong", call, f"shape {L.shape}, expected {(nk, nk)}")
                if not np.array_equal(L, L.T):
                    fire("hodge_laplacian", trig, "not-symmetric", call, f"L =\n{L}")
                if nk and float(np.linalg.eigvalsh(L).min()) < -1e-9:
                    fire("hodge_laplacian", trig, "not-PSD", call, f"lambda_min = {np.linalg.eigvalsh(L).min()}\nL =\n{L}")
                if k == 0:
                    mon.note("kernel:checked")
                    if ncc > 1:
                        mon.note("kernel:disconnected")
                    ker = nk - (int(np.linalg.matrix_rank(L)) if nk else 0)
                    if ker != ncc:
                        fire("hodge_laplacian", trig, "kernel-dim-wrong", call, f"dim ker L_0 = {ker}, connected components of the 1-skeleton = {ncc}\nL_0 =\n{L}")
                ref = Bs[k].T @ Bs[k] + Bs[k + 1] @ Bs[k + 1].T
                mon.note("hodge-definition:agrees" if ref.shape == L.shape and np.array_equal(ref, L) else "hodge-definition:DISAGREES(not asserted)")
                if (k + done) % 4 == 0:
                    L2 = xgi.hodge_laplacian(S, ORDER_TYPES[(k + done + 3) % 4](k), orient, False)
                    mon.note("index=False")
                    if isinstance(L2, tuple) or not np.array_equal(np.asarray(L2), L):
                        fire("hodge_laplacian", trig, "index=False-differs", call, f"index=False gives\n{L2}")
        except Fired:
            return done, False
        done += 1
    return done, True


def typed(oriented, bits, T):
    """The assignment `bits` with its 0/1 values represented in type T (np.bool_ the way a user gets it: from a boolean array)."""
    if T is np.bool_:
        return dict(zip(oriented, np.array(bits, dtype=float) > 0.5))
    if T in (int, bool):
        return dict(zip(oriented, map(T, bits)))
    return dict(zip(oriented, np.array(bits, dtype=T)))


def assignments(rng, oriented, how, rot=0):
    """how = 'all' -> None + every 0/1 assignment; int -> None + that many seeded ones (+ all-0, all-1).
    The type of the values rotates through VALUE_TYPES with the assignment number (offset `rot`)."""
    yield None
    n = len(VALUE_TYPES)
    if how == "all":
        for j, bits in enumerate(product((0, 1), repeat=len(oriented))):
            yield typed(oriented, bits, VALUE_TYPES[(j + rot) % n])
        return
    if not oriented:
        return
    yield typed(oriented, [0] * len(oriented), VALUE_TYPES[rot % n])
    yield typed(oriented, [1] * len(oriented), VALUE_TYPES[(rot + 1) % n])
    for j in range(how):
        yield typed(oriented, [rng.randint(0, 1) for _ in oriented], VALUE_TYPES[(rot + 2 + j) % n])


# ---------------------------------------------------------------------------------
# kind "scale": a vertex in 150 / 300 edges, an edge in 130 triangles, counts exactly at 126..129 (narrow-dtype boundaries)
# ---------------------------------------------------------------------------------
SCALE_SHAPES = ("star-150", "star-300", "book-130+star-260", "boundary-counts")
_BLAS_SINGLE = None


def single_thread_blas():
    """Performance only (no decision depends on it): eigvalsh / matrix_rank of a 1000 x 1000 matrix take seconds with the default
    OpenBLAS thread count on a loaded box (oversubscription) and milliseconds with one thread; threadpoolctl is not installed."""
    global _BLAS_SINGLE
    if _BLAS_SINGLE is None:
        import ctypes

        _BLAS_SINGLE = []
        try:
            with open("/proc/self/maps") as f:
                paths = {line.split()[-1] for line in f if "openblas" in line and ".so" in line}
            for path in paths:
                lib = ctypes.CDLL(path)
                for name in ("openblas_set_num_threads", "openblas_set_num_threads64_", "scipy_openblas_set_num_threads", "scipy_openblas_set_num_threads64_"):
                    try:
                        getattr(lib, name)(1)
                        _BLAS_SINGLE.append(name)
                    except AttributeError:
                        pass
        except Exception:
            pass
    return _BLAS_SINGLE


def scale_family(idx):
    """(n, simplices of size >= 2 as frozensets of vertex indices, downward closed).  Sizes depend on idx only."""
    shape, v = SCALE_SHAPES[idx % 4], idx // 4
    E, T = set(), set()
    nxt = [0]

    def fresh(k):
        out = list(range(nxt[0], nxt[0] + k))
        nxt[0] += k
        return out

    def star(deg, leaves=None):
        (c,) = fresh(1)
        for x in leaves[:deg] if leaves else fresh(deg):
            E.add(frozenset((c, x)))
        return c

    def book(t, apexes=None):
        a, b = fresh(2)
        E.add(frozenset((a, b)))
        for c in apexes[:t] if apexes else fresh(t):
            T.add(frozenset((a, b, c)))
            E.update((frozenset((a, c)), frozenset((b, c))))
        return a, b

    if shape == "star-150":
        star(150 + v)
        book(2)  # a second component with triangles
        fresh(1)  # an isolated vertex
    elif shape == "star-300":
        star(300 + v)
        a, b = fresh(2)
        E.add(frozenset((a, b)))
    elif shape == "book-130+star-260":
        a, b = book(130 + v)
        for x in fresh(260):
            E.add(frozenset((a, x)))
        star(3)
    else:
        pool = fresh(129 + v)
        for deg in (127, 128, 129):
            star(deg, pool)
        apex = fresh(126)
        for t in (125, 126):
            book(t, apex)
        fresh(2)
    return nxt[0], tuple(sorted(E | T, key=lambda s: (len(s), sorted(s)))), shape


def run_scale(mon, idx, rng):
    single_thread_blas()
    n, fam, shape = scale_family(idx)
    lk = ("int", "str", "mixed", "negative")[(idx // 4 + idx) % 4]
    if lk == "int":
        labels = list(range(n))
    elif lk == "str":
        labels = [f"n{i}" for i in range(n)]
    elif lk == "negative":
        labels = [3 * i - n for i in range(n)]
    else:
        labels = [i if i % 3 else f"s{i}" for i in range(n)]
    rng.shuffle(labels)
    ik = ("auto", "explicit-int", "explicit-str", "explicit-mixed")[idx % 4]
    S = build(rng, labels, fam, [0, n - 1] if idx % 2 else [], ik)
    desc = f"kind=scale idx={idx} shape={shape} labels={lk} ids={ik} vertices={n} simplices={len(fam)}"
    if S is None:
        mon.note("scale:discarded")
        return
    deg, tri = {}, {}
    for s_ in fam:
        if len(s_) == 2:
            for x in s_:
                deg[x] = deg.get(x, 0) + 1
        elif len(s_) == 3:
            for e in combinations(sorted(s_), 2):
                tri[e] = tri.get(e, 0) + 1
    mon.note(f"scale:shape:{shape}")
    for bound in (128, 256):
        if max(deg.values()) >= bound:
            mon.note(f"scale:vertex-degree>={bound}")
    if tri and max(tri.values()) >= 126:
        mon.note("scale:edge-in>=126-triangles")
    oriented = [e for e, m in S.edges.members(dtype=dict).items() if len(m) > 1]
    orients = [None, typed(oriented, [rng.randint(0, 1) for _ in oriented], VALUE_TYPES[idx % len(VALUE_TYPES)])]
    done, ok = check_complex(mon, S, orients, lk, desc, tag="scale")
    mon.note("scale:assignments", done)
    if ok:
        mon.note("scale:complexes-completed")
        mon.sample(f"{desc} under {done} orientation assignments")


def run_case(mon, kind, idx, rng):
    if kind == "sequence":
        return _sequence_case(mon, idx, rng)
    if kind == "scale":
        return run_scale(mon, idx, rng)
    if kind in ("enum", "enum-labels"):
        j = idx % N_ENUM if kind == "enum" else (idx // 5) % N_ENUM
        n, fam = fams()[j // 2]
        singles = list(range(n)) if j % 2 else []
        if kind == "enum":
            lk, ik = "int", "auto"
        else:
            lk = LABEL_KINDS[idx % 5]
            ik = ID_KINDS[(idx // 5 + idx // (5 * N_ENUM)) % 4]
    else:
        n = rng.randint(5, 7)
        lk = rng.choice(LABEL_KINDS + ("int",))
        ik = rng.choice(ID_KINDS)
        maxi = []
        for _ in range(rng.randint(1, 6)):
            maxi.append(frozenset(rng.sample(range(n), rng.choice((1, 2, 2, 3, 3, 4, 5)))))
        famset = {frozenset(c) for s in maxi for k in range(2, len(s) + 1) for c in combinations(sorted(s), k)}
        fam = tuple(sorted(famset, key=lambda s: (len(s), sorted(s))))
        singles = sorted({next(iter(s)) for s in maxi if len(s) == 1} | {i for i in range(n) if rng.random() < 0.2})
    labels = labels_for(rng, lk, n)
    S = build(rng, labels, fam, singles, ik)
    desc = f"kind={kind} idx={idx} labels={lk} ids={ik} vertices={n} singleton-simplices={len(singles)}"
    if S is None:
        mon.note(f"{kind}:discarded")
        return
    mon.note(f"labels:{lk}")
    mon.note(f"ids:{ik}")
    oriented = [e for e, m in S.edges.members(dtype=dict).items() if len(m) > 1]
    if kind == "enum":
        how = "all" if len(oriented) <= 10 else 64
        mon.note("enum:all-assignments" if how == "all" else "enum:sampled-assignments")
    elif kind == "enum-labels":
        how = 4
    else:
        how = 2
    done, ok = check_complex(mon, S, assignments(rng, oriented, how, rot=idx), lk, desc)
    mon.note(f"{kind}:assignments", done)
    if ok:
        mon.note(f"{kind}:complexes-completed")
        if kind != "enum" or idx % 40 == 7:
            mon.sample(f"{desc}: {snap.pretty(S)} under {done} orientation assignments")
