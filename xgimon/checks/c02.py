"""C02 - directed incidence integrity (tail/head vs out/in) under every history (DESIGN §2 C02)."""
from .. import snap, suite
from . import common

PID = "C02"
CLS = "DiHypergraph"
ANCHORS = ("xgi/core/dihypergraph.py", "xgi/core/views.py", "xgi/stats/dinodestats.py", "xgi/stats/diedgestats.py")
TECHNIQUE = "runtime monitoring: structural invariant evaluated at the quiescent point after every op of seeded edit histories (preservation form)"
RULE = (
    "case = one seeded edit history (<= 25 ops from the DiHypergraph mutator alphabet incl. cleanup and in-place relabelling) "
    "from a constructible start state; one evaluation = the directed invariant checked after one op (returned or raised). "
    "distinct_nontrivial = distinct (op name, outcome, canonical post-state) triples where the op changed the state or raised"
    " | suite: the repository's own tests run under xgimon/suite_plugin.py; every outermost public boundary call on a network is one more evaluation"
)
ASSUMPTIONS = [
    "labels: ints, gapped/negative ints, strings; explicit edge IDs incl. 0, True, 2.0, non-increasing; nodes in both head and tail; None / empty members and bad directions in hostile episodes",
    "tuple edge IDs are not generated for the directed class (bulk format detection reads a tuple ID as members; recorded under C07)",
    "internal tables _node_attr/_edge_attr are read for the 'exactly one attribute record' clause",
]


def plan(tier):
    if tier == "quick":
        return {"hostile": 4500, "steered": 2200, "start": 1000, "suite": 1}
    return {"hostile": 400000, "steered": 240000, "start": 80000, "suite": 1}


def floors(tier):
    f = {f"op:{n}": 20 for n in common.op_names(CLS)}
    f.update({"post-raise-evaluations": 50, "outcome:returned": 1000, "changed-state": 500})
    f["suite:evaluations"] = 50  # boundary calls of the repository's own tests observed by the same oracle
    return f


def run_case(mon, kind, idx, rng):
    if kind == "suite":  # the repository's own tests as a workload, observed by xgimon/suite_plugin.py
        return suite.run(mon, PID, mon.tier)
    common.invariant_episode(mon, PID, CLS, lambda D: snap.inv_directed(D, deep=True), kind, rng)
