"""C08 - read-only API never mutates the network it is given (DESIGN §2 C08).

snapshot -> call -> snapshot over the API surface enumerated by introspection: every
public function of the `xgi` namespace whose first parameter is a network, and every public
non-mutating method / property of the three network classes and of their views and stats.
Second oracle (alias probe): every `set` reachable in the return value gets a sentinel
added; the network must still be unchanged (an internal set was handed out otherwise).
"""
import inspect
import os
import tempfile
import warnings

import matplotlib.pyplot as plt
import numpy as np

from .. import ops, snap
from ..env import xgi
from .. import suite
from . import common

PID = "C08"
ANCHORS = ("xgi/__init__.py", "xgi/core/views.py", "xgi/core/globalviews.py", "xgi/generators/randomizing.py", "xgi/generators/classic.py",
           "xgi/utils/utilities.py", "xgi/algorithms/connected.py")
TECHNIQUE = "runtime monitoring: snapshot-call-snapshot over the introspected API surface + alias probe on returned sets"
RULE = (
    "case = (public callable, network class, seeded network, argument variant); the deep snapshot (node order, edge order, members, memberships, "
    "deep-copied attributes, network attributes, next automatic edge ID) is compared before/after the call (returned or raised) and again after "
    "mutating every set reachable in the return value. distinct_nontrivial = distinct (callable, class, arguments, network) where the network has an edge"
    " | suite: the repository's own tests run under xgimon/suite_plugin.py; every outermost public boundary call on a network is one more evaluation"
)
ASSUMPTIONS = [
    "network-first-parameter names: H, S, SC, net, DH, data (to_hypergraph & co.); documented in-place helpers (update_uid_counter, in_place=True variants) are excluded",
    "mutating methods are recognised by name (add_/remove_/clear/set_/update/double_edge_swap/random_edge_shuffle/merge_duplicate_edges/freeze/close/cleanup with in_place=True)",
    "attribute dicts returned by H.nodes[n] / stats 'attrs' are live by design and are not alias-probed; objects of other libraries are not traversed",
    "a callable whose required parameters have no recipe is counted as unprobed (never a violation)",
]
CLASSES = ("Hypergraph", "SimplicialComplex", "DiHypergraph")
NETPARAMS = {"H", "S", "SC", "net", "DH"}
EXCLUDE = {"update_uid_counter", "download_xgi_data", "load_xgi_data", "load_bigg_data", "request_json_from_url", "request_json_from_url_cached"}
MUT_PREFIX = ("add_", "remove_", "clear", "set_", "update", "double_edge_swap", "random_edge_shuffle", "merge_duplicate_edges", "freeze", "close")
CASE_TIMEOUT = 120


def functions():
    out = []
    for n in sorted(dir(xgi)):
        if n.startswith("_") or n in EXCLUDE:
            continue
        f = getattr(xgi, n)
        if not inspect.isfunction(f):
            continue
        try:
            ps = list(inspect.signature(f).parameters)
        except (TypeError, ValueError):
            continue
        if ps and (ps[0] in NETPARAMS or (ps[0] == "data" and n.startswith("to_"))):
            out.append(n)
    return out


def methods():
    """(owner, name) for the public non-mutating attributes of networks, views and stats."""
    out = []
    for cls in (xgi.Hypergraph, xgi.DiHypergraph, xgi.SimplicialComplex):
        for n in sorted(set(dir(cls))):
            if n.startswith("_") or n.startswith(MUT_PREFIX):
                continue
            out.append((cls.__name__, n))
        for n in ("__len__", "__iter__", "__contains__", "__str__", "__getitem__", "__lshift__", "__ilshift__"):
            if hasattr(cls, n) or (n == "__ilshift__" and hasattr(cls, "__lshift__")):
                out.append((cls.__name__, n))
    for vn in ("nodes", "edges"):
        for n in ("members", "memberships", "dimembers", "dimemberships", "head", "tail", "sources", "targets", "filterby", "filterby_attr", "neighbors", "duplicates",
                  "lookup", "isolates", "singletons", "empty", "maximal", "multi", "ids", "from_view", "__call__", "__getitem__", "__len__", "__iter__", "__repr__",
                  "__and__", "__or__", "__sub__", "items", "keys", "values", "stats"):
            out.append((vn, n))
    return out


FUNCS = functions()
METHS = methods()


def plan(tier):
    k = 60 if tier == "quick" else 4000
    p = {f"fn:{n}": k for n in FUNCS}
    p.update({f"m:{o}.{n}": (30 if tier == "quick" else 2000) for o, n in METHS})
    p["suite"] = 1
    return p


def floors(tier):
    return {"probed-callables>=140": 1, "unprobed<=6": 1, "calls:returned": 6000, "calls:raised": 500, "alias-probes": 300, "sets-probed": 800, "suite:evaluations": 400}


# ---------------------------------------------------------------------------------
def make_net(rng, cls):
    gen = ops.GENS[cls](rng, hostile=False, avoid=frozenset({"none-member", "none-node", "empty-members"}), nkind=rng.choice(("int", "int", "gap", "str")))
    net = ops.new_net(cls)
    for _ in range(rng.randint(2, 9)):
        common.run_op(gen.gen(net), net)
    # make sure there is real structure: a few edges with two or three members over a shared node pool
    pool = gen.npool[:5]
    for _ in range(rng.randint(1, 3)):
        ms = rng.sample(pool, rng.randint(2, 3))
        if cls == "DiHypergraph":
            net.add_edge((ms[:1], ms[1:]))
        elif cls == "SimplicialComplex":
            net.add_simplex(ms)
        else:
            net.add_edge(ms)
    for e in list(net.edges)[:3]:
        net.edges[e]["weight"] = rng.choice((1, 2, 0.5))
    for n in list(net.nodes)[:3]:
        net.nodes[n]["color"] = rng.choice((1, 2, 3))
    net["name"] = "c08"
    # attribute values of mutable container types (a read-only function must not normalise them in place)
    es, ns = list(net.edges), list(net.nodes)
    if es and rng.random() < 0.5:
        net.edges[rng.choice(es)]["tags"] = rng.choice(({"b", "a"}, frozenset({2, 1}), [3, 1, 2], {"k": [1]}, (1, 2)))
    if ns and rng.random() < 0.5:
        net.nodes[rng.choice(ns)]["tags"] = rng.choice(({"b", "a"}, frozenset({2, 1}), [3, 1, 2], {"k": [1]}, (1, 2)))
    if rng.random() < 0.5:
        net["meta"] = rng.choice(({"b", "a"}, [3, 1, 2], {"k": [1]}))
    # attribute NAMES that are not strings (set through the attribute dicts, the documented way to edit attributes)
    if es and rng.random() < 0.3:
        net.edges[rng.choice(es)][rng.choice((2020, 1.5, ("k", 1)))] = "named-by-a-non-string"
    if ns and rng.random() < 0.3:
        net.nodes[rng.choice(ns)][rng.choice((2020, 7, ("k", 1)))] = "named-by-a-non-string"
    return net


def arg_for(name, fn, net, rng, td):
    """Recipe table keyed by parameter name -> (value) or raises KeyError when no recipe exists."""
    ns, es = list(net.nodes), list(net.edges)
    some_n = rng.choice(ns) if ns else 0
    some_e = rng.choice(es) if es else 0
    table = {
        "order": lambda: rng.choice((1, 1, 2, 0)),
        "orders": lambda: [1, 2],
        "weights": lambda: [1, 0.5] if fn == "multiorder_laplacian" else rng.choice((None, "absolute", "normalized")),
        "n": lambda: some_n,
        "source": lambda: some_n,
        "nid1": lambda: some_n,
        "nid2": lambda: rng.choice(ns) if ns else 1,
        "d": lambda: rng.choice((1, 2)),
        "pos": lambda: {n: np.array([rng.random(), rng.random()]) for n in ns},
        "node_pos": lambda: {n: np.array([rng.random(), rng.random()]) for n in ns},
        "path": lambda: os.path.join(td, f"out_{rng.randint(0, 10**6)}"),
        "k2": lambda: 1.0,
        "k3": lambda: 1.0,
        "p": lambda: rng.choice((0.0, 0.5, 1.0)),
        "dag": lambda: xgi.to_encapsulation_dag(net.copy()),
        "nodes": lambda: rng.sample(ns, rng.randint(0, len(ns))) if ns else [],
        "edges": lambda: rng.sample(es, rng.randint(0, len(es))) if es else [],
        "idx": lambda: some_e,
    }
    return table[name]()


OPTIONAL = {
    "sparse": (True, False, np.True_, np.False_), "index": (True, False, np.True_), "weighted": (True, False, np.True_), "s": (1, 2), "normalized": (True, False), "rescale_per_node": (True, False),
    "exact": (True,), "num_samples": (20,), "max_iter": (10,), "return_phantom_graph": (True, False), "seed": (0, 7, None), "kind": None, "subset_types": ("all", "immediate", "empirical"),
    "in_place": (False, False, np.False_, 0), "timesteps": (5,), "n_steps": (5,), "T": (0.1,), "keep_isolates": (True, False), "min_size": (1, 2, 3), "exclude_min_size": (True, False),
    "normalize": (True, False), "max_order": (None, 1, 2), "ignore_singletons": (True, False), "include_self": (True, False), "hull": (False, True), "label_attribute": ("label", "old"),
    "cutoff": (5,), "k": (None,), "collection_name": ("", "c"), "delimiter": (" ", ","), "node_labels": (True, False), "hyperedge_labels": (True, False), "dual": (False, True),
    "order": (None, 1, 2), "equidistant": (False, True),
}
KIND = {"degree_assortativity": ("uniform", "top-2", "top-bottom"), "two_node_clustering_coefficient": ("union", "min", "max")}


def _special_node_swap(net, rng):
    """Arguments for which node_swap actually swaps: an existing order, two nodes that sit in edges of that order."""
    mem = net.edges.members(dtype=dict)
    sizes = sorted({len(m) for m in mem.values() if len(m) >= 1})
    if not sizes:
        raise KeyError("node_swap")
    k = rng.choice(sizes)
    cand = sorted({n for m in mem.values() if len(m) == k for n in m}, key=repr)
    n1 = rng.choice(cand)
    n2 = rng.choice([c for c in cand if c != n1] or cand)
    kw = {"order": k - 1} if rng.random() < 0.7 else {}
    if rng.random() < 0.3:
        kw["id_temp"] = -5
    return [n1, n2], kw


def call_function(name, net, rng, td):
    f = getattr(xgi, name)
    if name == "node_swap" and not isinstance(net, xgi.DiHypergraph) and rng.random() < 0.8:
        a, kw = _special_node_swap(net, rng)
        return (lambda: f(net, *a, **kw)), f"xgi.node_swap(net, {a[0]!r}, {a[1]!r}, {kw})"
    sig = inspect.signature(f)
    ps = list(sig.parameters.values())
    args, kwargs, desc = [net], {}, []
    for p in ps[1:]:
        if p.kind in (p.VAR_POSITIONAL, p.VAR_KEYWORD):
            continue
        if p.default is inspect._empty:
            v = arg_for(p.name, name, net, rng, td)  # KeyError -> unprobed
            args.append(v)
            desc.append(f"{p.name}=<{type(v).__name__}>" if isinstance(v, (dict, list)) and len(repr(v)) > 40 else f"{p.name}={v!r}")
        elif p.name in OPTIONAL and rng.random() < 0.5:
            choices = KIND.get(name) if p.name == "kind" else OPTIONAL[p.name]
            if p.name == "weights" and name == "to_line_graph":
                choices = (None, "absolute", "normalized")
            if choices:
                kwargs[p.name] = rng.choice(choices)
                desc.append(f"{p.name}={kwargs[p.name]!r}")
    return (lambda: f(*args, **kwargs)), f"xgi.{name}(net, {', '.join(desc)})"


def call_method(owner, name, net, rng, td):
    ns, es = list(net.nodes), list(net.edges)
    some_n = rng.choice(ns) if ns else 0
    some_e = rng.choice(es) if es else 0
    if owner in ("nodes", "edges"):
        v = getattr(net, owner)
        di = isinstance(net, xgi.DiHypergraph)
        idc = some_n if owner == "nodes" else some_e
        stat = "degree" if owner == "nodes" else "size"
        table = {
            "members": lambda: (v.members(), v.members(dtype=dict), v.members(idc), v.filterby("size", 2, "geq").members(dtype=dict), v([idc] if es else []).members()) if owner == "edges" else None,
            "memberships": lambda: (v.memberships(), v.memberships(idc), v.filterby("degree", 1, "geq").memberships()) if owner == "nodes" else None,
            "dimembers": lambda: (v.dimembers(), v.dimembers(dtype=dict), v.dimembers(idc)) if di and owner == "edges" else None,
            "dimemberships": lambda: (v.dimemberships(), v.dimemberships(idc)) if di and owner == "nodes" else None,
            "head": lambda: (v.head(), v.head(dtype=dict), v.head(idc)) if di and owner == "edges" else None,
            "tail": lambda: (v.tail(), v.tail(dtype=dict), v.tail(idc)) if di and owner == "edges" else None,
            "sources": lambda: v.sources(dtype=dict) if di and owner == "edges" else None,
            "targets": lambda: v.targets(dtype=dict) if di and owner == "edges" else None,
            "filterby": lambda: list(v.filterby(stat, rng.randint(0, 3), rng.choice(("eq", "neq", "lt", "gt", "leq", "geq")))),
            "filterby_attr": lambda: list(v.filterby_attr("color" if owner == "nodes" else "weight", 1, rng.choice(("eq", "geq")), missing=rng.choice((None, 0)))),
            "neighbors": lambda: v.neighbors(idc, rng.choice((1, 2))),
            "duplicates": lambda: list(v.duplicates()),
            "lookup": lambda: list(v.lookup(rng.sample(es if owner == "nodes" else ns, min(2, len(es if owner == "nodes" else ns))))),
            "isolates": lambda: (list(v.isolates()), list(v.isolates(ignore_singletons=True)) if not di else None) if owner == "nodes" else None,
            "singletons": lambda: list(v.singletons()) if owner == "edges" and not di else None,
            "empty": lambda: list(v.empty()) if owner == "edges" else None,
            "maximal": lambda: (list(v.maximal()), list(v.maximal(strict=True))) if owner == "edges" and not di else None,
            "multi": lambda: v.multi([stat, "attrs"]).asdict(),
            "ids": lambda: v.ids,
            "from_view": lambda: list(type(v).from_view(v, [idc] if (ns if owner == "nodes" else es) else [])),
            "__call__": lambda: list(v([idc] if (ns if owner == "nodes" else es) else [])),
            "__getitem__": lambda: v[idc],
            "__len__": lambda: len(v),
            "__iter__": lambda: list(iter(v)),
            "__repr__": lambda: (repr(v), str(v)),
            "__and__": lambda: v & v,
            "__or__": lambda: v | v,
            "__sub__": lambda: v - v,
            "items": lambda: list(v.items()),
            "keys": lambda: list(v.keys()),
            "values": lambda: list(v.values()),
            "stats": lambda: _all_stats(net, owner, rng),
        }
        return table[name], f"net.{owner}.{name}(...)"
    attr = inspect.getattr_static(getattr(xgi, owner), name, None)
    if isinstance(attr, property):
        return (lambda: getattr(net, name)), f"net.{name}"
    table = {
        "copy": lambda: net.copy(),
        "dual": lambda: net.dual(),
        "cleanup": lambda: net.cleanup(in_place=False, **{k: rng.random() < 0.5 for k in (("isolates", "relabel") if isinstance(net, xgi.DiHypergraph) else ("isolates", "connected", "relabel"))}),
        "has_simplex": lambda: net.has_simplex(rng.sample(ns, min(2, len(ns)))),
        "__len__": lambda: len(net),
        "__iter__": lambda: list(iter(net)),
        "__contains__": lambda: (some_n in net, "zz-absent" in net, [1] in net),
        "__str__": lambda: str(net),
        "__getitem__": lambda: net["name"],
        "__lshift__": lambda: net << _other(net, rng),
        "__ilshift__": lambda: _ilshift(net, rng),
    }
    if name in table:
        return table[name], f"net.{name}(...)"
    f = getattr(net, name)
    sig = inspect.signature(f)
    req = [p for p in sig.parameters.values() if p.default is inspect._empty and p.kind not in (p.VAR_POSITIONAL, p.VAR_KEYWORD)]
    if req:
        raise KeyError(name)
    return (lambda: f()), f"net.{name}()"


def _ilshift(net, rng):
    """`acc <<= other` is the union spelled as augmented assignment: it rebinds `acc`, the network itself stays as it was."""
    acc = net
    acc <<= _other(net, rng)
    return acc


def _other(net, rng):
    """A second operand for `<<`: other edges, overlapping nodes with other attributes, other network attributes."""
    o = net.copy()
    ns = list(o.nodes)
    if ns:
        o.add_edge(rng.sample(ns, min(len(ns), 2)), color="other")
        o.nodes[ns[0]]["color"] = "other"
    o["name"] = "right-operand"
    o["extra"] = [1, 2]
    return o


def _all_stats(net, owner, rng):
    """Every stat of the view's stats module, in several output forms."""
    v = getattr(net, owner)
    mod = {"node": xgi.stats.nodestats, "edge": xgi.stats.edgestats, "dinode": xgi.stats.dinodestats, "diedge": xgi.stats.diedgestats}[v._id_kind]
    out = []
    for sname in mod.__all__:
        st = getattr(v, sname)
        try:
            pars = [p for p in list(inspect.signature(getattr(mod, sname)).parameters)[2:]]
        except (TypeError, ValueError):
            pars = []
        kw = {}
        for pname in pars:  # the option variants: order=, degree=, weight=, kind= ...
            if pname in ("order", "degree") and rng.random() < 0.7:
                kw[pname] = rng.choice((0, 1, 2))
            elif pname == "weight" and rng.random() < 0.5:
                kw[pname] = "weight"
        if kw:
            try:
                out.append(st(**kw).asdict())
            except Exception as exc:
                out.append(type(exc).__name__)
        for form in ("asdict", "aslist", "asnumpy", "aspandas"):
            try:
                out.append(getattr(st, form)())
            except Exception as exc:
                out.append(type(exc).__name__)
        try:
            out.append(getattr(net, sname)())
        except Exception as exc:
            out.append(type(exc).__name__)
    return out


def exhaust(val):
    if inspect.isgenerator(val) or isinstance(val, (map, filter, zip)):
        return list(val)
    return val


def probe_sets(val, depth=0, found=None):
    found = [] if found is None else found
    if depth > 3:
        return found
    if isinstance(val, set):
        found.append(val)
    elif isinstance(val, (list, tuple)):
        for x in val[:50]:
            probe_sets(x, depth + 1, found)
    elif isinstance(val, dict) and not type(val).__module__.startswith(("networkx", "pandas")):
        for x in list(val.values())[:50]:
            probe_sets(x, depth + 1, found)
    return found


def _small_complex(rng, pool):
    """A small complex over (part of) the pool, built simplex by simplex (never through a bulk format)."""
    S = xgi.SimplicialComplex()
    for _ in range(3):
        S.add_simplex(ops.rand_members(rng, list(pool), 1, 3))
    return S


def run_case(mon, kind, idx, rng):
    if kind == "suite":  # the repository's own tests as a workload, observed by xgimon/suite_plugin.py
        return suite.run(mon, PID, mon.tier)
    cls = CLASSES[idx % 3]
    net = make_net(rng, cls)
    if snap.inv(net):
        mon.note("discarded-invalid-start")
        return
    if kind.startswith("fn:") and idx == 0 and kind == f"fn:{FUNCS[0]}":
        pass
    with tempfile.TemporaryDirectory(prefix="xgimon-c08-") as td:
        name = kind.split(":", 1)[1]
        try:
            if kind.startswith("fn:"):
                thunk, desc = call_function(name, net, rng, td)
            else:
                owner, m = name.split(".", 1)
                if owner in ("Hypergraph", "DiHypergraph", "SimplicialComplex"):
                    if owner != cls:
                        net = make_net(rng, owner)
                        cls = owner
                thunk, desc = call_method(owner, m, net, rng, td)
        except KeyError:
            mon.note(f"unprobed:{name}")
            return
        if cls == "SimplicialComplex" and name.endswith(("dual", "draw_bipartite")) and net.num_nodes and max(net.degree().values()) > 6:
            # the dual of a complex is built as a complex: a node of degree d becomes a d-simplex with 2^d faces.
            # Not a mutation question - keep the input small enough for the call to finish.
            net = _small_complex(rng, list(net.nodes)[:5])
            if kind.startswith("m:"):
                thunk, desc = call_method("SimplicialComplex", name.split(".", 1)[1], net, rng, td)
            else:
                thunk, desc = call_function(name, net, rng, td)
        before = snap.snap(net, uid=True)
        with warnings.catch_warnings():
            warnings.simplefilter("ignore")
            try:
                val = exhaust(thunk())
                outcome = "returned"
            except Exception as exc:
                val, outcome = exc, f"raised:{type(exc).__name__}"
            finally:
                plt.close("all")
        mon.ev()
        mon.note(f"probed:{name}")
        mon.note("calls:returned" if outcome == "returned" else "calls:raised")
        if outcome == "returned":
            mon.note(f"ret:{name}")
        try:
            after = snap.snap(net, uid=True)
        except Exception as exc:
            after = f"<unobservable {type(exc).__name__}: {exc}>"
        if after != before:
            mon.fail(f"{name}|{cls}|input-mutated", f"{desc} ({outcome}) changed its input network",
                     f"before: {_p(before)}\nafter:  {_p(after)}")
            return
        if before[2]:
            mon.nontrivial((name, cls, desc, repr(before[:3])))
        if outcome == "returned" and val is not None:
            sets = probe_sets(val)
            if sets:
                mon.note("alias-probes")
                for s in sets:
                    mon.note("sets-probed")
                    s.add("<xgimon-sentinel>")
                mon.ev()
                # attribute *values* may themselves be sets (merge_rule="union") and attribute dicts are live by
                # design: the alias probe is about the structural tables only
                after2 = structural(snap.snap(net, uid=True))
                if after2 != structural(before):
                    mon.fail(f"{name}|{cls}|internal-set-handed-out", f"{desc}: mutating a set found in the return value changed the network (an internal set was returned without copying)",
                             f"before: {_p(before)}\nafter:  {_p(after2)}")
                    return
        mon.sample(f"{cls}: {desc} -> {outcome}", cap=12)


def structural(s):
    """The snapshot without attribute values: class, node order, (edge, members) in order, memberships, next uid."""
    return (s[0], [n for n, _ in s[1]], [(e, m) for e, m, _ in s[2]], s[3], s[5])


def _p(s):
    return repr(s)[:1200]


def extra_coverage(mon):
    probed = sorted(k[7:] for k in mon.counters if k.startswith("probed:"))
    unprobed = sorted(k[9:] for k in mon.counters if k.startswith("unprobed:"))
    unprobed = [u for u in unprobed if u not in probed]
    never_returned = [p for p in probed if not mon.counters.get(f"ret:{p}")]
    if len(probed) >= 140:
        mon.counters["probed-callables>=140"] = 1
    if len(unprobed) <= 6:
        mon.counters["unprobed<=6"] = 1
    return {"callables_probed": len(probed), "callables_unprobed": unprobed, "callables_that_never_returned": never_returned,
            "functions_enumerated": len(FUNCS), "methods_enumerated": len(METHS)}
