"""C15 - simpliciality measures match their combinatorial definitions (DESIGN §2 C15).

Post-condition monitor against exhaustive enumeration.  For a hypergraph without repeated
or empty edges and every (min_size, exclude_min_size, normalize) setting the five public
functions of xgi/algorithms/simpliciality.py are called and compared with definitions
evaluated by brute force over all subsets of the edges (family E of member sets taken from
H.edges.members(dtype=dict); no Trie, no EdgeView.maximal, no inclusion-exclusion):

  eligible edge          : |e| >= min_size + exclude_min_size
  maximal edge           : not a strict subset of another edge
  missing(min_size)      : node sets S, |S| >= min_size, S strictly inside a maximal edge, S not in E
  simplicial_edit_distance(normalize=False) = |missing|
  simplicial_edit_distance(normalize=True)  = |missing| / (|missing| + #present sub-edges)   (see ASSUMPTIONS for the sandwich)
  simplicial_fraction    = #{eligible e : every S <= e with |S| >= min_size is in E} / #eligible
  mean_face_edit_distance= mean over eligible maximal e of (#missing strict subsets of e, size >= min_size) [/ #such subsets]
  edit_simpliciality = 1 - normalized edit distance, face_edit_simpliciality = 1 - normalized mean face edit distance
  all three scores in [0, 1] or NaN; equal to 1 (NaN only when nothing is eligible / nothing to count) on inputs that are
  downward closed above min_size.

Besides fresh objects (kinds random / closed / exhaustive) the kind `sequence` asks the same questions repeatedly of one
object that is edited in place in between (keys "<function>|same-object-after-edit|value-stale-or-wrong" and
"<function>|second-call-without-edit|differs-from-first-call").
"""
import math
from itertools import combinations

from .. import ops, snap
from ..env import xgi

PID = "C15"
ANCHORS = ("xgi/algorithms/simpliciality.py", "xgi/utils/trie.py", "xgi/core/views.py")
RULE = (
    "case = one hypergraph without repeated or empty edges built through add_nodes_from/add_edge (kinds random / closed: <= 6 nodes, <= 8 edges, sizes 1-5, "
    "int / gapped-int / str labels, shapes random, nested, overlapping maximal faces, near-closed, closed above k; kind exhaustive: the idx-th hypergraph on 4 nodes "
    "in the enumeration of all families of <= 5 distinct non-empty edges) x 12 settings (min_size 1-3 x exclude_min_size x normalize) + the default-argument calls. "
    "kind sequence: ONE network object is queried (all functions x all settings), queried again without an edit, then edited in place 2-4 times through the public API "
    "(add_node_to_edge / remove_node_from_edge / remove_edge+add_edge(idx=same id) / double_edge_swap keep the node- and edge-ID sets; add/remove edge, add/remove node change them; "
    "edits are chosen so that no repeated or empty edge arises) and queried again after every edit, each time against the enumeration over the CURRENT members(). "
    "kind scale: n = (11,16,24,33,47,60,85,120,170,249,250,251,260,300,380,470,600)[idx % 17] nodes, up to 400 distinct edges of size <= 4 (n <= 60: also one edge of 6-7 nodes with sub-edges), "
    "flavour (labels, edge IDs) a deterministic function of idx; planted complete triangles, partially closed triangles, 4-edges with some faces, pairs of maximal faces sharing a missing pair, "
    "singletons, isolated nodes; all 12 settings + defaults. "
    "one evaluation = one return value compared with brute-force enumeration. distinct_nontrivial = distinct (labels, family of member sets) with an edge of size >= 3"
)
ASSUMPTIONS = [
    "inputs: no repeated member sets, no empty edges, orderable node labels of one type (ints or strings); isolated nodes allowed",
    "the oracle enumerates all subsets of every edge from H.edges.members(dtype=dict); it uses neither Trie nor EdgeView.maximal",
    "eligibility follows the docstrings: edges (maximal edges) of size >= min_size + exclude_min_size; a maximal edge with no possible sub-edge (size == min_size) has missing share 0 (Notes 2: minimal faces are simplices)",
    "normalize=True of simplicial_edit_distance is not pinned by the property statement beyond range/closure; the oracle requires |missing| / (|missing| + p) with p between "
    "the number of non-maximal edges of size >= min_size and that number plus the maximal edges of size == min_size when exclude_min_size=True (xgi uses the upper p; both agree when exclude_min_size=False)",
    "when nothing is eligible (no eligible edge / no eligible maximal edge / no sub-edge present or missing) NaN or the degenerate value (distance 0, score 1) is accepted",
    "float comparisons with absolute tolerance 1e-12; unnormalized edit distance must be an exact integer value",
    "start states that fail the C01 structural invariant are discarded and counted",
    "sequence kind: a function value may depend only on the current incidence structure, not on what was asked of the same object before (staleness of any memoised intermediate, e.g. of EdgeView.maximal, "
    "is a wrong value); a sequence ends at the first monitor that fires or when an edit would leave the statement's input space",
]
TECHNIQUE = "runtime monitoring: post-condition monitor against exhaustive subset enumeration"
CASE_TIMEOUT = 60

MIN_SIZES = (1, 2, 3)
TOL = 1e-12
NAN = float("nan")

# ---------------------------------------------------------------------------------
# the exhaustive family: all hypergraphs on 4 nodes with <= 5 distinct non-empty edges
# ---------------------------------------------------------------------------------
_SUBSETS4 = [c for k in range(1, 5) for c in combinations(range(4), k)]  # 15 non-empty subsets
_EXH_MAX_EDGES = {"quick": 4, "thorough": 5}
_EXH_LABELS = ([0, 1, 2, 3], [7, -2, 30, 11], ["a", "n10", "n2", "b"])
_exh_cache = {}


def _exh_family(max_edges):
    if max_edges not in _exh_cache:
        _exh_cache[max_edges] = [fam for m in range(0, max_edges + 1) for fam in combinations(_SUBSETS4, m)]
    return _exh_cache[max_edges]


def _exh_count(tier):
    return sum(math.comb(15, m) for m in range(0, _EXH_MAX_EDGES[tier] + 1))  # 1941 / 4944


def plan(tier):
    if tier == "quick":
        return {"random": 3000, "closed": 720, "sequence": 500, "scale": 51, "exhaustive": _exh_count("quick")}
    return {"random": 240000, "closed": 57600, "sequence": 40000, "scale": 1020, "exhaustive": _exh_count("thorough")}


def floors(tier):
    f = {  # minima per 500 random + 120 closed cases (about 0.7 x the smallest value observed over seeds; the exhaustive kind only adds to them)
        "fn:simplicial_edit_distance": 7000, "fn:edit_simpliciality": 4000, "fn:simplicial_fraction": 4000,
        "fn:mean_face_edit_distance": 7000, "fn:face_edit_simpliciality": 4000, "default-argument-calls": 3000,
        "in:labels:int": 100, "in:labels:gap": 100, "in:labels:str": 100, "in:no-edges": 10, "in:one-edge": 40, "in:only-singleton-edges": 15,
        "in:redundant-missing-face": 300, "in:overlapping-maximal-faces": 350, "in:closed-above-min_size": 1100,
        "in:closed-with-eligible-edge-of-size>=3": 170,
        "val:sed>0": 1500, "val:sed-nan": 500, "val:sf-strictly-between-0-and-1": 400, "val:sf=1": 450, "val:sf=0": 1000,
        "val:mfed-strictly-between-0-and-1": 1100, "val:sed-normalized-exact": 2000, "val:sed-normalized-sandwich": 50,
        "score-range-evaluations": 12000, "closed-clause-evaluations": 3500,
    }
    scale = plan(tier)["random"] // 500
    f = {k: v * scale for k, v in f.items()}
    seq = {  # minima per 500 sequences (at most 0.5 x the smallest value observed over seeds 0..15)
        "seq:second-call-evaluations": 500, "seq:evaluations-after-edit": 700, "seq:members-changed-with-same-id-sets": 440,
        "seq:maximal-edges-changed-with-same-id-sets": 130, "seq:id-sets-changed": 230,
        "seq:edit:add_node_to_edge": 105, "seq:edit:remove_node_from_edge": 120, "seq:edit:replace_edge": 150, "seq:edit:double_edge_swap": 45,
        "seq:edit:add_edge": 65, "seq:edit:remove_edge": 85, "seq:edit:add_node": 25, "seq:edit:remove_node": 44,
    }
    sscale = plan(tier)["sequence"] // 500
    f.update({k: v * sscale for k, v in seq.items()})
    scl = {  # per pass over the 17 sizes of the scale kind; sizes and planted structure are deterministic functions of idx
        "scale:11<=n<=60": 6, "scale:61<=n<=250": 5, "scale:n>250": 6, "scale:n>250:planted-simplices": 70, "scale:n>250:planted-overlap": 50,
        "scale:n>250:planted-partial": 70, "scale:n>250:planted-four": 30, "scale:61<=n<=250:planted-simplices": 25, "scale:11<=n<=60:largest-edge>=6": 1,
    }
    cscale = plan(tier)["scale"] // 17
    f.update({k: v * cscale for k, v in scl.items()})
    f["exhaustive:hypergraphs"] = _exh_count(tier)
    return f


def extra_coverage(mon):
    tier = mon.tier if mon.tier in _EXH_MAX_EDGES else "quick"
    k = _EXH_MAX_EDGES[tier]
    return {
        "exhaustive": mon.counters.get("exhaustive:hypergraphs", 0) == _exh_count(tier),
        "exhaustive_families_run": mon.counters.get("exhaustive:hypergraphs", 0),
        "exhaustive_bound": f"all hypergraphs on 4 labelled nodes with <= {k} distinct non-empty edges ({_exh_count(tier)} families; label kind and edge "
                            f"insertion order vary with the index / seed) x 12 settings of (min_size in 1..3, exclude_min_size, normalize) for all five functions",
    }


# ---------------------------------------------------------------------------------
# brute-force definitions
# ---------------------------------------------------------------------------------
class Oracle:
    def __init__(self, family):
        self.edges = list(family)  # list of frozensets, pairwise distinct
        self.E = set(self.edges)
        bysize = {}
        for e in self.edges:
            bysize.setdefault(len(e), []).append(e)
        self.nonmax = {e for e in self.edges if any(e < f for k, fs in bysize.items() if k > len(e) for f in fs)}
        self.maximal = [e for e in self.edges if e not in self.nonmax]

    @staticmethod
    def subsets(e, lo, hi):
        for k in range(max(lo, 0), hi + 1):
            for sub in combinations(list(e), k):
                yield frozenset(sub)

    def evaluate(self, min_size, exclude):
        E = self.E
        thr = min_size + (1 if exclude else 0)
        elig = [e for e in self.edges if len(e) >= thr]
        elig_max = [e for e in self.maximal if len(e) >= thr]
        # missing node sets: inside some maximal edge, size >= min_size, not an edge (enumerated over ALL maximal edges, as the statement says)
        missing = set()
        inside_count = {}
        for e in self.maximal:
            for s in self.subsets(e, min_size, len(e) - 1):
                if s not in E:
                    missing.add(s)
                    inside_count[s] = inside_count.get(s, 0) + 1
        ms = len(missing)
        redundant = any(v > 1 for v in inside_count.values())
        overlapping = any(len(a & b) >= min_size for a, b in combinations(elig_max, 2))
        nonmax = sum(1 for e in self.nonmax if len(e) >= min_size)
        p_lo = nonmax
        p_hi = nonmax + (sum(1 for e in self.maximal if len(e) == min_size) if exclude else 0)
        # simplicial fraction
        simp = [e for e in elig if all(s in E for s in self.subsets(e, min_size, len(e)))]
        sf = len(simp) / len(elig) if elig else None
        # mean face edit distance
        per_face = []
        for e in elig_max:
            d = m = 0
            for s in self.subsets(e, min_size, len(e) - 1):
                m += 1
                if s not in E:
                    d += 1
            per_face.append((d, m))
        if per_face:
            mfed_raw = sum(d for d, m in per_face) / len(per_face)
            mfed_norm = sum((d / m if m else d) for d, m in per_face) / len(per_face)
        else:
            mfed_raw = mfed_norm = None
        closed = all(s in E for e in self.edges for s in self.subsets(e, min_size, len(e) - 1))
        return {
            "ms": ms, "elig": len(elig), "elig_max": len(elig_max), "p_lo": p_lo, "p_hi": p_hi, "sf": sf, "mfed_raw": mfed_raw,
            "mfed_norm": mfed_norm, "closed": closed, "redundant": redundant, "overlapping": overlapping,
        }


def _isnan(x):
    try:
        return math.isnan(x)
    except TypeError:
        return False


def _num(x):
    """float(x) for real numbers (python / numpy), else None."""
    if isinstance(x, bool):
        return None
    try:
        return float(x)
    except (TypeError, ValueError):
        return None


def _close(a, b):
    return abs(a - b) <= TOL


# ---------------------------------------------------------------------------------
# the monitor for one hypergraph
# ---------------------------------------------------------------------------------
PHASE_CLAUSE = {"same-object-after-edit": "value-stale-or-wrong", "second-call-without-edit": "differs-from-first-call"}


def monitor_hypergraph(mon, H, how, min_sizes=MIN_SIZES, phase=None, size_tag=None):
    """All five functions x all settings on the *current* state of H.  Returns the oracle; `.fired` tells whether a monitor fired.

    phase (sequence kind): None for a fresh object; otherwise the trigger class of the key - the object has been queried
    before and was edited in place since ("same-object-after-edit") or not ("second-call-without-edit").
    """
    members = H.edges.members(dtype=dict)
    family = [frozenset(m) for m in members.values()]
    assert len(set(family)) == len(family) and all(family), "generator produced a repeated or empty edge"
    orc = Oracle(family)
    shown = {e: sorted(m) for e, m in members.items()}
    if phase is None:
        mon.note("in:no-edges" if not family else ("in:one-edge" if len(family) == 1 else "in:several-edges"))
        if family and all(len(e) == 1 for e in family):
            mon.note("in:only-singleton-edges")

    orc.fired = 0

    def fire(fn, opt, clause, what):
        orc.fired += 1
        if phase:
            key, what = f"{fn}|{phase}|{PHASE_CLAUSE[phase]}", f"[{phase}; {opt}: {clause}] {what}"
        else:
            key = f"{fn}|{opt}{',' + size_tag if size_tag else ''}|{clause}"
        mon.fail(key, f"{fn}: {what}", f"import xgi; {how}\n# current members={shown!r}")
        return False

    def check_distance(fn, opt, args, got, exact, lo_hi, nothing_eligible):
        """got must be `exact` (or within lo_hi); NaN/0 when nothing is eligible."""
        g = _num(got)
        if g is None:
            return fire(fn, opt, "not-a-number", f"{args}: returned {got!r}")
        if nothing_eligible:
            if _isnan(g) or g == 0:
                return True
            return fire(fn, opt, "nonzero-although-nothing-eligible", f"{args}: returned {got!r} although nothing is eligible (expected NaN or 0)")
        if _isnan(g):
            return fire(fn, opt, "nan-although-defined", f"{args}: returned NaN, enumeration gives {exact if exact is not None else lo_hi!r}")
        if exact is not None:
            if not _close(g, exact):
                return fire(fn, opt, "differs-from-enumeration", f"{args}: returned {got!r}, exhaustive enumeration gives {exact!r}")
        else:
            lo, hi = lo_hi
            if not (lo - TOL <= g <= hi + TOL):
                return fire(fn, opt, "differs-from-enumeration", f"{args}: returned {got!r}, exhaustive enumeration admits [{lo!r}, {hi!r}]")
        return True

    def check_score(fn, args, got, o, eligible, exact=None, lo_hi=None):
        """One of the three simpliciality scores: value (when something is eligible), range and closure clauses.

        The value clause comes first: a wrong value usually also leaves [0, 1] or breaks the closure clause, and one
        mechanism should be reported under one key.
        """
        g = _num(got)
        if g is None:
            return fire(fn, "score", "not-a-number", f"{args}: returned {got!r}")
        if eligible:
            mon.ev()
            if _isnan(g):
                return fire(fn, "score", "nan-although-defined", f"{args}: NaN, enumeration gives {exact if exact is not None else lo_hi!r}")
            if exact is not None and not _close(g, exact):
                return fire(fn, "score", "differs-from-enumeration", f"{args}: returned {got!r}, exhaustive enumeration gives {exact!r}")
            if exact is None and not (lo_hi[0] - TOL <= g <= lo_hi[1] + TOL):
                return fire(fn, "score", "differs-from-enumeration", f"{args}: returned {got!r}, exhaustive enumeration admits [{lo_hi[0]!r}, {lo_hi[1]!r}]")
        mon.note("score-range-evaluations")
        mon.ev()
        if not _isnan(g) and not (-TOL <= g <= 1 + TOL):
            return fire(fn, "score", "outside-[0,1]", f"{args}: returned {got!r}")
        if o["closed"]:
            mon.note("closed-clause-evaluations")
            mon.ev()
            if _isnan(g):
                if eligible:
                    return fire(fn, "downward-closed", "nan-although-eligible", f"{args}: NaN on an input that is downward closed above min_size and has eligible edges")
            elif not _close(g, 1.0):
                return fire(fn, "downward-closed", "not-1", f"{args}: returned {got!r} on an input that is downward closed above min_size"
                            + ("" if eligible else " (nothing eligible: 1 or NaN expected)"))
        return True

    def settings():
        yield None  # default arguments
        for ms in min_sizes:
            for ex in (True, False):
                yield (ms, ex)

    cache = {}
    for st in settings():
        if st is None:
            min_size, exclude, kw, tag = 2, True, {}, "defaults"
            mon.note("default-argument-calls", 5)
        else:
            min_size, exclude = st
            kw, tag = {"min_size": min_size, "exclude_min_size": exclude}, f"min_size={min_size}, exclude_min_size={exclude}"
        if (min_size, exclude) not in cache:
            cache[(min_size, exclude)] = orc.evaluate(min_size, exclude)
        o = cache[(min_size, exclude)]
        if st is not None:
            if o["redundant"]:
                mon.note("in:redundant-missing-face")
            if o["overlapping"]:
                mon.note("in:overlapping-maximal-faces")
            if o["closed"]:
                mon.note("in:closed-above-min_size")
                if o["elig"] and any(len(e) >= 3 and len(e) > min_size for e in orc.edges):
                    mon.note("in:closed-with-eligible-edge-of-size>=3")
        ms, p_lo, p_hi = o["ms"], o["p_lo"], o["p_hi"]
        no_max = o["elig_max"] == 0
        lo, hi, degenerate = _normalized_bounds(ms, p_lo, p_hi)
        # normalize=False first: it is the definition the statement spells out; the normalized value and the
        # score (1 - normalized distance) are only examined when the count itself was right.
        norms = (False, True) if st is not None else (None,)

        # ---- simplicial_edit_distance / edit_simpliciality -------------------------------
        ok = True
        for nz in norms:
            k = dict(kw) if nz is None else dict(kw, normalize=nz)
            mon.note("fn:simplicial_edit_distance")
            mon.ev()
            got = xgi.simplicial_edit_distance(H, **k)
            if nz is False:
                ok = check_distance("simplicial_edit_distance", "normalize=False", tag, got, ms, None, no_max)
                if ok and not no_max and _num(got) != float(ms):
                    ok = fire("simplicial_edit_distance", "normalize=False", "differs-from-enumeration", f"{tag}: returned {got!r}, enumeration counts {ms}")
                mon.note("val:sed-nan" if no_max else ("val:sed>0" if ms else "val:sed=0"))
            else:
                ok = check_distance("simplicial_edit_distance", "normalize=True", tag, got, None, (lo, hi), no_max or degenerate)
                if not (no_max or degenerate) and nz is True:
                    mon.note("val:sed-normalized-exact" if lo == hi else "val:sed-normalized-sandwich")
            if not ok:
                break
        mon.note("fn:edit_simpliciality")
        got = xgi.edit_simpliciality(H, **kw)
        if ok:
            check_score("edit_simpliciality", tag, got, o, eligible=not (no_max or degenerate), lo_hi=(1 - hi, 1 - lo))
        # ---- simplicial_fraction -------------------------------------------------------
        mon.note("fn:simplicial_fraction")
        got = xgi.simplicial_fraction(H, **kw)
        check_score("simplicial_fraction", tag, got, o, eligible=o["sf"] is not None, exact=o["sf"])
        if st is not None and o["sf"] is not None:
            mon.note("val:sf=1" if o["sf"] == 1 else ("val:sf=0" if o["sf"] == 0 else "val:sf-strictly-between-0-and-1"))
        # ---- mean_face_edit_distance / face_edit_simpliciality --------------------------
        ok = True
        for nz in norms:
            k = dict(kw) if nz is None else dict(kw, normalize=nz)
            mon.note("fn:mean_face_edit_distance")
            mon.ev()
            got = xgi.mean_face_edit_distance(H, **k)
            exact = o["mfed_raw"] if nz is False else o["mfed_norm"]
            ok = check_distance("mean_face_edit_distance", f"normalize={nz is not False}", tag, got, exact, None, no_max)
            if not ok:
                break
            if nz is True and exact is not None and 0 < exact < 1:
                mon.note("val:mfed-strictly-between-0-and-1")
        mon.note("fn:face_edit_simpliciality")
        got = xgi.face_edit_simpliciality(H, **kw)
        if ok:
            check_score("face_edit_simpliciality", tag, got, o, eligible=not no_max, exact=None if no_max else 1 - o["mfed_norm"])
    return orc


def _normalized_bounds(ms, p_lo, p_hi):
    """(lo, hi, degenerate) for |missing| / (|missing| + p), p_lo <= p <= p_hi."""
    if ms + p_lo == 0:
        # nothing missing and possibly nothing present: 0/0 for the lower p; 0 for a larger p
        return 0.0, 0.0, True
    return ms / (ms + p_hi), ms / (ms + p_lo), False


# ---------------------------------------------------------------------------------
# inputs
# ---------------------------------------------------------------------------------
SHAPES = ("random", "nested", "overlap", "near-closed", "small")


def _family(rng, pool, shape):
    n = len(pool)
    fam = set()

    def add(ms):
        if ms and len(fam) < 8:
            fam.add(frozenset(ms))

    if shape == "random":
        for _ in range(rng.randint(1, 8)):
            add(ops.rand_members(rng, pool, 1, min(5, n)))
    elif shape == "small":
        for _ in range(rng.randint(0, 3)):
            add(ops.rand_members(rng, pool, 1, 3))
    elif shape == "nested":
        for _ in range(rng.randint(1, 2)):
            add(ops.rand_members(rng, pool, 3, min(5, n)))
        for _ in range(rng.randint(2, 7)):
            base = list(rng.choice(sorted(fam, key=lambda s: sorted(map(repr, s)))))
            add(rng.sample(base, rng.randint(1, len(base))))
    elif shape == "overlap":
        core = rng.sample(pool, min(n - 1, rng.randint(2, 3)))
        rest = [x for x in pool if x not in core]
        for _ in range(rng.randint(2, 3)):
            add(core[: rng.randint(2, len(core))] + rng.sample(rest, rng.randint(1, min(2, len(rest)))))
        for _ in range(rng.randint(0, 5)):
            base = list(rng.choice(sorted(fam, key=lambda s: sorted(map(repr, s)))))
            add(rng.sample(base, rng.randint(1, len(base))))
    else:  # near-closed: closure of one or two faces (above k) with a few sets removed, capped at 8
        k = rng.randint(1, 2)
        faces = [ops.rand_members(rng, pool, 2, min(4, n)) for _ in range(rng.randint(1, 2))]
        allsets = set()
        for f in faces:
            for r in range(k, len(f) + 1):
                allsets.update(frozenset(c) for c in combinations(f, r))
        allsets = sorted(allsets, key=lambda s: (-len(s), sorted(map(repr, s))))
        drop = rng.randint(0, 2)
        keep = allsets[:]
        for _ in range(drop):
            if len(keep) > 1:
                keep.pop(rng.randrange(len(keep)))
        for s in keep[:8]:
            fam.add(s)
    return fam


def _closed_family(rng, pool):
    """Downward closed above k (k in 1..3): all subsets of size >= k of 1-3 faces."""
    n = len(pool)
    k = rng.choice((1, 2, 2, 3))
    fam = set()
    for _ in range(rng.randint(1, 3)):
        f = ops.rand_members(rng, pool, 1, min(4, n))
        for r in range(min(k, len(f)), len(f) + 1):
            fam.update(frozenset(c) for c in combinations(f, r))
    return fam


def _build(rng, mon, pool, fam, nkind):
    """Build H from a family of member sets through the public API; returns (H, how, explicit_ids, edge_id_pool)."""
    edges = [rng.sample(sorted(e, key=repr), len(e)) for e in fam]
    rng.shuffle(edges)
    explicit = rng.random() < 0.4
    _, epool = ops.eid_pool(rng, k=10)
    while len(epool) < len(edges):
        epool.append(("x%d" % len(epool)) if isinstance(epool[0], str) else 100 + len(epool))
    H = xgi.Hypergraph()
    steps = []
    if rng.random() < 0.5 or not edges:
        first = rng.sample(pool, rng.randint(1, len(pool)))
        H.add_nodes_from(first)
        steps.append(f"H.add_nodes_from({first!r})")
    for i, e in enumerate(edges):
        if explicit:
            H.add_edge(e, idx=epool[i])
            steps.append(f"H.add_edge({e!r}, idx={epool[i]!r})")
        else:
            H.add_edge(e)
            steps.append(f"H.add_edge({e!r})")
    mon.note(f"in:labels:{nkind}")
    return H, "H = xgi.Hypergraph(); " + "; ".join(steps), explicit, epool



# ---------------------------------------------------------------------------------
# sequences on ONE network object: evaluate, edit in place, evaluate again
# ---------------------------------------------------------------------------------
ID_PRESERVING = ("add_node_to_edge", "remove_node_from_edge", "replace_edge", "double_edge_swap")
ID_CHANGING = ("add_edge", "remove_edge", "add_node", "remove_node")


def _pre_ok(members):
    vals = [frozenset(m) for m in members.values()]
    return all(vals) and len(set(vals)) == len(vals)


def _maximal_ids(members):
    return frozenset(e for e, m in members.items() if not any(m < f for f in members.values()))


def _propose_edit(rng, H, pool, explicit, epool):
    """An in-place edit (through the public API) after which the input is still inside the statement's input space
    (no repeated, no empty edge), chosen by simulating it on the member sets.  Returns (name, text, thunk) or None."""
    mem = {e: frozenset(m) for e, m in H.edges.members(dtype=dict).items()}
    nodes = list(H.nodes)
    eids = list(mem)
    for _ in range(12):
        name = rng.choice(ID_PRESERVING) if rng.random() < 0.7 else rng.choice(ID_CHANGING)
        pred = dict(mem)
        if name == "add_node_to_edge" and eids:
            e = rng.choice(eids)
            cand = [n for n in nodes if n not in mem[e]]
            if not cand:
                continue
            n = rng.choice(cand)
            pred[e] = mem[e] | {n}
            text, thunk = f"H.add_node_to_edge({e!r}, {n!r})", (lambda e=e, n=n: H.add_node_to_edge(e, n))
        elif name == "remove_node_from_edge" and eids:
            e = rng.choice(eids)
            if len(mem[e]) < 2:
                continue
            n = rng.choice(sorted(mem[e], key=repr))
            pred[e] = mem[e] - {n}
            if rng.random() < 0.5:
                text, thunk = f"H.remove_node_from_edge({e!r}, {n!r}, remove_empty=False)", (lambda e=e, n=n: H.remove_node_from_edge(e, n, remove_empty=False))
            else:
                text, thunk = f"H.remove_node_from_edge({e!r}, {n!r})", (lambda e=e, n=n: H.remove_node_from_edge(e, n))
        elif name == "replace_edge" and eids:
            e = rng.choice(eids)
            new = ops.rand_members(rng, nodes, 1, min(5, len(nodes)))
            del pred[e]
            pred[e] = frozenset(new)

            def thunk(e=e, new=new):
                H.remove_edge(e)
                H.add_edge(list(new), idx=e)
            text = f"H.remove_edge({e!r}); H.add_edge({new!r}, idx={e!r})"
        elif name == "double_edge_swap" and len(eids) >= 2:
            e1, e2 = rng.sample(eids, 2)
            c1, c2 = sorted(mem[e1] - mem[e2], key=repr), sorted(mem[e2] - mem[e1], key=repr)
            if not c1 or not c2:
                continue
            n1, n2 = rng.choice(c1), rng.choice(c2)
            pred[e1] = mem[e1] - {n1} | {n2}
            pred[e2] = mem[e2] - {n2} | {n1}
            text, thunk = f"H.double_edge_swap({n1!r}, {n2!r}, {e1!r}, {e2!r})", (lambda a=n1, b=n2, c=e1, d=e2: H.double_edge_swap(a, b, c, d))
        elif name == "add_edge" and len(eids) < 9:
            new = ops.rand_members(rng, pool, 1, min(5, len(pool)))
            if explicit:
                free = [x for x in epool if x not in mem]
                if not free:
                    continue
                i = rng.choice(free)
                pred[i] = frozenset(new)
                text, thunk = f"H.add_edge({new!r}, idx={i!r})", (lambda new=new, i=i: H.add_edge(list(new), idx=i))
            else:
                pred["<auto>"] = frozenset(new)
                text, thunk = f"H.add_edge({new!r})", (lambda new=new: H.add_edge(list(new)))
        elif name == "remove_edge" and eids:
            e = rng.choice(eids)
            del pred[e]
            text, thunk = f"H.remove_edge({e!r})", (lambda e=e: H.remove_edge(e))
        elif name == "add_node":
            cand = [n for n in pool if n not in nodes]
            if not cand:
                continue
            n = rng.choice(cand)
            text, thunk = f"H.add_node({n!r})", (lambda n=n: H.add_node(n))
        elif name == "remove_node" and len(nodes) >= 2:
            n = rng.choice(nodes)
            pred = {e: m - {n} for e, m in mem.items() if m - {n}}
            text, thunk = f"H.remove_node({n!r})", (lambda n=n: H.remove_node(n))
        else:
            continue
        if _pre_ok(pred):
            return name, text, thunk
    return None


def run_sequence(mon, rng):
    nkind, pool = ops.node_pool(rng, k=rng.randint(4, 6))
    shape = rng.choice(("random", "nested", "overlap", "near-closed"))
    fam = _family(rng, pool, shape)
    H, how, explicit, epool = _build(rng, mon, pool, fam, nkind)
    if snap.inv(H):
        mon.note("discarded-invalid-input")
        return
    # first query of a fresh object, then the same queries again without an edit
    orc = monitor_hypergraph(mon, H, how)
    if orc.fired:
        return
    mon.note("seq:second-call-evaluations")
    if monitor_hypergraph(mon, H, how + "  # every function already called once on H", phase="second-call-without-edit").fired:
        return
    for step in range(rng.randint(2, 4)):
        ed = _propose_edit(rng, H, pool, explicit, epool)
        if ed is None:
            mon.note("seq:no-admissible-edit")
            break
        name, text, thunk = ed
        before = {e: frozenset(m) for e, m in H.edges.members(dtype=dict).items()}
        ids_before = (frozenset(H.nodes), frozenset(before))
        thunk()
        how = how + f"\n<all five functions called on H>; {text}"
        after = {e: frozenset(m) for e, m in H.edges.members(dtype=dict).items()}
        if not _pre_ok(after) or snap.inv(H):
            mon.note("seq:precondition-lost-after-edit")  # outside the statement's input space: stop here
            return
        mon.note(f"seq:edit:{name}")
        same_ids = ids_before == (frozenset(H.nodes), frozenset(after))
        if same_ids and after != before:
            mon.note("seq:members-changed-with-same-id-sets")
            if _maximal_ids(before) != _maximal_ids(after):
                mon.note("seq:maximal-edges-changed-with-same-id-sets")
        elif not same_ids:
            mon.note("seq:id-sets-changed")
        mon.note("seq:evaluations-after-edit")
        if monitor_hypergraph(mon, H, how, phase="same-object-after-edit").fired:
            return
        if rng.random() < 0.4:
            mon.note("seq:second-call-evaluations")
            if monitor_hypergraph(mon, H, how + "\n<all five functions called on H>", phase="second-call-without-edit").fired:
                return
    mon.nontrivial(("seq", how))
    mon.sample(how)


# ---------------------------------------------------------------------------------
# the size regime: medium (11-60 nodes, a few edges up to size 7) and large (61-600 nodes, edges of size <= 4)
# ---------------------------------------------------------------------------------
SCALE_SIZES = (11, 16, 24, 33, 47, 60, 85, 120, 170, 249, 250, 251, 260, 300, 380, 470, 600)  # 17 sizes: n = SCALE_SIZES[idx % 17]
MAX_SCALE_EDGES = 400


def build_scaled(rng, idx):
    """A sparse hypergraph without repeated / empty edges whose size and flavour are deterministic functions of idx
    (label kind idx % 3, explicit edge IDs (idx // 3) % 2, one 6-7 node edge for n <= 60 and idx % 2 == 0); planted in
    every case: complete triangles (simplices), partially closed triangles, 4-edges with some faces, pairs of maximal
    faces sharing a missing pair (redundant missing face), singletons, isolated nodes.  Returns (H, description, planted)."""
    n = SCALE_SIZES[idx % len(SCALE_SIZES)]
    lk = ("int", "gap", "str")[idx % 3]
    labels = list(range(n)) if lk == "int" else (rng.sample(range(-n, 6 * n), n) if lk == "gap" else [f"v{i}" for i in range(n)])
    rng.shuffle(labels)
    free = labels[:]
    fam = set()
    planted = {"simplices": 0, "partial": 0, "four": 0, "overlap": 0, "isolated": 0}

    def take(k):
        if len(free) < k:
            return None
        out = free[:k]
        del free[:k]
        return out

    def add(ms):
        if len(fam) < MAX_SCALE_EDGES:
            fam.add(frozenset(ms))

    planted["isolated"] = len(take(max(1, n // 20)) or [])
    for t in range(max(1, n // 30)):
        tri = take(3)
        if not tri:
            break
        add(tri)
        for p in combinations(tri, 2):
            add(p)
        if t % 2:
            for x in tri:
                add([x])
        planted["simplices"] += 1
    for t in range(max(1, n // 30)):
        tri = take(3)
        if not tri:
            break
        add(tri)
        for p in list(combinations(tri, 2))[: 1 + t % 2]:
            add(p)
        planted["partial"] += 1
    for t in range(max(1, n // 60)):
        q = take(4)
        if not q:
            break
        add(q)
        for f in rng.sample(list(combinations(q, 3)), 2) + rng.sample(list(combinations(q, 2)), 3):
            add(f)
        planted["four"] += 1
    for t in range(max(1, n // 40)):
        o = take(5)
        if not o:
            break
        add([o[0], o[1], o[2]])
        add([o[0], o[1], o[3]] + ([o[4]] if t % 2 else []))  # {o0, o1} lies in two maximal faces and is not an edge
        add([o[0], o[2]])
        planted["overlap"] += 1
    rest = free[:]
    if len(rest) >= 4:
        for _ in range(int(len(rest) * 0.4)):
            add(rng.sample(rest, 2))
        for _ in range(int(len(rest) * 0.12)):
            add(rng.sample(rest, rng.randint(3, 4)))
        if n <= 60 and idx % 2 == 0 and len(rest) >= 7:
            big = rng.sample(rest, rng.randint(6, 7))
            add(big)
            for _ in range(4):
                add(rng.sample(big, rng.randint(2, 5)))
    for x in rng.sample(labels, max(1, n // 10)):
        add([x])
    edges = [rng.sample(sorted(e, key=repr), len(e)) for e in sorted(fam, key=lambda e: sorted(map(repr, e)))]
    rng.shuffle(edges)
    explicit = (idx // 3) % 2 == 1
    H = xgi.Hypergraph()
    H.add_nodes_from(labels)
    if explicit:
        ids = [f"e{j}" for j in range(len(edges))] if lk == "str" else rng.sample(range(0, 5 * len(edges)), len(edges))
        for e, j in zip(edges, ids):
            H.add_edge(e, idx=j)
    else:
        for e in edges:
            H.add_edge(e)
    desc = f"n={n} m={len(edges)} labels={lk} ids={'explicit' if explicit else 'auto'} planted={planted}"
    return H, desc, planted


def run_scale(mon, idx, rng):
    H, desc, planted = build_scaled(rng, idx)
    how = (f"# {desc}\n# rebuild: from xgimon.checks import c15; from xgimon.cli import case_rng; "
           f"H = c15.build_scaled(case_rng('C15', {mon.seed}, 'scale', {idx}), {idx})[0]   (or: VERIF_SEED={mon.seed} ./check C15 --case scale:{idx})")
    if snap.inv(H):
        mon.note("discarded-invalid-input")
        return
    n = H.num_nodes
    cls = "n>250" if n > 250 else ("61<=n<=250" if n > 60 else "11<=n<=60")
    mon.note(f"scale:{cls}")
    for k, v in planted.items():
        mon.note(f"scale:{cls}:planted-{k}", v)
    mon.note(f"scale:{cls}:edges", H.num_edges)
    orc = monitor_hypergraph(mon, H, how, size_tag="n>250" if n > 250 else ("n>60" if n > 60 else "n>10"))
    mon.note(f"scale:{cls}:largest-edge>=6", int(any(len(e) >= 6 for e in orc.edges)))
    mon.nontrivial(("scale", desc, len(orc.maximal)))
    mon.sample(how)


def run_case(mon, kind, idx, rng):
    if kind == "scale":
        return run_scale(mon, idx, rng)
    if kind == "sequence":
        return run_sequence(mon, rng)
    if kind == "exhaustive":
        fam_idx = _exh_family(_EXH_MAX_EDGES["thorough"])[idx]  # ordered by number of edges: the quick tier is a prefix
        labels = _EXH_LABELS[idx % 3]
        fam = {frozenset(labels[i] for i in s) for s in fam_idx}
        H = xgi.Hypergraph()
        H.add_nodes_from(labels)
        edges = [rng.sample(sorted(e, key=repr), len(e)) for e in fam]
        rng.shuffle(edges)
        for e in edges:
            H.add_edge(e)
        how = f"H = xgi.Hypergraph(); H.add_nodes_from({labels!r}); " + "; ".join(f"H.add_edge({e!r})" for e in edges)
        nkind = ("int", "gap", "str")[idx % 3]
    else:
        nkind, pool = ops.node_pool(rng, k=rng.randint(3, 6))
        if kind == "closed":
            fam = _closed_family(rng, pool)
            mon.note("shape:closed")
        else:
            shape = rng.choice(SHAPES)
            fam = _family(rng, pool, shape)
            mon.note(f"shape:{shape}")
        H, how, _, _ = _build(rng, mon, pool, fam, nkind)
    if snap.inv(H):
        mon.note("discarded-invalid-input")
        return
    orc = monitor_hypergraph(mon, H, how)
    if kind == "exhaustive":
        mon.note("exhaustive:hypergraphs")
    if any(len(e) >= 3 for e in orc.edges):
        mon.nontrivial((nkind, tuple(sorted(tuple(sorted(map(repr, e))) for e in orc.edges))))
    mon.sample(how)
