"""C19 - derived networks satisfy their set-theoretic definitions (DESIGN §2 C19).

Post-condition monitors against brute-force constructions.  A case is one generated
network (a *recipe* that is rebuilt through the public API for every call, so that no
oracle depends on `copy()`); every derivation the property names is applied to it and the
derived network is compared with what the definition says, computed here from the
members / attributes observed on the source.

cleanup: all flag combinations x both in_place values per input network
(Hypergraph 32 x 2, SimplicialComplex 8 x 2, DiHypergraph 4 x 2):
  guarantees on the result + "only by deleting or merging what the guarantees exclude".
"""
from collections import Counter
from itertools import combinations, product

import numpy as np

from .. import ops, snap
from ..env import xgi

PID = "C19"
ANCHORS = (
    "xgi/core/hypergraph.py",
    "xgi/utils/utilities.py",
    "xgi/core/globalviews.py",
    "xgi/generators/classic.py",
    "xgi/convert/higher_order_network.py",
    "xgi/convert/simplex.py",
    "xgi/algorithms/connected.py",
)
RULE = (
    "case = one generated network (<= 8 nodes, <= 10 edges; isolated nodes, singletons, empty edges, multi-edges, several components incl. ties, "
    "node labels int / gapped int / str / tuple (grid coordinates) / frozenset / numpy.int64, edge IDs automatic / int / gapped / permuted / str / non-integer float mixed with int / tuple, "
    "hashable attributes; built only through add_node/add_edge/add_simplex - never a bulk call - and rebuilt for every call) x every derivation of the property: "
    "cleanup under ALL flag combinations x both in_place values, convert_labels_to_integers (2 attribute names x both in_place), subhypergraph "
    "(node / edge / both selections, keep_isolates), dual + involution, <<, complement, cut_to_order / k_skeleton for every order -1..max+1, "
    "from_max_simplices, largest_connected_hypergraph (both modes).  Kind 'frozen': the input is frozen (N.freeze()) and every non-in-place derivation is applied.  "
    "Kind 'sequence': 3-6 rounds on ONE object: all non-in-place derivations (3 random cleanup flag sets), then 1-2 in-place edits through the public API "
    "(add_node_to_edge with existing node+edge, remove_node_from_edge, re-adding other members under the same edge ID, attribute changes, add/remove node/edge), "
    "then the derivations again on the same object, always compared with the definition on the CURRENT state.  "
    "one evaluation = one derived network compared with the brute-force construction; "
    "distinct_nontrivial = distinct (function, arguments, source network) where the derivation actually removed, merged, relabelled, exchanged or selected something"
)
ASSUMPTIONS = [
    'besides the usual 4-8 node networks a `wide` kind drives every Hypergraph derivation with 11-14 nodes and edges of at most three members (two-digit positions; complement stays small)',
    "input classes: constructible networks that satisfy the C01/C02/C03 structural invariant (others are discarded and counted); one label kind per network; attribute values hashable",
    "iterable node labels (tuple, frozenset): determined empirically on the unchanged tree - cleanup (all flags, 3 classes), convert_labels_to_integers (3 classes), subhypergraph, dual (+ involution), <<, "
    "complement, cut_to_order / k_skeleton and largest_connected_hypergraph (both modes) handle them exactly and ARE driven with them: they add edges one by one or through bulk tuples "
    "(members, id, attrs) / (members, attrs) whose first element is a set, which the format detection of add_edges_from reads unambiguously.  from_max_simplices is NOT driven with them: it is built on "
    "add_edges_from(list of member lists), and the bulk format detection is documented as ambiguous when the members of the first edge are themselves iterable "
    "(a 2-member list is read as (members, id), a 3-member list as (members, id, attrs))",
    "tuple edge IDs only on Hypergraph (bulk formats of DiHypergraph / SimplicialComplex.add_simplices_from are ambiguous for them); float edge IDs are non-integer so that they never collide with automatic IDs (C04's subject); edits of a sequence create edges with IDs of the recipe's kind (merge_duplicate_edges sorts the IDs of a group)",
    "frozen inputs and same-object sequences use the non-in-place derivations only (in-place ones on a frozen network are documented to raise); an edit that the class rejects with XGIError is skipped and counted",
    "DiHypergraph is driven through cleanup(isolates, relabel) and convert_labels_to_integers only; subhypergraph on a SimplicialComplex only with selections that are closed under faces (the class re-closes anything else, C03)",
    "empty edges are neither required to stay nor to go under connected=True / largest_connected_hypergraph (they belong to no component); complement of an edgeless network may be edgeless or hold all singletons (no maximum size is defined there)",
    "largest_connected_hypergraph on the null network may raise ValueError (no component exists; nothing documented); cleanup may not: it is documented to return the cleaned network",
    "cut_to_order / k_skeleton with an order above the maximum may raise XGIError (the code's documented rejection) or return the exact cut",
    "attributes of a merged multi-edge may be those of any of the merged edges; when relabel=True the key 'label' is overwritten as documented and is excluded from the attribute comparison",
]
TECHNIQUE = "runtime monitoring: post-condition monitors against brute-force set-theoretic constructions; exhaustive enumeration of cleanup flags"
CASE_TIMEOUT = 120

XGIError = xgi.exception.XGIError
IDNotFound = xgi.exception.IDNotFound

H_FLAGS = list(product((False, True), repeat=5))  # isolates, singletons, multiedges, connected, relabel
NOTHING_LEFT_KEY = "cleanup|connected=True,nothing-left|raises-ValueError"


def plan(tier):
    if tier == "quick":
        return {"corner": 150, "hyper": 600, "simplicial": 300, "directed": 300, "sequence": 320, "frozen": 120, "wide": 60}
    return {"corner": 3000, "hyper": 120000, "simplicial": 45000, "directed": 45000, "sequence": 48000, "frozen": 16000, "wide": 6000}


def floors(tier):
    f = {
        "cleanup:Hypergraph": 35000, "cleanup:SimplicialComplex": 4500, "cleanup:DiHypergraph": 2500,
        "cleanup:all-32-flag-sets-on-one-network": 600,
        "cleanup:removed-by:merge": 5000, "cleanup:removed-by:singleton": 5000, "cleanup:removed-by:isolate": 5000,
        "cleanup:removed-by:component": 5000, "cleanup:tie-in-component-size": 4000, "cleanup:nothing-left": 500,
        "cleanup:relabel-mapped-back": 15000,
        "relabel:Hypergraph": 2500, "relabel:SimplicialComplex": 1200, "relabel:DiHypergraph": 1200,
        "subhypergraph": 4500, "subhypergraph:cut-through-edge": 800, "subhypergraph:keep_isolates=False": 1500,
        "dual": 900, "dual:involution": 250, "lshift": 900, "lshift:shared-node-with-attrs": 100, "lshift:same-object": 50,
        "complement": 900, "complement:iterable-node-labels": 150, "input-wide:more-than-ten-nodes": 50,
        "cut_to_order:returned": 5000, "cut_to_order:rejected-XGIError": 1200, "k_skeleton": 1000, "from_max_simplices": 250,
        "lch:in_place=False": 1200, "lch:in_place=True": 700, "lch:tie": 500,
        "input-nkind:tuple": 150, "input-nkind:fset": 80, "input-nkind:npint": 80, "input-ekind:float": 100, "input-ekind:tuple": 40,
        "frozen-input:Hypergraph": 40, "frozen-input:SimplicialComplex": 20, "frozen-input:DiHypergraph": 20,
        "sequence:rounds": 900, "sequence:edit-kept-both-id-sets": 400, "sequence:edit:add_node_to_edge:existing": 100,
        "sequence:edit:remove_node_from_edge": 100, "sequence:edit:readd-same-id": 150,
    }
    if tier != "quick":
        f = {k: v * 50 for k, v in f.items()}
    return f


def extra_coverage(mon):
    return {
        "exhaustive": True,
        "exhaustive_bound": "all 32 cleanup flag combinations x both in_place values per input network",
        "technique": TECHNIQUE,
    }


# ---------------------------------------------------------------------------------
# recipes: a network described as data, rebuilt through the public API for each call
# ---------------------------------------------------------------------------------
class Recipe:
    def __init__(self, cls, nodes, edges, net, tags=()):
        self.cls = cls  # "Hypergraph" | "SimplicialComplex" | "DiHypergraph"
        self.nodes = nodes  # [(label, attrs)] added first, in this order
        self.edges = edges  # [(members | (tail, head), idx | None, attrs)]
        self.net = net  # network attributes
        self.tags = tuple(tags)
        self.nkind = None  # label kind of the node pool (set by the generators)
        self.pool = []  # the node pool the recipe was drawn from (used by the same-object edit sequences)

    def build(self):
        net = getattr(xgi, self.cls)()
        for n, a in self.nodes:
            net.add_node(n, **a)
        for m, idx, a in self.edges:
            if self.cls == "SimplicialComplex":
                net.add_simplex(list(m), idx=idx, **a)
            elif self.cls == "DiHypergraph":
                net.add_edge((list(m[0]), list(m[1])), idx=idx, **a)
            else:
                net.add_edge(list(m), idx=idx, **a)
        for k, v in self.net.items():
            net[k] = v
        return net

    def script(self):
        add = "add_simplex" if self.cls == "SimplicialComplex" else "add_edge"
        out = [f"N = xgi.{self.cls}()"]
        out += [f"N.add_node({n!r}, **{a!r})" for n, a in self.nodes]
        for m, idx, a in self.edges:
            mm = (list(m[0]), list(m[1])) if self.cls == "DiHypergraph" else list(m)
            out.append(f"N.{add}({mm!r}, idx={idx!r}, **{a!r})")
        out += [f"N[{k!r}] = {v!r}" for k, v in self.net.items()]
        return "\n".join(out)


ITERABLE_KINDS = ("tuple", "fset")  # node labels that are themselves iterable (grid coordinates, frozensets)
ABSENT = {"int": 97, "gap": 51, "str": "zz9", "tuple": (9, 9), "fset": frozenset({99}), "npint": np.int64(97)}
_KIND_MIX = ("int", "gap", "str", "int", "gap", "str", "tuple", "tuple", "fset", "npint")


def node_pool(rng, kind=None, k=None):
    """ops.node_pool widened by tuple (grid coordinates), frozenset and numpy-integer labels; one kind per network."""
    kind = kind or rng.choice(_KIND_MIX)
    k = k or rng.randint(4, 8)
    if kind in ops.NODE_KINDS:
        return ops.node_pool(rng, kind, k)
    if kind == "tuple":
        return kind, rng.sample([(i, j) for i in range(3) for j in range(4)], k)
    if kind == "fset":
        return kind, rng.sample([frozenset(c) for c in ((0,), (1,), (2,), (3,), (0, 1), (1, 2), (0, 2), (0, 3), (1, 3), (2, 3))], k)
    return kind, [np.int64(i) for i in rng.sample(range(0, 30), k)]


def _attrs(rng, p=0.4):
    a = ops.rand_attrs(rng, p=p)
    if rng.random() < 0.08:
        a["label"] = rng.choice(("old", 7, "L"))
    return a


def _net_attrs(rng):
    r = rng.random()
    if r < 0.5:
        return {}
    if r < 0.8:
        return {"name": rng.choice(("net-a", "net-b"))}
    return {"name": "net-c", "year": rng.choice((1999, 2024))}


def _edge_ids(rng, k, kind=None, cls="Hypergraph"):
    kinds = ("auto", "auto", "int", "gap", "str", "perm", "float") + (("tuple",) if cls == "Hypergraph" else ())
    kind = kind or rng.choice(kinds)
    if kind == "auto" or k == 0:
        return "auto", [None] * k
    if kind == "float":  # non-integer floats mixed with ints: sortable together, never equal to an automatic ID
        return kind, rng.sample([i + 0.5 for i in range(-2, 10)] + list(range(20, 26)), k)
    if kind == "tuple":  # what merge_duplicate_edges(rename="tuple") produces
        return kind, rng.sample([(i, j) for i in range(4) for j in range(i + 1, 6)], k)
    if kind == "str":
        names = ["e0", "e1", "e2", "f", "g", "h", "e10", "zz", "q", "r", "s1", "s2"]
        return kind, rng.sample(names, k)
    _, pool = ops.eid_pool(rng, kind, k=max(k, 8))
    return kind, pool[:k] if kind == "perm" else rng.sample(pool, k)


def _blocks(rng, pool):
    p = pool[:]
    rng.shuffle(p)
    nb = rng.randint(2, 4)
    if rng.random() < 0.55:  # equal sizes: ties in component size
        size = max(1, len(p) // nb)
        return [p[i * size:(i + 1) * size] for i in range(nb)], p[nb * size:]
    cuts = sorted(rng.sample(range(1, len(p)), min(nb - 1, len(p) - 1)))
    return [p[a:b] for a, b in zip([0] + cuts, cuts + [len(p)])], []


def _span(rng, block, hi=3):
    """Edges that make `block` one component."""
    out, i = [], 0
    if len(block) == 1:
        return [[block[0]]] if rng.random() < 0.5 else []
    while i < len(block) - 1:
        k = rng.randint(2, hi)
        out.append(block[i:i + k])
        i += k - 1
    return out


def gen_hyper(rng, nkind=None, pool=None):
    if pool is None:
        nkind, pool = node_pool(rng, nkind)
    members = []
    if rng.random() < 0.65:
        blocks, _rest = _blocks(rng, pool)
        for b in blocks:
            if not b:
                continue
            if rng.random() < 0.75:
                members += _span(rng, b)
            for _ in range(rng.choice((0, 0, 1, 2))):
                members.append(ops.rand_members(rng, b, 1, 4))
    else:
        members = [ops.rand_members(rng, pool, 1, 5) for _ in range(rng.randint(0, 6))]
    for _ in range(rng.choice((0, 0, 1, 2))):  # multi-edges
        if members:
            m = list(rng.choice(members))
            rng.shuffle(m)
            members.append(m)
    if rng.random() < 0.5:  # singletons, possibly on nodes that have nothing else
        for _ in range(rng.randint(1, 2)):
            members.append([rng.choice(pool)])
    if rng.random() < 0.2:  # empty edges
        for _ in range(rng.randint(1, 2)):
            members.append([])
    rng.shuffle(members)
    members = members[:10]
    used = {n for m in members for n in m}
    pre = [n for n in pool if n not in used and rng.random() < 0.5]
    pre += [n for n in used if rng.random() < 0.4]
    rng.shuffle(pre)
    nodes = [(n, _attrs(rng)) for n in pre]
    ekind, ids = _edge_ids(rng, len(members))
    edges = [(m, i, _attrs(rng)) for m, i in zip(members, ids)]
    rec = Recipe("Hypergraph", nodes, edges, _net_attrs(rng), tags=(nkind, ekind))
    rec.nkind, rec.pool = nkind, list(pool)
    return rec


def gen_wide(rng):
    """More than ten nodes (two-digit positions / indices appear), edges of at most three members so that complement() stays small."""
    kind = rng.choice(("int", "gap", "str", "npint"))
    k = rng.randint(11, 14)
    if kind == "int":
        pool = list(range(k))
    elif kind == "gap":
        pool = rng.sample(range(-5, 40), k)
    elif kind == "npint":
        pool = [np.int64(i) for i in rng.sample(range(0, 30), k)]
    else:
        pool = rng.sample(["a", "b", "c", "d", "e", "n1", "n10", "n2", "x", "yy", "n11", "B", "_z", "n3", "zz"], k)
    if rng.random() < 0.5:
        rng.shuffle(pool)
    # edges that join an early node (position < 10) with late ones (position >= 10) in both member orders
    late, early = pool[10:], pool[:10]
    members = []
    for _ in range(rng.randint(2, 4)):
        m = [rng.choice(early), rng.choice(late)] + ([rng.choice(pool)] if rng.random() < 0.4 else [])
        rng.shuffle(m)
        members.append(list(dict.fromkeys(m)))
    members += [ops.rand_members(rng, pool, 1, 3) for _ in range(rng.randint(1, 5))]
    rng.shuffle(members)
    used = {n for m in members for n in m}
    pre = list(pool) if rng.random() < 0.7 else [n for n in pool if n not in used or rng.random() < 0.5]
    if rng.random() < 0.3:
        rng.shuffle(pre)
    nodes = [(n, _attrs(rng)) for n in pre]
    ekind, ids = _edge_ids(rng, len(members))
    edges = [(m, i, _attrs(rng)) for m, i in zip(members, ids)]
    rec = Recipe("Hypergraph", nodes, edges, _net_attrs(rng), tags=(kind, ekind))
    rec.nkind, rec.pool = kind, list(pool)
    return rec


def gen_simplicial(rng):
    nkind, pool = node_pool(rng)
    members = []
    if rng.random() < 0.6:
        blocks, _rest = _blocks(rng, pool)
        for b in blocks:
            if b and rng.random() < 0.8:
                members += _span(rng, b, hi=4)
            if b and rng.random() < 0.3:
                members.append(ops.rand_members(rng, b, 1, 4))
    else:
        members = [ops.rand_members(rng, pool, 1, 4) for _ in range(rng.randint(0, 5))]
    if rng.random() < 0.4:
        members.append([rng.choice(pool)])
    rng.shuffle(members)
    members = members[:6]
    used = {n for m in members for n in m}
    pre = [n for n in pool if n not in used and rng.random() < 0.5] + [n for n in used if rng.random() < 0.4]
    rng.shuffle(pre)
    nodes = [(n, _attrs(rng)) for n in pre]
    ekind, ids = _edge_ids(rng, len(members), kind=rng.choice(("auto", "auto", "gap", "str", "float")))
    edges = [(m, i, _attrs(rng)) for m, i in zip(members, ids)]
    rec = Recipe("SimplicialComplex", nodes, edges, _net_attrs(rng), tags=(nkind, ekind))
    rec.nkind, rec.pool = nkind, list(pool)
    return rec


def gen_directed(rng):
    nkind, pool = node_pool(rng)
    members = [(ops.rand_members(rng, pool, 0, 3), ops.rand_members(rng, pool, 0, 3)) for _ in range(rng.randint(0, 6))]
    if rng.random() < 0.3 and members:
        members.append(rng.choice(members))
    used = {n for t, h in members for n in t + h}
    pre = [n for n in pool if n not in used and rng.random() < 0.6] + [n for n in used if rng.random() < 0.4]
    rng.shuffle(pre)
    nodes = [(n, _attrs(rng)) for n in pre]
    ekind, ids = _edge_ids(rng, len(members), cls="DiHypergraph")
    edges = [(m, i, _attrs(rng)) for m, i in zip(members, ids)]
    rec = Recipe("DiHypergraph", nodes, edges, _net_attrs(rng), tags=(nkind, ekind))
    rec.nkind, rec.pool = nkind, list(pool)
    return rec


N_CORNERS = 15


def gen_corner(rng, which):
    nkind, pool = node_pool(rng, k=8)
    rec = _corner(rng, which, pool)
    rec.nkind, rec.pool = nkind, list(pool)
    return rec


def _corner(rng, which, pool):
    a, b, c, d, e, f = pool[:6]
    A = lambda: _attrs(rng)  # noqa: E731
    H, S, D = "Hypergraph", "SimplicialComplex", "DiHypergraph"
    if which == 0:
        return Recipe(H, [], [], _net_attrs(rng), ("null",))
    if which == 1:
        return Recipe(H, [(a, A()), (b, A()), (c, A())], [], _net_attrs(rng), ("only-isolated-nodes",))
    if which == 2:
        return Recipe(H, [], [([a], None, A()), ([b], None, A())], _net_attrs(rng), ("only-singletons",))
    if which == 3:
        return Recipe(H, [], [([], None, A()), ([], None, A())], {}, ("only-empty-edges",))
    if which == 4:
        return Recipe(H, [(a, A())], [([b], "s", A()), ([], "e", A()), ([b], "t", A())], {}, ("isolated+singletons+empty",))
    if which == 5:
        return Recipe(H, [], [([a, b], None, A()), ([c, d], None, A())], _net_attrs(rng), ("tie",))
    if which == 6:
        return Recipe(H, [(e, A())], [([a, b], 3, A()), ([c, d], 1, A()), ([b, a], 7, A()), ([c, d], 5, A()), ([f], 9, A())], {}, ("tie+multi",))
    if which == 7:
        return Recipe(H, [(c, A())], [([a], None, A()), ([a], None, A()), ([b], None, A())], {}, ("multi-singletons",))
    if which == 8:
        return Recipe(S, [], [], _net_attrs(rng), ("null",))
    if which == 9:
        return Recipe(S, [(a, A()), (b, A())], [], {}, ("only-isolated-nodes",))
    if which == 10:
        return Recipe(S, [], [([a], None, A()), ([b], None, A())], {}, ("only-singletons",))
    if which == 11:
        return Recipe(S, [(f, A())], [([a, b, c], "t", A()), ([d, e], "u", A()), ([e, pool[6]], "v", A())], {}, ("tie",))
    if which == 12:
        return Recipe(D, [], [], _net_attrs(rng), ("null",))
    if which == 13:
        return Recipe(D, [(a, A()), (b, A())], [], {}, ("only-isolated-nodes",))
    return Recipe(D, [(a, A())], [(([], []), None, A()), (([b], []), None, A()), (([], [c, b]), None, A())], {}, ("empty-parts",))


# ---------------------------------------------------------------------------------
# observation and brute-force helpers
# ---------------------------------------------------------------------------------
def obs(net):
    """(nodes {n: attrs}, edges {e: (members, attrs)}, net_attr) through snap (public views + attr records)."""
    s = snap.snap(net, order=False)
    return s[1], s[2], s[4]


def components(nodes, member_sets):
    """Connected components of the node set under 'share an edge' (union-find, brute force)."""
    parent = {n: n for n in nodes}

    def find(x):
        while parent[x] != x:
            parent[x] = parent[parent[x]]
            x = parent[x]
        return x

    for m in member_sets:
        m = [x for x in m if x in parent]
        for x in m[1:]:
            parent[find(x)] = find(m[0])
    comps = {}
    for n in nodes:
        comps.setdefault(find(n), set()).add(n)
    return [frozenset(c) for c in comps.values()]


def flat(m):
    """Member set of an edge, directed or not."""
    return (m[0] | m[1]) if isinstance(m, tuple) else m


def akey(a):
    return tuple(sorted(a.items(), key=repr))


def minus(a, key):
    return {k: v for k, v in a.items() if k != key}


class Ctx:
    """Carries the monitor, the recipe and the call description for witnesses."""

    def __init__(self, mon, rec, frozen=False):
        self.mon, self.rec = mon, rec
        self.fired = False
        self.frozen = frozen  # the input is frozen (N.freeze()): only the non-in-place derivations apply
        self.live = None  # same-object sequences: the ONE network every derivation is called on
        self.edits = []  # script lines of the in-place edits applied to the live network so far

    def make(self):
        """The network a derivation is called on: a fresh build of the recipe, or the live object of a sequence."""
        if self.live is not None:
            return self.live
        net = self.rec.build()
        if self.frozen:
            net.freeze()
        return net

    @property
    def in_place_values(self):
        return (False,) if (self.frozen or self.live is not None) else (True, False)

    def script(self):
        lines = ["import xgi", "import numpy as np", self.rec.script()]
        if self.frozen:
            lines.append("N.freeze()")
        return "\n".join(lines + self.edits)

    def fire(self, key, what, call, extra=""):
        self.fired = True
        self.mon.fail(key, f"{call}: {what}", f"{self.script()}\n# call: {call}\n{extra}")


# ---------------------------------------------------------------------------------
# cleanup
# ---------------------------------------------------------------------------------
def cleanup_model(N0, E0, iso, sing, conn):
    """The network after the steps that precede the component step (member sets only)."""
    E1 = {e: flat(m) for e, (m, _) in E0.items() if sing or len(flat(m)) != 1}
    if iso:
        N1 = set(N0)
    else:
        touched = {n for m in E1.values() for n in m}
        N1 = {n for n in N0 if n in touched}
    return N1, E1


def check_cleanup(ctx, cls, src, R, flags, call):
    """Guarantees + justification.  flags = (isolates, singletons, multiedges, connected, relabel)."""
    mon = ctx.mon
    iso, sing, multi, conn, relabel = flags
    N0, E0, net0 = src
    NR, ER, netR = obs(R)
    mon.ev()
    directed = cls == "DiHypergraph"

    # ---- guarantees, read off the result itself -------------------------------------
    touched = {n for m, _ in ER.values() for n in flat(m)}
    if not iso and any(n not in touched for n in NR):
        return ctx.fire("cleanup|isolates=False|isolated-node-in-result", f"isolated nodes {[n for n in NR if n not in touched]} in the result", call)
    if not sing and any(len(flat(m)) == 1 for m, _ in ER.values()):
        return ctx.fire("cleanup|singletons=False|singleton-in-result", "a singleton edge is left in the result", call)
    if not multi and len({m for m, _ in ER.values()}) != len(ER):
        return ctx.fire("cleanup|multiedges=False|repeated-edge-in-result", "two edges with equal members are left in the result", call)
    if conn and len(components(NR, [flat(m) for m, _ in ER.values()])) > 1:
        return ctx.fire("cleanup|connected=True|result-not-connected", "the result has more than one component", call)
    if netR != net0:
        return ctx.fire("cleanup|any|network-attributes-changed", f"network attributes {net0} became {netR}", call)

    # ---- labels; map the result back to the source's labels -----------------------------
    if relabel:
        if set(NR) != set(range(len(NR))) or set(ER) != set(range(len(ER))) or any(type(x) is not int for x in list(NR) + list(ER)):
            return ctx.fire("cleanup|relabel=True|labels-not-sequential", f"labels are not 0..n-1 / 0..m-1: nodes {list(NR)} edges {list(ER)}", call)
        if any("label" not in a for a in NR.values()) or any("label" not in a for _, a in ER.values()):
            return ctx.fire("cleanup|relabel=True|old-label-not-recorded", "a node or edge of the result has no 'label' attribute", call)
        back_n = {i: a["label"] for i, a in NR.items()}
        back_e = {j: a["label"] for j, (_, a) in ER.items()}
        if len(set(back_n.values())) != len(back_n) or len(set(back_e.values())) != len(back_e):
            return ctx.fire("cleanup|relabel=True|old-label-not-recorded", "two nodes / edges of the result record the same old label", call)
        mon.note("cleanup:relabel-mapped-back")

        def mapm(m):
            if isinstance(m, tuple):
                return (frozenset(back_n[x] for x in m[0]), frozenset(back_n[x] for x in m[1]))
            return frozenset(back_n[x] for x in m)

        KN = {back_n[i]: minus(a, "label") for i, a in NR.items()}
        KE = {back_e[j]: (mapm(m), minus(a, "label")) for j, (m, a) in ER.items()}
        cmpa = lambda a: minus(a, "label")  # noqa: E731  ('label' is documented to be overwritten)
    else:
        KN, KE = NR, ER
        cmpa = lambda a: a  # noqa: E731

    # ---- every kept item exists in the source ---------------------------------------------
    for n, a in KN.items():
        if n not in N0:
            return ctx.fire("cleanup|any|kept-item-not-in-source", f"node {n!r} of the result is not a node of the source", call)
        if a != cmpa(N0[n]):
            return ctx.fire("cleanup|any|attributes-changed", f"attributes of kept node {n!r}: {N0[n]} became {a}", call)
    groups = {}
    for e, (m, _) in E0.items():
        groups.setdefault(m, []).append(e)
    matched = {}  # source edge -> kept edge
    pending = []
    for e, (m, a) in KE.items():
        if e in E0 and E0[e][0] == m:
            matched[e] = e
        else:
            pending.append(e)
    for e in pending:  # a merged edge may carry a new ID: it must stand for a whole group of the source
        m, a = KE[e]
        free = [s for s in groups.get(m, ()) if s not in matched]
        if multi or len(groups.get(m, ())) < 2 or not free:
            return ctx.fire("cleanup|any|kept-item-not-in-source", f"edge {e!r} = {snap.sorted_repr(m)} of the result does not exist in the source", call)
        matched[free[0]] = e
    for s, e in matched.items():
        a = KE[e][1]
        m = E0[s][0]
        cands = [s] if (multi or len(groups[m]) < 2) else groups[m]
        if all(a != cmpa(E0[c][1]) for c in cands):
            return ctx.fire("cleanup|any|attributes-changed", f"attributes of kept edge {e!r}: {[E0[c][1] for c in cands]} became {a}", call)

    # ---- every removed item is excluded by an enabled guarantee ------------------------------
    kept_sets = {m for m, _ in KE.values()}
    kept_nodes = set(KN)
    N1, E1 = cleanup_model(N0, E0, iso, sing, conn)
    reasons = set()
    for e, (m, _) in E0.items():
        if e in matched:
            continue
        fm = flat(m)
        if not multi and m in kept_sets:
            reasons.add("merge")
        elif not sing and len(fm) == 1:
            reasons.add("singleton")
        elif conn and fm and not (fm & kept_nodes):
            reasons.add("component")
        elif conn and not fm:
            reasons.add("empty-edge-outside-any-component")
        else:
            return ctx.fire("cleanup|any|unjustified-edge-removal", f"edge {e!r} = {snap.sorted_repr(m)} was removed although no enabled guarantee excludes it", call)
    for n in N0:
        if n in kept_nodes:
            continue
        if not iso and n not in N1:
            reasons.add("isolate")
        elif conn:
            reasons.add("component")
        else:
            return ctx.fire("cleanup|any|unjustified-node-removal", f"node {n!r} was removed although it is not isolated after the edge steps", call)
    # ---- the kept component is a component of maximal size of the network after the earlier steps
    if conn:
        comps = components(N1, E1.values())
        best = max((len(c) for c in comps), default=0)
        if len([c for c in comps if len(c) == best]) > 1:
            mon.note("cleanup:tie-in-component-size")
        if (comps and (frozenset(kept_nodes) not in comps or len(kept_nodes) != best)) or (not comps and kept_nodes):
            return ctx.fire("cleanup|connected=True|kept-component-not-maximal",
                            f"kept nodes {sorted(kept_nodes, key=repr)} are not a component of maximal size; components after the earlier steps: {[sorted(c, key=repr) for c in comps]}", call)
    for r in reasons:
        mon.note(f"cleanup:removed-by:{r}")
    if reasons or relabel:
        mon.nontrivial(("cleanup", cls, flags, repr(src)))
    return None


def drive_cleanup(ctx, rec, rng=None, sample=None):
    """All flag combinations x in_place values (sample=None), or `sample` random flag sets (sequence rounds)."""
    mon, cls = ctx.mon, rec.cls
    if cls == "Hypergraph":
        combos = [(f, dict(isolates=f[0], singletons=f[1], multiedges=f[2], connected=f[3], relabel=f[4])) for f in H_FLAGS]
    elif cls == "SimplicialComplex":
        combos = [((i, True, True, c, r), dict(isolates=i, connected=c, relabel=r)) for i, c, r in product((False, True), repeat=3)]
    else:
        combos = [((i, True, True, False, r), dict(isolates=i, relabel=r)) for i, r in product((False, True), repeat=2)]
    full = sample is None
    if not full:
        combos = rng.sample(combos, min(sample, len(combos)))
    done = 0
    for flags, kw in combos:
        for in_place in ctx.in_place_values:
            net = ctx.make()
            src = obs(net)
            call = f"N.cleanup({', '.join(f'{k}={v}' for k, v in kw.items())}, in_place={in_place})"
            N1, _ = cleanup_model(src[0], src[1], flags[0], flags[1], flags[3])
            mon.note(f"cleanup:{cls}")
            try:
                ret = net.cleanup(in_place=in_place, **kw)
            except ValueError as exc:
                if flags[3] and not N1:
                    mon.ev()
                    mon.note("cleanup:nothing-left")
                    mon.nontrivial(("cleanup-raise", cls, flags, repr(src)))
                    ctx.fire(NOTHING_LEFT_KEY, f"raised ValueError({exc}) instead of returning the empty network (pruning leaves no node)", call)
                    continue
                raise
            if flags[3] and not N1:
                mon.note("cleanup:nothing-left")
            if in_place:
                R = net
            else:
                R = ret
                if R is net:
                    ctx.fire("cleanup|in_place=False|source-modified", "in_place=False returned the source object itself", call)
                    continue
                if obs(net) != src:
                    ctx.fire("cleanup|in_place=False|source-modified", "in_place=False modified the source network", call)
                    continue
            check_cleanup(ctx, cls, src, R, flags, call)
            done += 1
    if cls == "Hypergraph" and full and len(ctx.in_place_values) == 2:
        mon.note("cleanup:all-32-flag-sets-on-one-network")


# ---------------------------------------------------------------------------------
# convert_labels_to_integers
# ---------------------------------------------------------------------------------
def drive_relabel(ctx, rec, rng):
    mon, cls = ctx.mon, rec.cls
    fn = "convert_labels_to_integers"
    for attr in ("label", rng.choice(("old", "color", "orig_id"))):
        for in_place in ctx.in_place_values:
            net = ctx.make()
            N0, E0, net0 = src = obs(net)
            kw = {} if attr == "label" and rng.random() < 0.5 else {"label_attribute": attr}
            call = f"xgi.convert_labels_to_integers(N, {', '.join(f'{k}={v!r}' for k, v in kw.items())}{', ' if kw else ''}in_place={in_place})"
            ret = xgi.convert_labels_to_integers(net, in_place=in_place, **kw)
            mon.note(f"relabel:{cls}")
            mon.ev()
            if in_place:
                R = net
            else:
                R = ret
                if R is net or obs(net) != src:
                    ctx.fire(f"{fn}|in_place=False|source-modified", "in_place=False modified (or returned) the source network", call)
                    continue
            NR, ER, netR = obs(R)
            if type(R) is not type(net):
                ctx.fire(f"{fn}|{cls}|class-changed", f"result is a {type(R).__name__}", call)
                continue
            n, m = len(N0), len(E0)
            if set(NR) != set(range(n)) or set(ER) != set(range(m)) or any(type(x) is not int for x in list(NR) + list(ER)):
                ctx.fire(f"{fn}|{cls}|labels-not-sequential", f"expected labels 0..{n - 1} / 0..{m - 1}, got nodes {list(NR)} edges {list(ER)}", call)
                continue
            if any(attr not in a for a in NR.values()) or any(attr not in a for _, a in ER.values()):
                ctx.fire(f"{fn}|{cls}|old-label-not-recorded", f"some node / edge lacks the attribute {attr!r}", call)
                continue
            fwd_n = {a[attr]: i for i, a in NR.items()}
            fwd_e = {a[attr]: j for j, (_, a) in ER.items()}
            if set(fwd_n) != set(N0) or set(fwd_e) != set(E0) or len(fwd_n) != n or len(fwd_e) != m:
                ctx.fire(f"{fn}|{cls}|old-label-not-recorded", f"recorded old labels {sorted(fwd_n, key=repr)} / {sorted(fwd_e, key=repr)} are not a bijection onto the source's nodes / edges", call)
                continue
            bad = None
            for e, (mem, a) in E0.items():
                if isinstance(mem, tuple):
                    exp = (frozenset(fwd_n[x] for x in mem[0]), frozenset(fwd_n[x] for x in mem[1]))
                else:
                    exp = frozenset(fwd_n[x] for x in mem)
                got, ga = ER[fwd_e[e]]
                if got != exp:
                    bad = ("not-an-isomorphism", f"edge {e!r} -> {fwd_e[e]}: members {got} but the images of its members are {exp}")
                    break
                if minus(ga, attr) != minus(a, attr):
                    bad = ("attributes-changed", f"edge {e!r} -> {fwd_e[e]}: attributes {a} became {ga}")
                    break
            if not bad:
                for x, a in N0.items():
                    if minus(NR[fwd_n[x]], attr) != minus(a, attr):
                        bad = ("attributes-changed", f"node {x!r} -> {fwd_n[x]}: attributes {a} became {NR[fwd_n[x]]}")
                        break
            if not bad and netR != net0:
                bad = ("network-attributes-changed", f"network attributes {net0} became {netR}")
            if bad:
                ctx.fire(f"{fn}|{cls}|{bad[0]}", bad[1], call)
                continue
            if n or m:
                mon.nontrivial((fn, cls, attr, in_place, repr(src)))


# ---------------------------------------------------------------------------------
# subhypergraph
# ---------------------------------------------------------------------------------
def _absent(rec):
    return ABSENT[rec.nkind]


def drive_subhypergraph(ctx, rec, rng):
    mon, cls = ctx.mon, rec.cls
    for shape in ("nodes", "edges", "both", "both"):
        net = ctx.make()
        N0, E0, net0 = src = obs(net)
        nodes_sel = edges_sel = None
        with_absent = rng.random() < 0.1
        if shape in ("nodes", "both"):
            nl = list(N0)
            nodes_sel = rng.sample(nl, rng.randint(0, len(nl))) if rng.random() < 0.85 else nl
            if with_absent:
                nodes_sel = nodes_sel + [_absent(rec)]
        if shape in ("edges", "both"):
            el = list(E0)
            edges_sel = rng.sample(el, rng.randint(0, len(el)))
            if cls == "SimplicialComplex":  # closed under faces (sizes >= 2; the class never creates singleton faces)
                ms = {E0[e][0] for e in edges_sel}
                edges_sel = [e for e, (m, _) in E0.items() if e in edges_sel or (len(m) >= 2 and any(m < big for big in ms))]
            if with_absent:
                edges_sel = edges_sel + ["no-such-edge"]
        keep = rng.random() < 0.6
        as_set = rng.random() < 0.5
        na = None if nodes_sel is None else (set(nodes_sel) if as_set else list(nodes_sel))
        ea = None if edges_sel is None else (set(edges_sel) if as_set else list(edges_sel))
        call = f"xgi.subhypergraph(N, nodes={na!r}, edges={ea!r}, keep_isolates={keep})"
        try:
            R = xgi.subhypergraph(net, nodes=na, edges=ea, keep_isolates=keep)
        except IDNotFound:
            if with_absent:
                mon.note("rejected:subhypergraph-absent-id")
                continue
            raise
        mon.note("subhypergraph")
        mon.ev()
        exp_nodes = set(N0) if nodes_sel is None else set(nodes_sel) & set(N0)
        req_edges = set(E0) if edges_sel is None else set(edges_sel) & set(E0)
        exp_edges = {e for e in req_edges if E0[e][0] <= exp_nodes}
        if any((E0[e][0] & exp_nodes) and not (E0[e][0] <= exp_nodes) for e in req_edges):
            mon.note("subhypergraph:cut-through-edge")
        if not keep:
            mon.note("subhypergraph:keep_isolates=False")
            exp_nodes = {n for n in exp_nodes if any(n in E0[e][0] for e in exp_edges)}
        NR, ER, netR = obs(R)
        trig = f"{shape},keep_isolates={keep}"
        if set(ER) != exp_edges:
            ctx.fire("subhypergraph|selection|edges-not-exact", f"[{trig}] expected edges {sorted(exp_edges, key=repr)}, got {sorted(ER, key=repr)}", call)
            continue
        if set(NR) != exp_nodes:
            ctx.fire("subhypergraph|selection|nodes-not-exact", f"[{trig}] expected nodes {sorted(exp_nodes, key=repr)}, got {sorted(NR, key=repr)}", call)
            continue
        if any(ER[e][0] != E0[e][0] for e in ER):
            ctx.fire("subhypergraph|selection|members-changed", f"[{trig}] members of a kept edge differ from the source", call)
            continue
        if any(ER[e][1] != E0[e][1] for e in ER) or any(NR[n] != N0[n] for n in NR):
            ctx.fire("subhypergraph|selection|attributes-not-carried", f"[{trig}] attributes of a kept node / edge differ from the source", call)
            continue
        if obs(net) != src:
            ctx.fire("subhypergraph|selection|source-modified", "the source network changed", call)
            continue
        # frozen
        frozen_ok = bool(R.is_frozen)
        for attempt in (lambda: R.add_node(_absent(rec)), lambda: R.add_edge([_absent(rec)]) if cls != "SimplicialComplex" else R.add_simplex([_absent(rec)])):
            try:
                attempt()
                frozen_ok = False
            except XGIError:
                pass
        if not frozen_ok or obs(R) != (NR, ER, netR):
            ctx.fire("subhypergraph|any|result-not-frozen", "the returned view accepted a structural modification (or is_frozen is False)", call)
            continue
        if len(ER) != len(E0) or len(NR) != len(N0):
            mon.nontrivial(("subhypergraph", repr(na), repr(ea), keep, repr(src)))


# ---------------------------------------------------------------------------------
# largest_connected_hypergraph
# ---------------------------------------------------------------------------------
def drive_lch(ctx, rec):
    mon, cls = ctx.mon, rec.cls
    for in_place in ctx.in_place_values:
        net = ctx.make()
        N0, E0, net0 = src = obs(net)
        comps = components(N0, [m for m, _ in E0.values()])
        call = f"xgi.largest_connected_hypergraph(N, in_place={in_place})"
        try:
            ret = xgi.largest_connected_hypergraph(net, in_place=in_place)
        except ValueError:
            if not comps:  # null network: there is no component; raising is not excluded by anything documented
                mon.note("rejected:lch-null-network")
                continue
            raise
        mon.note(f"lch:in_place={in_place}")
        mon.ev()
        if in_place:
            R = net
        else:
            R = ret
            if R is net or obs(net) != src:
                ctx.fire("largest_connected_hypergraph|in_place=False|source-modified", "in_place=False modified (or returned) the source network", call)
                continue
        NR, ER, netR = obs(R)
        best = max((len(c) for c in comps), default=0)
        if len([c for c in comps if len(c) == best]) > 1:
            mon.note("lch:tie")
        C = frozenset(NR)
        if (comps and (C not in comps or len(C) != best)) or (not comps and C):
            ctx.fire("largest_connected_hypergraph|any|not-a-largest-component",
                     f"nodes {sorted(C, key=repr)} are not a component of maximal size of {[sorted(c, key=repr) for c in comps]}", call)
            continue
        exp = {e: v for e, v in E0.items() if v[0] and v[0] <= C}
        got = {e: v for e, v in ER.items() if v[0]}
        empties_ok = all(e in E0 and not E0[e][0] and E0[e][1] == a for e, (m, a) in ER.items() if not m)
        if {e: v[0] for e, v in exp.items()} != {e: v[0] for e, v in got.items()} or not empties_ok:
            ctx.fire("largest_connected_hypergraph|any|not-the-induced-subnetwork",
                     f"expected exactly the edges inside the component {sorted(exp, key=repr)}, got {sorted(ER, key=repr)}", call)
            continue
        if exp != got or any(NR[n] != N0[n] for n in NR):
            ctx.fire("largest_connected_hypergraph|any|attributes-not-carried", "attributes of a kept node / edge differ from the source", call)
            continue
        if len(comps) > 1:
            mon.nontrivial(("lch", in_place, repr(src)))


# ---------------------------------------------------------------------------------
# dual, <<, complement   (Hypergraph)
# ---------------------------------------------------------------------------------
def drive_dual(ctx, rec):
    mon = ctx.mon
    net = ctx.make()
    N0, E0, net0 = src = obs(net)
    call = "N.dual()"
    D = net.dual()
    mon.note("dual")
    mon.ev()
    ND, ED, _ = obs(D)
    memberships = {n: frozenset(e for e, (m, _) in E0.items() if n in m) for n in N0}
    if set(ND) != set(E0) or set(ED) != set(N0):
        return ctx.fire("dual|any|nodes-and-edges-not-exchanged", f"dual nodes {sorted(ND, key=repr)} / edges {sorted(ED, key=repr)} vs source edges {sorted(E0, key=repr)} / nodes {sorted(N0, key=repr)}", call)
    if any(ED[n][0] != memberships[n] for n in N0):
        return ctx.fire("dual|any|incidence-not-transposed", "the members of a dual edge are not the memberships of the node it comes from", call)
    if any(ED[n][1] != N0[n] for n in N0) or any(ND[e] != E0[e][1] for e in E0):
        return ctx.fire("dual|any|attributes-not-exchanged", "node attributes did not become edge attributes (or vice versa)", call)
    if obs(net) != src:
        return ctx.fire("dual|any|source-modified", "the source network changed", call)
    if all(memberships[n] for n in N0) and all(m for m, _ in E0.values()):
        DD = D.dual()
        mon.note("dual:involution")
        mon.ev()
        N2, E2, _ = obs(DD)
        if N2 != N0 or E2 != E0:
            return ctx.fire("dual|no-isolates-no-empty-edges|not-an-involution", f"dual(dual(N)) = nodes {N2} edges {E2}", "N.dual().dual()")
    if E0:
        mon.nontrivial(("dual", repr(src)))


def drive_lshift(ctx, rec, rng):
    mon = ctx.mon
    nkind = rec.nkind
    H1 = ctx.make()
    pool = sorted(H1.nodes, key=repr)
    _, more = node_pool(rng, nkind, k=6)
    pool2 = list(dict.fromkeys(rng.sample(pool, min(len(pool), 4)) + more[:3]))
    rec2 = gen_hyper(rng, nkind=nkind, pool=pool2)
    if rng.random() < 0.3:
        rec2.net = dict(rec2.net, name="second")
    if rng.random() < 0.1:  # the same object on both sides
        H2, call, extra = H1, "N << N", ""
        mon.note("lshift:same-object")
    else:
        H2, call = rec2.build(), "N << N2"
        extra = "# N2:\n" + rec2.script().replace("N = ", "N2 = ").replace("\nN.", "\nN2.").replace("\nN[", "\nN2[")
        if snap.inv(H2):
            mon.note("discarded:invalid-start-state")
            return
    s1, s2 = obs(H1), obs(H2)
    R = H1 << H2
    mon.note("lshift")
    mon.ev()
    NR, ER, netR = obs(R)
    if set(NR) != set(s1[0]) | set(s2[0]):
        return ctx.fire("__lshift__|any|node-set-not-the-union", f"nodes {sorted(NR, key=repr)}", call, extra)
    exp = Counter((m, akey(a)) for m, a in s1[1].values()) + Counter((m, akey(a)) for m, a in s2[1].values())
    got = Counter((m, akey(a)) for m, a in ER.values())
    if Counter(k[0] for k in exp.elements()) != Counter(k[0] for k in got.elements()):
        return ctx.fire("__lshift__|any|edges-not-the-disjoint-union", f"edge multiset {sorted(map(snap.sorted_repr, (m for m, _ in ER.values())), key=repr)}", call, extra)
    if exp != got:
        return ctx.fire("__lshift__|any|edge-attributes-not-kept", "the edges are the disjoint union but their attributes are not", call, extra)
    shared = False
    for n in NR:
        a = dict(s1[0].get(n, {}))
        a.update(s2[0].get(n, {}))
        if n in s1[0] and n in s2[0] and s1[0][n] and s2[0][n]:
            shared = True
        if NR[n] != a:
            return ctx.fire("__lshift__|shared-node|attribute-precedence", f"node {n!r}: {s1[0].get(n)} << {s2[0].get(n)} gave {NR[n]}", call, extra)
    na = dict(s1[2])
    na.update(s2[2])
    if netR != na:
        return ctx.fire("__lshift__|any|attribute-precedence", f"network attributes {s1[2]} << {s2[2]} gave {netR}", call, extra)
    if obs(H1) != s1 or obs(H2) != s2:
        return ctx.fire("__lshift__|any|source-modified", "an operand changed", call, extra)
    if shared:
        mon.note("lshift:shared-node-with-attrs")
    if s2[1] or set(s2[0]) - set(s1[0]):
        mon.nontrivial(("lshift", repr(s1), repr(s2)))


def drive_complement(ctx, rec):
    mon = ctx.mon
    net = ctx.make()
    N0, E0, _ = src = obs(net)
    call = "xgi.complement(N)"
    R = xgi.complement(net)
    mon.note("complement")
    mon.ev()
    NR, ER, _ = obs(R)
    if set(NR) != set(N0):
        return ctx.fire("complement|any|node-set-changed", f"nodes {sorted(NR, key=repr)} vs {sorted(N0, key=repr)}", call)
    present = {m for m, _ in E0.values()}
    smax = max((len(m) for m in present), default=0)
    exp = Counter(frozenset(c) for k in range(1, smax + 1) for c in combinations(list(N0), k) if frozenset(c) not in present)
    got = Counter(m for m, _ in ER.values())
    if not E0 and N0:  # no maximum size is defined: edgeless, or all singletons (max_edge_order's convention)
        if got and got != Counter(frozenset([n]) for n in N0):
            return ctx.fire("complement|edgeless-source|not-the-absent-node-sets", f"got {sorted(map(snap.sorted_repr, got), key=repr)}", call)
        return None
    if got != exp:
        missing = sorted(map(snap.sorted_repr, (exp - got)), key=repr)[:6]
        surplus = sorted(map(snap.sorted_repr, (got - exp)), key=repr)[:6]
        return ctx.fire("complement|any|not-the-absent-node-sets", f"max size {smax}; missing {missing} surplus (present in source, above max size, or repeated) {surplus}", call)
    if obs(net) != src:
        return ctx.fire("complement|any|source-modified", "the source network changed", call)
    if E0:
        mon.nontrivial(("complement", repr(src)))


# ---------------------------------------------------------------------------------
# cut_to_order / k_skeleton / from_max_simplices
# ---------------------------------------------------------------------------------
def drive_cut(ctx, rec, rng):
    mon, cls = ctx.mon, rec.cls
    net = ctx.make()
    N0, E0, net0 = src = obs(net)
    bf_max = max((len(m) - 1 for m, _ in E0.values()), default=None)
    fns = [("cut_to_order", xgi.cut_to_order)]
    if cls == "SimplicialComplex":
        fns.append(("k_skeleton", xgi.k_skeleton))
    top = (bf_max if bf_max is not None else 0) + 1
    for name, fn in fns:
        for k in range(-1, top + 1):
            call = f"xgi.{name}(N, {k})"
            try:
                R = fn(net, k)
            except XGIError:
                mon.ev()
                if bf_max is None or k > bf_max:
                    mon.note("cut_to_order:rejected-XGIError")
                    continue
                ctx.fire("cut_to_order|order<=max|raises-XGIError", f"order {k} is not above the maximum order {bf_max} but XGIError was raised", call)
                continue
            except TypeError as exc:
                if not N0 and not E0:
                    mon.ev()
                    ctx.fire("cut_to_order|null-network|raises-TypeError", f"TypeError({exc}) on the null network instead of the null network or XGIError", call)
                    continue
                raise
            mon.note("cut_to_order:returned")
            if name == "k_skeleton":
                mon.note("k_skeleton")
            mon.ev()
            NR, ER, netR = obs(R)
            exp = {e: v for e, v in E0.items() if len(v[0]) - 1 <= k}
            if {e: v[0] for e, v in ER.items()} != {e: v[0] for e, v in exp.items()}:
                ctx.fire("cut_to_order|any|edges-not-exact", f"expected exactly the edges of order <= {k}: {sorted(exp, key=repr)}, got {sorted(ER, key=repr)}", call)
                continue
            if ER != exp or NR != N0:
                what = "node set changed" if set(NR) != set(N0) else "attributes of a kept node / edge differ from the source"
                ctx.fire("cut_to_order|any|nodes-or-attributes-changed", what, call)
                continue
            if R is net or obs(net) != src:
                ctx.fire("cut_to_order|any|source-modified", "the source network changed (a copy is documented)", call)
                continue
            if type(R) is not type(net):
                ctx.fire("cut_to_order|any|class-changed", f"result is a {type(R).__name__}", call)
                continue
            if len(ER) != len(E0):
                mon.nontrivial((name, k, repr(src)))


def drive_max_simplices(ctx, rec):
    mon = ctx.mon
    net = ctx.make()
    N0, E0, _ = src = obs(net)
    call = "xgi.from_max_simplices(N)"
    R = xgi.from_max_simplices(net)
    mon.note("from_max_simplices")
    mon.ev()
    NR, ER, _ = obs(R)
    fam = {m for m, _ in E0.values()}
    exp = Counter(m for m in fam if not any(m < o for o in fam))
    got = Counter(m for m, _ in ER.values())
    if got != exp:
        return ctx.fire("from_max_simplices|any|not-the-maximal-simplices", f"expected {sorted(map(snap.sorted_repr, exp), key=repr)}, got {sorted(map(snap.sorted_repr, got.elements()), key=repr)}", call)
    if set(NR) != set(N0):
        return ctx.fire("from_max_simplices|any|nodes-not-all-kept", f"nodes {sorted(NR, key=repr)} vs {sorted(N0, key=repr)}", call)
    if type(R) is not xgi.Hypergraph:
        return ctx.fire("from_max_simplices|any|class-changed", f"result is a {type(R).__name__}", call)
    if obs(net) != src:
        return ctx.fire("from_max_simplices|any|source-modified", "the source network changed", call)
    if len(exp) != len(fam):
        mon.nontrivial(("from_max_simplices", repr(src)))


# ---------------------------------------------------------------------------------
# same-object sequences: derive, edit the SAME object in place, derive again
# ---------------------------------------------------------------------------------
def _fresh_edge_id(rec, net, rng):
    """An ID for a new edge of the same kind as the recipe's IDs (mixed str / int IDs cannot be sorted by merge)."""
    ekind = rec.tags[1] if len(rec.tags) > 1 else "auto"
    have = set(net.edges)
    if ekind == "str":
        return next(f"new{i}" for i in range(100) if f"new{i}" not in have)
    if ekind == "tuple":
        return next((7, i) for i in range(8, 100) if (7, i) not in have)
    return None


def _edit(net, rec, rng):
    """One in-place edit through the public API.  Returns (name, script line) or None when nothing applies."""
    cls = rec.cls
    nodes, edges = list(net.nodes), list(net.edges)
    pool = rec.pool or nodes
    di = cls == "DiHypergraph"
    names = ["add_node", "remove_node", "set_node_attr", "set_edge_attr", "add_edge", "readd-same-id", "readd-same-id"]
    if cls != "SimplicialComplex":
        names += ["add_node_to_edge:existing", "add_node_to_edge:existing", "remove_node_from_edge", "remove_node_from_edge", "remove_edge"]
    name = rng.choice(names)
    if name == "add_node":
        cand = [n for n in pool if n not in nodes] or [ABSENT[rec.nkind]]
        n = rng.choice(cand)
        if n in nodes:
            return None
        net.add_node(n)
        return name, f"N.add_node({n!r})"
    if name == "remove_node":
        if not nodes:
            return None
        n = rng.choice(nodes)
        net.remove_node(n)
        return name, f"N.remove_node({n!r})"
    if name == "set_node_attr":
        if not nodes:
            return None
        n, v = rng.choice(nodes), rng.choice(ops.ATTR_VALUES)
        net.set_node_attributes({n: v}, name="color")
        return name, f"N.set_node_attributes({{{n!r}: {v!r}}}, name='color')"
    if name == "set_edge_attr":
        if not edges:
            return None
        e, v = rng.choice(edges), rng.choice(ops.ATTR_VALUES)
        net.set_edge_attributes({e: v}, name="w")
        return name, f"N.set_edge_attributes({{{e!r}: {v!r}}}, name='w')"
    if name == "add_edge":
        idx = _fresh_edge_id(rec, net, rng)
        if di:
            m = (ops.rand_members(rng, pool, 0, 2), ops.rand_members(rng, pool, 1, 2))
            net.add_edge(m, idx=idx)
            return name, f"N.add_edge({m!r}, idx={idx!r})"
        m = ops.rand_members(rng, pool, 1, 3)
        if cls == "SimplicialComplex":
            net.add_simplex(m, idx=idx)
            return name, f"N.add_simplex({m!r}, idx={idx!r})"
        net.add_edge(m, idx=idx)
        return name, f"N.add_edge({m!r}, idx={idx!r})"
    if not edges:
        return None
    e = rng.choice(edges)
    if name == "remove_edge":
        net.remove_edge(e)
        return name, f"N.remove_edge({e!r})"
    if name == "readd-same-id":  # other members under the same edge ID: the ID sets stay the same
        if di:
            t, h = net.edges.dimembers(e)
            m = (sorted(h, key=repr), sorted(t, key=repr)) if (t != h and rng.random() < 0.5) else (ops.rand_members(rng, pool, 0, 2), ops.rand_members(rng, pool, 1, 2))
            net.remove_edge(e)
            net.add_edge(m, idx=e)
            return name, f"N.remove_edge({e!r}); N.add_edge({m!r}, idx={e!r})"
        m = ops.rand_members(rng, pool, 1, 3)
        if cls == "SimplicialComplex":
            net.remove_simplex_id(e)
            net.add_simplex(m, idx=e)
            return name, f"N.remove_simplex_id({e!r}); N.add_simplex({m!r}, idx={e!r})"
        net.remove_edge(e)
        net.add_edge(m, idx=e)
        return name, f"N.remove_edge({e!r}); N.add_edge({m!r}, idx={e!r})"
    if name == "add_node_to_edge:existing":  # existing node + existing edge: no ID set changes
        if not nodes:
            return None
        n = rng.choice(nodes)
        if di:
            d = rng.choice(("in", "out"))
            net.add_node_to_edge(e, n, d)
            return name, f"N.add_node_to_edge({e!r}, {n!r}, {d!r})"
        net.add_node_to_edge(e, n)
        return name, f"N.add_node_to_edge({e!r}, {n!r})"
    if name == "remove_node_from_edge":
        if di:
            t, h = net.edges.dimembers(e)
            d = rng.choice([x for x, part in (("in", t), ("out", h)) if part] or [None])
            if d is None:
                return None
            n = rng.choice(sorted(t if d == "in" else h, key=repr))
            net.remove_node_from_edge(e, n, d)
            return name, f"N.remove_node_from_edge({e!r}, {n!r}, {d!r})"
        m = sorted(net.edges.members(e), key=repr)
        if not m:
            return None
        n = rng.choice(m)
        net.remove_node_from_edge(e, n)
        return name, f"N.remove_node_from_edge({e!r}, {n!r})"
    return None


def drive_all(ctx, rec, rng, sample=None):
    """Every derivation of the property that applies to the recipe's class (and to its label kind)."""
    drive_cleanup(ctx, rec, rng, sample=sample)
    drive_relabel(ctx, rec, rng)
    if rec.cls != "DiHypergraph":
        drive_subhypergraph(ctx, rec, rng)
        drive_lch(ctx, rec)
        drive_cut(ctx, rec, rng)
    if rec.cls == "Hypergraph":
        drive_dual(ctx, rec)
        drive_lshift(ctx, rec, rng)
        drive_complement(ctx, rec)
        if rec.nkind in ITERABLE_KINDS:
            ctx.mon.note("complement:iterable-node-labels")
    if rec.cls == "SimplicialComplex" and rec.nkind not in ITERABLE_KINDS:
        # from_max_simplices is built on the bulk calls add_nodes_from(labels) / add_edges_from(member lists), whose
        # first-element format detection is documented as ambiguous for labels that are themselves iterable
        drive_max_simplices(ctx, rec)


def run_sequence(ctx, rec, rng):
    mon = ctx.mon
    ctx.live = net = rec.build()
    for rnd in range(rng.randint(3, 6)):
        mon.note("sequence:rounds")
        drive_all(ctx, rec, rng, sample=3)
        if ctx.fired:
            return
        for _ in range(rng.randint(1, 2)):
            before = obs(net)
            try:
                done = _edit(net, rec, rng)
            except XGIError:  # an edit the class rejects (e.g. a simplex that exists): not this property's business
                mon.note("sequence:edit-rejected")
                done = None
            if done is None:
                continue
            ctx.edits.append(done[1])
            mon.note(f"sequence:edit:{done[0]}")
            after = obs(net)
            if set(after[0]) == set(before[0]) and set(after[1]) == set(before[1]) and after != before:
                mon.note("sequence:edit-kept-both-id-sets")
        if snap.inv(net):
            mon.note("discarded:invalid-state-after-edit")
            return


# ---------------------------------------------------------------------------------
# a case
# ---------------------------------------------------------------------------------
def run_case(mon, kind, idx, rng):
    base = kind
    if kind in ("sequence", "frozen"):
        base = ("hyper", "hyper", "simplicial", "directed")[idx % 4]
    if base == "corner":
        rec = gen_corner(rng, idx % N_CORNERS)
    elif base == "hyper":
        rec = gen_hyper(rng)
    elif base == "wide":
        rec = gen_wide(rng)
    elif base == "simplicial":
        rec = gen_simplicial(rng)
    else:
        rec = gen_directed(rng)
    net = rec.build()
    if snap.inv(net):
        mon.note("discarded:invalid-start-state")
        return
    mon.note(f"input:{rec.cls}")
    if base == "wide":
        mon.note("input-wide:more-than-ten-nodes")
    mon.note(f"input-nkind:{rec.nkind}")
    if base == "corner":
        mon.note(f"input-corner:{rec.tags[0]}")
    else:
        mon.note(f"input-ekind:{rec.tags[1]}")
    ctx = Ctx(mon, rec, frozen=(kind == "frozen"))
    if kind == "sequence":
        mon.note(f"sequence:{rec.cls}")
        run_sequence(ctx, rec, rng)
    else:
        if kind == "frozen":
            mon.note(f"frozen-input:{rec.cls}")
        drive_all(ctx, rec, rng)
    if not ctx.fired:
        mon.sample(ctx.script().replace("\n", "; "))
