"""C05 - each edit has exactly its documented effect (refines an executable spec) (DESIGN §2 C05).

History + executable model: every op of a seeded history is applied to the real network
and to the reference model (xgimon/model.py, a transcription of the docstrings); after
every step the observable network must equal one of the model's admissible states.
"""
import copy

from .. import model as M
from .. import ops, snap
from ..env import xgi
from . import common

PID = "C05"
ANCHORS = ("xgi/core/hypergraph.py", "xgi/core/dihypergraph.py", "xgi/core/simplicialcomplex.py", "xgi/utils/utilities.py")
TECHNIQUE = "runtime monitoring: history + executable reference model compared after every step"
RULE = (
    "case = one seeded edit history (<= 25 ops, full mutator alphabet of one of the three classes, all documented argument shapes) "
    "applied in lock-step to the real network and to the reference model; one evaluation = one compared step. "
    "distinct_nontrivial = distinct (class, op, outcome, canonical post-state) where the op changed the state or was rejected"
)
ASSUMPTIONS = [
    "the model is a transcription of the docstrings; where they leave a choice (value of an automatic ID, empty member lists added or skipped, "
    "atomic vs prefix-applied bulk removal, 'first' duplicate = smallest ID or first added, component ties) every documented outcome is admissible",
    "random_edge_shuffle is checked by its conservation law, not by value",
    "edge attribute values are hashable (merge_rule union/intersection builds sets of them)",
    "SimplicialComplex: None members and repeated members inside one simplex are not generated; inherited rewiring methods are not driven",
]
CLASSES = ("Hypergraph", "DiHypergraph", "SimplicialComplex")
LIB_ERRORS = (xgi.exception.XGIError, xgi.exception.IDNotFound)


def plan(tier):
    if tier == "quick":
        return {f"{c}:{k}": n for c in CLASSES for k, n in (("hostile", 1600), ("steered", 600), ("start", 400))}
    return {f"{c}:{k}": n for c in CLASSES for k, n in (("hostile", 80000), ("steered", 40000), ("start", 16000))}


def floors(tier):
    f = {}
    for c in CLASSES:
        for n in common.op_names(c):
            f[f"{c}.op:{n}"] = 10
    f.update({"compared-steps": 20000, "expected-rejections-observed": 300, "law:shuffle": 30, "auto-ids-checked": 1000})
    return f


def real_state(net):
    s = snap.snap(net, order=False)
    return s, (s[1], s[2], s[4])


def diff_kind(real, exp):
    rn, re_, rnet = real
    en, ee, enet = exp
    if set(rn) != set(en):
        return "node-set-differs"
    if set(re_) != set(ee):
        return "edge-set-differs"
    if any(re_[e][0] != ee[e][0] for e in re_):
        return "members-differ"
    if any(re_[e][1] != ee[e][1] for e in re_):
        return "edge-attrs-differ"
    if rn != en:
        return "node-attrs-differ"
    if rnet != enet:
        return "net-attrs-differ"
    return None


def shuffle_law(pre, post, pair):
    """Conservation law of random_edge_shuffle: returns None or the violated clause."""
    pn, pe, pnet = pre
    qn, qe, qnet = post
    if pn != qn or pnet != qnet:
        return "nodes-or-attrs-changed"
    if set(pe) != set(qe):
        return "edge-ids-changed"
    if any(pe[e][1] != qe[e][1] for e in pe):
        return "edge-attrs-changed"
    changed = [e for e in pe if pe[e][0] != qe[e][0]]
    if pair is not None and any(e not in pair for e in changed):
        return "other-edge-changed"
    if len(changed) > 2 or len(changed) == 1:
        return "not-a-two-edge-move"
    deg = lambda edges: {n: sum(1 for e in edges.values() if n in e[0]) for n in pn}
    if deg(pe) != deg(qe):
        return "node-degree-changed"
    if changed:
        a, b = changed
        if len(pe[a][0]) != len(qe[a][0]) or len(pe[b][0]) != len(qe[b][0]):
            return "edge-size-changed"
        if pe[a][0] | pe[b][0] != qe[a][0] | qe[b][0] or pe[a][0] & pe[b][0] != qe[a][0] & qe[b][0]:
            return "union-or-intersection-changed"
    return None


def for_model(x, pre):
    """Markers -> plain data as the documentation sees them (pre = (nodes, edges, net) before the call)."""
    if isinstance(x, ops.OneShot):
        return list(x)
    if isinstance(x, ops.LiveView):
        nodes, edges, _ = pre
        if x.kind == "nodes":
            ids = list(nodes)
            if x.filt:
                deg = {n: sum(1 for m, _ in edges.values() if n in _flat(m)) for n in ids}
                ids = [n for n in ids if _cmp(deg[n], x.filt[1], x.filt[2])]
        else:
            ids = list(edges)
            if x.filt:
                ids = [e for e in ids if _cmp(len(_flat(edges[e][0])), x.filt[1], x.filt[2])]
        return ids
    if isinstance(x, list):
        return [for_model(y, pre) for y in x]
    if isinstance(x, tuple):
        return tuple(for_model(y, pre) for y in x)
    if isinstance(x, dict):
        return {k: for_model(v, pre) for k, v in x.items()}
    return x


def _flat(m):
    return (m[0] | m[1]) if isinstance(m, tuple) else m


def _cmp(a, b, mode):
    return {"eq": a == b, "leq": a <= b, "geq": a >= b}[mode]


def model_kwargs(op):
    kw = dict(op.kwargs)
    fmt = [int(t[3:]) for t in op.tags if t.startswith("fmt")]
    if op.name in ("add_edges_from", "add_simplices_from", "update") and fmt:
        kw["fmt"] = fmt[0]
    return kw


def run_case(mon, kind, idx, rng):
    cls, mode = kind.split(":")
    hostile = mode != "steered"
    avoid = set(common.steer_tags(PID)) if mode == "steered" else set()
    if cls == "SimplicialComplex":
        avoid |= {"none-member"}
    gen = ops.GENS[cls](rng, hostile=hostile, avoid=frozenset(avoid))
    hist = []
    if mode == "start":
        how, net = common.start_state(rng, cls, gen)
        hist.append(f"<start:{how}> {snap.pretty(net)}")
    else:
        net = ops.new_net(cls)
    if snap.inv(net):
        mon.note("discarded-invalid-start")
        return
    mdl = M.MODELS[cls]()
    s, pre = real_state(net)
    mdl.adopt(s)

    def fire(op, outcome, clause, what):
        key = f"{cls}.{op.name}|{common.key_tags(op)}|{clause}"
        mon.fail(key, f"{cls}: after {op!r} ({outcome}): {what}", "history:\n  " + "\n  ".join(hist) + f"\nreal: {snap.pretty(net)}")

    for step in range(rng.randint(1, 25)):
        op = gen.gen(net)
        if cls == "SimplicialComplex" and "max_order" in op.tags or cls == "SimplicialComplex" and op.name.startswith("add_"):
            op = _dedupe_members(op)
        hist.append(repr(op))
        if cls == "Hypergraph" and op.name == "random_edge_shuffle":
            import random as _r

            _r.seed(rng.random())
        outcome, val, warns = common.run_op(op, net)
        mon.note(f"{cls}.op:{op.name}")
        try:
            s, post = real_state(net)
        except Exception as exc:
            fire(op, outcome, "unobservable", f"state cannot be observed: {type(exc).__name__}: {exc}")
            return
        m2 = mdl.clone()
        m2.new_pool = [(e, s[2][e][0]) for e in s[2] if e not in pre[1]]
        m2.warn_expected = False
        pool0 = list(m2.new_pool)
        mon.ev()
        mon.note("compared-steps")
        try:
            getattr(m2, "op_" + op.name.strip("_"))(*copy.deepcopy(for_model(op.args, pre)), **copy.deepcopy(for_model(model_kwargs(op), pre)))
            expect = ("ok", [m2.state()])
            for eid, alt in getattr(m2, "attr_alts", ()):
                a = m2.clone()
                a.eattr[eid] = alt
                expect[1].append(a.state())
            if getattr(m2, "empty_seen", False):
                m3 = mdl.clone()
                m3.new_pool = list(pool0)
                m3.skip_empty = True
                try:
                    getattr(m3, "op_" + op.name.strip("_"))(*copy.deepcopy(for_model(op.args, pre)), **copy.deepcopy(for_model(model_kwargs(op), pre)))
                    expect[1].append(m3.state())
                except (M.ModelError, M.Undefined):
                    pass
        except M.ModelError as me:
            expect = ("error", me.kind, [mdl.state()] + [a.state() for a in me.alts])
        except M.Undefined as un:
            expect = ("undefined", un.law, un.data)

        if expect[0] == "ok":
            if outcome != "returned":
                if getattr(m2, "allow_lib_error_unchanged", False) and isinstance(val, LIB_ERRORS) and post == pre:
                    mon.note("admissible:empty-members-rejected")
                else:
                    fire(op, outcome, "unexpected-raise", f"the documentation lets this edit succeed but it raised {type(val).__name__}: {val}")
                    return
            else:
                kinds = [diff_kind(post, e) for e in expect[1]]
                if all(kinds):
                    fire(op, outcome, kinds[0], f"observable network differs from the documented effect ({kinds[0]}); expected {_short_state(expect[1][0])}")
                    return
                for eid, m in pool0:
                    if (eid, m) not in m2.new_pool:
                        mon.note("auto-ids-checked")
                        if not isinstance(eid, int) or isinstance(eid, bool):
                            fire(op, outcome, "auto-id-not-an-int", f"automatic ID {eid!r} is not an int")
                            return
                mdl.adopt(s)
        elif expect[0] == "error":
            mon.note("expected-rejections-observed")
            if outcome == "returned":
                fire(op, outcome, "expected-error-but-returned", "the documentation says this edit is rejected, but the call returned")
                return
            if expect[1] == "lib" and not isinstance(val, LIB_ERRORS):
                fire(op, outcome, "wrong-error-type", f"rejected edit raised {type(val).__name__} instead of the library's own error type")
                return
            kinds = [diff_kind(post, e) for e in expect[2]]
            if all(kinds):
                fire(op, outcome, "state-changed-by-rejected-edit", f"rejected edit changed the network ({kinds[0]})")
                return
            mdl.adopt(s)
        else:
            law, data = expect[1], expect[2]
            mon.note(f"law:{law}")
            if law == "shuffle":
                if outcome != "returned":
                    fire(op, outcome, "unexpected-raise", f"shuffle raised {type(val).__name__}: {val}")
                    return
                bad = shuffle_law(pre, post, data)
                if bad:
                    fire(op, outcome, f"shuffle-law:{bad}", f"random_edge_shuffle broke its conservation law: {bad}")
                    return
            elif law == "lcc-tie":
                if outcome != "returned":
                    fire(op, outcome, "unexpected-raise", f"raised {type(val).__name__}: {val}")
                    return
                # weaker oracle: the kept nodes are (the relabelled image of) one of the largest components
                if len(post[0]) != len(data[0]):
                    fire(op, outcome, "lcc-tie:wrong-size", "kept component is not one of the largest")
                    return
            mdl.adopt(s)
        if post != pre or outcome != "returned":
            mon.nontrivial((cls, op.name, outcome, repr(post)))
        if snap.inv(net):
            # the members agree with the model but the two incidence tables disagree: owned by C01-C03
            mon.note("episode-ended:invariant-broken (owned by C01-C03)")
            return
        pre = post
    mon.sample([cls] + hist)


def _short_state(st):
    return repr(st)[:400]


def _dedupe_members(op):
    """SimplicialComplex: drop repeated members inside one simplex argument (assumption, see ASSUMPTIONS)."""

    def dd(ms):
        if isinstance(ms, (list, tuple)):
            seen, out = set(), []
            for x in ms:
                if x not in seen:
                    seen.add(x)
                    out.append(x)
            return type(ms)(out)
        return ms

    if op.name in ("add_simplex", "add_edge"):
        return ops.Op(op.name, (dd(op.args[0]),) + tuple(op.args[1:]), op.kwargs, op.lib, op.tags)
    if op.name in ("add_simplices_from", "add_edges_from"):
        eb = op.args[0]
        fmt = [int(t[3:]) for t in op.tags if t.startswith("fmt")][0]
        if fmt == 5:
            eb = {i: dd(m) for i, m in eb.items()}
        elif fmt == 1:
            eb = [dd(m) for m in eb]
        else:
            eb = [(dd(e[0]),) + tuple(e[1:]) for e in eb]
        return ops.Op(op.name, (eb,), op.kwargs, op.lib, op.tags)
    return op
