"""C16 - generators deliver the structure their parameters promise (DESIGN §2 C16).

Three case kinds:

grid    one generator x one parameter tuple (bounded grid, probabilities 0 and 1 over-represented)
        x 5 seeds; structural post-conditions on every generated network.
inject  the name `geometric` in the generator's module namespace is replaced for the duration of one
        call by a scripted source ([1,1,1,...], [T+1], [1, T-1], [T], random scripts; T = number of
        admissible indices) so that the first / last index of the skip sampling is hit on purpose; the
        produced edges must be the decode of exactly the scripted indices and no "index >= comb"
        warning may be emitted.
decode  exhaustive: `_index_to_edge_comb` (n <= 9), `_index_to_edge_prod` (n <= 5, m <= 4),
        `_index_to_edge_partition` (block sizes <= 4, m <= 3) are bijections onto combinations, tuples,
        block products.  One case = one (n, m) / size vector, all indices.
"""
import random
import sys
import warnings
from collections import Counter
from itertools import combinations, permutations, product
from math import comb, prod

import networkx as nx
import numpy as np

from .. import ops
from ..env import xgi
from ..monitor import short

PID = "C16"
ANCHORS = (
    "xgi/generators/random.py",
    "xgi/generators/uniform.py",
    "xgi/generators/classic.py",
    "xgi/generators/lattice.py",
    "xgi/generators/simple.py",
    "xgi/generators/simplicial_complexes.py",
    "xgi/utils/utilities.py",
)
RULE = (
    "grid case = one generator (round robin over 23) x one parameter tuple drawn from a bounded grid (n <= 12, probabilities 0 and 1 "
    "over-represented and passed as float / numpy scalar / int / array; for the skip-sampling generators one case in five is sparse / large: n up to 500 with "
    "probabilities 1e-18 .. 1e-3 such that a handful of edges is expected, degree-type parametrisations, 300-6000 node Chung-Lu / DCSBM sequences; degree/size sequences, block sizes incl. empty blocks, graphs on <= 7 nodes) x 5 seeds (one of them seed=None with the "
    "global generators seeded from the case rng); inject case = one skip-sampling generator x parameters x one scripted `geometric`; decode case "
    "= one (n, m) / block-size vector with all indices. distinct_nontrivial = distinct (generator, parameters, seed, produced edge multiset) "
    "with at least one edge or a boundary probability / rejected parameter, plus distinct decode pairs"
)
ASSUMPTIONS = [
    "ring_lattice / watts_strogatz_hypergraph: half of the cases keep n > d + l + k/2 (edge size exactly d, closed form for d = 2, l = 0); the other half wraps the ring "
    "(n = 0..8 with shifts of n and more, negative shifts, rings smaller than an edge's reach): there only the exact node set 0..n-1, members being existing nodes, 1 <= size <= d "
    "and (Watts-Strogatz) the lattice's edge count are demanded",
    "admissible parameters only: p_type='degree' with n >= 1, sunflower with m > c and l >= 1, degree sequences with "
    "positive sum, m <= number of nodes for the configuration model; parameters for which the function raises its documented error are counted as rejected",
    "p = 0 clause: random()/geometric could in principle return exactly 0.0 (probability 2^-53); not distinguished",
    "uniform_HPPM: the two communities are contiguous label ranges; their order and the rounding of rho * n are not demanded (any of floor/ceil, either order)",
    "uniform_HSBM with p[block] == 1: demanded is the *set* of all size-m member sets of the block product (multiplicities are not demanded)",
    "downward closure is demanded for faces of size >= 2 (the class does not store singleton faces)",
    "star_clique is compared with the closed form of its docstring up to isomorphism (labels are not demanded); sunflower by the sunflower definition",
    "inject cases on large ranges (n up to 400, up to 1e9 indices) script at most 25 indices incl. the first and the last; the decodes of these distinct indices must be "
    "valid and pairwise distinct (sampled extension of the exhaustive decode cases)",
    "argument shapes the docstrings exclude (scalar ps without order, ps outside [0, 1], negative order) are only driven to reach the branches of _check_input_args; no verdict "
    "depends on them; the classes of the argument of `geometric` are counted by a harness-side pass-through wrapper",
    "injected draws: expected edges are computed with the repository's own decoders, which the decode cases verify exhaustively to be bijections for every "
    "(n, m) the inject cases use; if a private name or the module-level name `geometric` is absent the sub-check counts itself under unobserved:*",
]
TECHNIQUE = "runtime monitoring: post-condition monitors against closed forms / brute force, injected RNG outcomes, exhaustive decoding"
CASE_TIMEOUT = 20

NSEEDS = 5
BIG = 10**12

U = sys.modules["xgi.generators.uniform"]
R = sys.modules["xgi.generators.random"]
SCX = sys.modules["xgi.generators.simplicial_complexes"]
G = xgi.generators
XGIError = xgi.exception.XGIError


# ---------------------------------------------------------------------------------
# plumbing
# ---------------------------------------------------------------------------------
class Rejected(Exception):
    pass


class Fired(Exception):
    """A monitor fired for this call; the rest of the case for this call is skipped."""


def fmt_call(fname, args, kwargs):
    a = [_r(x) for x in args] + [f"{k}={_r(v)}" for k, v in kwargs.items()]
    return f"xgi.generators.{fname}({', '.join(a)})"


def _r(x):
    if isinstance(x, np.ndarray):
        return f"np.array({x.tolist()!r})"
    if isinstance(x, nx.Graph):
        return f"nx.Graph({sorted(map(tuple, x.edges()), key=repr)!r}) + nodes {list(x.nodes())!r}"
    if isinstance(x, (xgi.Hypergraph,)):
        return f"xgi.Hypergraph({[sorted(m, key=repr) for m in x.edges.members()]!r}) + nodes {list(x.nodes)!r}"
    return repr(x)


_DECODE_WARN = (">= comb(", "_index_to_edge_prod was given index")


LAST = {"desc": None}

# arguments a generator documents as modified in place: (function, position) -> where it says so
DOCUMENTED_IN_PLACE = {("uniform_hypergraph_configuration_model", 0): "Warns: increases the degree of random nodes when the sum is not divisible by m"}


def fingerprint(x):
    """Comparable digest of a mutable argument (None for immutable scalars), to see whether a call changed it."""
    if isinstance(x, np.ndarray):
        return ("ndarray", x.dtype.str, x.shape, x.tobytes())
    if isinstance(x, dict):
        return ("dict", [(repr(k), fingerprint(v) or repr(v)) for k, v in x.items()])
    if isinstance(x, (list, set)):
        return (type(x).__name__, [fingerprint(v) or repr(v) for v in x])
    if isinstance(x, nx.Graph):
        return ("graph", repr(list(x.nodes(data=True))), repr(list(x.edges(data=True))))
    if isinstance(x, (xgi.Hypergraph, xgi.DiHypergraph)):
        from .. import snap
        return ("network", repr(snap.snap(x, uid=True)))
    return None


def note_modified(mon, fname, before, args, kwargs):
    """Counter only (not a verdict of C16/C17): the call changed one of its arguments and the docstring does not say so."""
    items = list(enumerate(args)) + list(kwargs.items())
    for (key, x), fp in zip(items, before):
        if fp is not None and (fname, key) not in DOCUMENTED_IN_PLACE and fingerprint(x) != fp:
            mon.note(f"argument-modified:{fname}:{key}")
            mon.sample(f"argument-modified: {fname} changed its argument {key!r} in place")


def call(mon, fname, trig, args, kwargs, rejects=(), reject_ok=True, keyfn=None):
    """Call the generator at the client boundary.  Returns (network, call string).

    An exception of a type in `rejects` is a documented rejection (Rejected is raised when
    `reject_ok`, otherwise the monitor fires); any other exception fires the monitor.
    """
    fn = getattr(G, fname)
    desc = fmt_call(fname, args, kwargs)
    LAST["desc"] = desc
    keyfn = keyfn or fname
    mon.note(f"fn:{fname}")
    before = [fingerprint(x) for x in args] + [fingerprint(x) for x in kwargs.values()]
    with warnings.catch_warnings(record=True) as w:
        warnings.simplefilter("always")
        try:
            H = fn(*args, **kwargs)
        except rejects as exc:
            if reject_ok:
                mon.note(f"rejected:{fname}")
                raise Rejected(str(exc))
            mon.ev()
            mon.fail(f"{fname}|{trig}|rejects-admissible-parameters", f"{desc} raised {type(exc).__name__}: {exc} for admissible parameters", desc)
            raise Fired()
        except Exception as exc:
            if type(exc).__name__ == "Watchdog":  # the framework's per-case alarm: never a verdict about xgi
                raise
            mon.ev()
            mon.fail(f"{keyfn}|{trig}|raises-{type(exc).__name__}", f"{desc} raised {type(exc).__name__}: {exc}", desc)
            raise Fired()
    if any(fp is not None for fp in before):
        mon.note("argument-mutation-probes")
        note_modified(mon, fname, before, args, kwargs)
    for x in w:
        msg = str(x.message)
        if any(t in msg for t in _DECODE_WARN):
            mon.ev()
            mon.fail(f"{fname}|{trig}|decode-index-out-of-range-warning", f"{desc} emitted: {short(msg, 200)}", desc)
            raise Fired()
    return H, desc


def observe(H):
    nodes = list(H.nodes)
    mem = {e: frozenset(m) for e, m in H.edges.members(dtype=dict).items()}
    return nodes, mem


def fire(mon, fname, trig, clause, what, desc):
    mon.fail(f"{fname}|{trig}|{clause}", f"{desc}: {what}", desc)
    raise Fired()


def basic(mon, fname, trig, H, desc, want_nodes, sizes=None, nodup=False):
    """exact node set; every edge a set of existing nodes of an allowed size; optionally no repeated edge."""
    mon.ev()
    nodes, mem = observe(H)
    want = list(want_nodes)
    if len(nodes) != len(set(nodes)) or set(nodes) != set(want) or len(nodes) != len(want):
        fire(mon, fname, trig, "node-set-wrong", f"nodes are {short(nodes, 200)}, requested {short(want, 200)}", desc)
    nset = set(nodes)
    for e, m in mem.items():
        if not m <= nset:
            fire(mon, fname, trig, "member-not-a-node", f"edge {e!r} = {sorted(m, key=repr)} has members outside the node set", desc)
        if sizes is not None and len(m) not in sizes:
            fire(mon, fname, trig, "edge-size-not-allowed", f"edge {e!r} = {sorted(m, key=repr)} has size {len(m)}, allowed {sorted(sizes)}", desc)
    if nodup:
        c = Counter(mem.values())
        rep = [sorted(m, key=repr) for m, k in c.items() if k > 1]
        if rep:
            fire(mon, fname, trig, "repeated-edge", f"repeated edges {short(rep, 200)} in a model that forbids them", desc)
    return nodes, mem


def exactly_once(mon, fname, trig, mem, want_sets, clause, desc, size=None):
    """edges (of the given size, or all) are exactly `want_sets`, each once."""
    got = Counter(m for m in mem.values() if size is None or len(m) == size)
    want = Counter(frozenset(s) for s in want_sets)
    if got != want:
        missing = [sorted(s, key=repr) for s in (want - got)]
        extra = [sorted(s, key=repr) for s in (got - want)]
        fire(mon, fname, trig, clause, f"missing {short(missing, 200)} surplus {short(extra, 200)}", desc)


def closed(mon, fname, trig, mem, desc):
    fam = set(mem.values())
    for s in fam:
        for k in range(2, len(s)):
            for sub in combinations(s, k):
                if frozenset(sub) not in fam:
                    fire(mon, fname, trig, "not-downward-closed", f"simplex {sorted(s, key=repr)} lacks face {sorted(sub, key=repr)}", desc)


def seeds_for(rng, k=NSEEDS):
    s = rng.sample(range(0, 40), 2) + [rng.randrange(2**32) for _ in range(NSEEDS - 3)] + [None]
    rng.shuffle(s)
    return s[:k]


def with_seed(rng, seed):
    """seed=None: the generator draws from the global generators; make that reproducible from the case rng."""
    if seed is None:
        x = rng.randrange(2**32)
        random.seed(x)
        np.random.seed(x)
    return seed


def prob(rng):
    """A probability with 0 and 1 over-represented, passed as Python float, numpy scalar or (for 0 and 1) Python int."""
    p = rng.choice([0.0, 1.0, 0.0, 1.0, round(rng.random(), 3), round(rng.random() * 0.3, 3), 0.5])
    r = rng.random()
    if r < 0.15:
        return np.float64(p)
    if r < 0.3 and p in (0, 1):
        return int(p)
    return p


# ---------------------------------------------------------------------------------
# harness-side probe of `geometric` (value-dependent branches: p = 0, p = 1, tiny p): the name in the generator
# modules' namespaces is wrapped by a pass-through that counts the class of p and of the result.  Nothing in /repo changes.
# ---------------------------------------------------------------------------------
GEO = Counter()


def geo_class(p):
    try:
        x = float(p)
    except Exception:
        return "not-a-number"
    if x == 0:
        return "p=0"
    if x == 1:
        return "p=1"
    if 0 < x < 1e-12:
        return "0<p<1e-12"
    if 1e-12 <= x < 1e-4:
        return "1e-12<=p<1e-4"
    if 1e-4 <= x < 1e-2:
        return "1e-4<=p<1e-2"
    if 1e-2 <= x < 1:
        return "1e-2<=p<1"
    return "outside-[0,1]"


def install_geometric_probe():
    ok = True
    for mod in (R, U):
        g = mod.__dict__.get("geometric")
        if g is None:
            ok = False
            continue
        if getattr(g, "_xgimon_probe", False):
            continue

        def probe(p, _g=g):
            GEO[geo_class(p)] += 1
            if isinstance(p, np.generic):
                GEO["numpy-scalar"] += 1
            v = _g(p)
            if v == np.inf:
                GEO["->inf"] += 1
            elif v == 1:
                GEO["->1"] += 1
            return v

        probe._xgimon_probe = True
        mod.geometric = probe
    return ok


PROBED_GEOMETRIC = install_geometric_probe()


def flush_geo(mon):
    for k, v in GEO.items():
        mon.note(f"geometric:{k}", v)
    GEO.clear()


# ---------------------------------------------------------------------------------
# sparse / large parameter tuples: tiny probabilities with n chosen so that a handful of edges is expected
# (shared with C17).  Skip sampling makes these calls fast.
# ---------------------------------------------------------------------------------
def np_typed(rng, x):
    return np.float64(x) if rng.random() < 0.3 else x


def sparse_rh(rng):
    """fast_random_hypergraph: (n, ps, order, orders) with ps[i] ~ E / C(n, d+1), E in [2, 25]."""
    n = rng.randint(40, 300)
    if rng.random() < 0.4:
        orders, order = list(range(1, rng.randint(1, 2) + 1)), None
    else:
        orders = sorted(rng.sample([1, 2, 3], rng.randint(1, 2)))
        order = list(orders)
    ps = [rng.uniform(2, 25) / comb(n, d + 1) for d in orders]
    r = rng.random()
    if r < 0.15 and len(ps) > 1:
        ps[rng.randrange(len(ps))] = 0
    elif r < 0.3 and len(ps) > 1:
        ps[rng.randrange(len(ps))] = 1e-18  # admissible, and so small that log(1 - p) == 0 inside geometric
    form = rng.choice(["list", "array", "np-scalars"])
    if form == "array":
        ps = np.array(ps, dtype=float)
        order = None if order is None else np.array(order)
    elif form == "np-scalars":
        ps = [np.float64(x) for x in ps]
    return n, ps, order, orders


def sparse_er(rng):
    """uniform_erdos_renyi_hypergraph: (n, m, p, p_type, multiedges) with about 2-40 expected edges."""
    multi = rng.random() < 0.4
    m = rng.randint(2, 4)
    n = rng.randint(50, 500 if m < 4 else 200)
    E = rng.uniform(2, 40)
    p_type = rng.choice(["prob", "degree"])
    if p_type == "prob":
        p = E / (n**m if multi else comb(n, m))
    else:
        p = E * m / n
        if n <= 120 and rng.random() < 0.3:
            p = 1  # Python int mean degree
    return n, m, np_typed(rng, p), p_type, multi


def sparse_hsbm(rng):
    m = rng.randint(2, 3)
    nb = rng.randint(1, 3 if m == 2 else 2)
    sizes = [rng.randint(20, 150) for _ in range(nb)]
    p = np.zeros((nb,) * m)
    blocks = list(product(range(nb), repeat=m))
    for blk in blocks:
        if rng.random() < 0.75:
            p[blk] = rng.uniform(0.5, 8) / prod(sizes[b] for b in blk)
    if not p.any():
        p[blocks[0]] = 4 / prod(sizes[b] for b in blocks[0])
    return sum(sizes), m, p, sizes


def sparse_hppm(rng):
    m = rng.randint(2, 3)
    n = rng.randint(60, 400)
    k = rng.uniform(3, 40) * m / n
    eps = rng.choice([0.0, 1.0, 0.5, round(rng.random(), 2)])
    rho = rng.choice([0.5, 0.3, 0.25])
    return n, m, np_typed(rng, k), eps, rho


def large_bipartite(rng, groups=False, sizes=(300, 1000, 3000, 6000)):
    n1 = rng.choice(sizes) + rng.randint(0, 50)
    n2 = max(50, int(n1 * rng.choice([0.5, 1.0])))
    k1 = {i: rng.randint(1, 3) for i in range(n1)}
    k2 = {j: rng.randint(1, 3) for j in range(n2)}
    if not groups:
        return k1, k2
    g1 = {i: rng.randrange(2) for i in k1}
    g2 = {j: rng.randrange(2) for j in k2}
    S = sum(k1.values())
    omega = np.array([[S // 3, S // 6], [S // 6 if rng.random() < 0.7 else 0, S // 3]]).astype(rng.choice([int, float, float, np.float32]))
    return k1, k2, g1, g2, omega


def ptrig(ps):
    ps = list(np.ravel(np.array(ps, dtype=float)))
    if any(p == 1 for p in ps):
        return "p=1"
    if all(p == 0 for p in ps):
        return "p=0"
    return "0<=p<1"


def record(mon, fname, params, seed, mem, boundary=False):
    if mem is not None and len(mem) > 300:  # large networks: a digest instead of the full listing
        mon.nontrivial((fname, short(params, 300), seed, len(mem), hash(frozenset(Counter(mem.values()).items()))))
        return
    if mem or boundary:
        mon.nontrivial((fname, params, seed, sorted(map(lambda m: sorted(map(repr, m)), mem.values())) if mem is not None else None))


# ---------------------------------------------------------------------------------
# grid: one function per generator.  Each returns after driving one parameter tuple.
# ---------------------------------------------------------------------------------
def _rh_params(rng):
    n = rng.choice([0, 1, 2, 3, 4, 5, 6, 7, 8, 5, 6, 7])
    mode = rng.choice(["list", "list", "orders", "orders-array", "int"])
    if mode == "list":
        ps = [prob(rng) for _ in range(rng.randint(1, 3))]
        return n, ps, None, list(range(1, len(ps) + 1))
    if mode == "int":
        d = rng.randint(0, 3)
        return n, float(prob(rng)), d, [d]
    orders = rng.sample(range(0, 4), rng.randint(1, 3))
    ps = [prob(rng) for _ in orders]
    if mode == "orders-array":
        return n, np.array(ps), np.array(orders), orders
    return n, ps, orders, orders


INADMISSIBLE_RH = {  # argument shapes the docstring excludes; they only have to leave by an exception or return (branches of _check_input_args)
    "ps-scalar-without-order": ((4, 0.5), {}),
    "order-int-ps-not-float": ((4, 1, 2), {}),
    "order-list-ps-float": ((4, 0.5, [1, 2]), {}),
    "ps-above-1": ((4, [0.5, 1.5]), {}),
    "ps-negative": ((4, [-0.1]), {}),
    "negative-order": ((4, [0.5], [-1]), {}),
}


def g_random_hypergraphs(fname):
    def run(mon, rng):
        sparse = fname == "fast_random_hypergraph" and rng.random() < 0.2
        n, ps, order, orders = sparse_rh(rng) if sparse else _rh_params(rng)
        plist = [ps] if isinstance(ps, float) else list(ps)
        trig = ptrig(plist)
        mon.note(f"args:{fname}:ps={type(ps).__name__},order={type(order).__name__}")
        r = rng.random()
        if r < 0.04:  # documented rejection: lengths differ
            try:
                call(mon, fname, "len-mismatch", (n, [0.5, 0.5], [1]), {"seed": 1}, rejects=(ValueError,))
                mon.ev()
                mon.fail(f"{fname}|len-mismatch|accepted", "ps and order of different length were accepted", "")
            except Rejected:
                mon.ev()
            return
        if r < 0.08:
            cls = rng.choice(sorted(INADMISSIBLE_RH))
            a, kw = INADMISSIBLE_RH[cls]
            try:
                call(mon, fname, cls, a, dict(kw, seed=1), rejects=(ValueError, TypeError))
                mon.note(f"inadmissible-accepted:{cls}")
            except Rejected:
                mon.note(f"inadmissible-rejected:{cls}")
            return
        if sparse:
            mon.note(f"sparse:{fname}")
        for seed in seeds_for(rng, 3 if sparse else NSEEDS):
            H, desc = call(mon, fname, trig, (n, ps, order), {"seed": with_seed(rng, seed)})
            nodes, mem = basic(mon, fname, trig, H, desc, range(n), sizes={d + 1 for d in orders}, nodup=True)
            for d, p in zip(orders, plist):
                if p == 0:
                    mon.note("clause:p=0")
                    if any(len(m) == d + 1 for m in mem.values()):
                        fire(mon, fname, "p=0", "edges-of-a-probability-0-order", f"order {d} has probability 0 but edges of size {d + 1} exist", desc)
                elif p == 1:
                    mon.note("clause:p=1")
                    exactly_once(mon, fname, "p=1", mem, combinations(range(n), d + 1), "not-all-edges-of-the-order", desc, size=d + 1)
            if sparse and mem:
                mon.note(f"sparse-nonempty:{fname}")
            record(mon, fname, (n, repr(ps), repr(order)), seed, mem, boundary=trig != "0<=p<1")
    return run


def er_q(n, m, p, p_type, multiedges):
    if p_type == "prob":
        return p
    if multiedges:
        return p / (m * n ** (m - 1))
    return p * n / (m * comb(n, m))


def g_uniform_erdos_renyi_hypergraph(mon, rng):
    fname = "uniform_erdos_renyi_hypergraph"
    multi = rng.random() < 0.4
    p_type = rng.choice(["prob", "prob", "degree"])
    sparse = rng.random() < 0.2
    if sparse:
        n, m, p, p_type, multi = sparse_er(rng)
        mon.note(f"sparse:{fname}")
    elif multi:
        m = rng.randint(1, 4)
        n = rng.randint(1, {1: 8, 2: 8, 3: 6, 4: 5}[m])
    else:
        n = rng.randint(1, 9)
        m = rng.randint(1, min(n, 4) if p_type == "degree" else min(n + 1, 5))
    if sparse:
        pass
    elif p_type == "prob":
        p = prob(rng)
        if rng.random() < 0.2:
            p = int(p) if p in (0, 1) else p
    else:
        # mean degrees whose derived wiring probability is mostly <= 1 (DESIGN grid rule); a few above (documented rejection)
        unit = (m * n ** (m - 1)) if multi else (m * comb(n, m) / n)  # the degree at which the probability is 1
        p = rng.choice([0, 0.5, 1, unit, round(unit * rng.random(), 3), round(unit * rng.random(), 3), round(unit * 0.5 * rng.random(), 3), unit * 1.5])
    q = er_q(n, m, p, p_type, multi)
    if p_type == "degree" and (abs(q - 1) < 1e-9 and q != 1):
        return  # rounding decides between "complete" and "rejected": not driven
    trig = ("multiedges," if multi else "") + ("p=1" if q == 1 else "p=0" if q == 0 else "p>1" if q > 1 else "0<p<1")
    kw = {"p_type": p_type, "multiedges": multi}
    for seed in seeds_for(rng, 3 if sparse else NSEEDS):
        try:
            H, desc = call(mon, fname, trig, (n, m, p), dict(kw, seed=with_seed(rng, seed)), rejects=(XGIError,), reject_ok=q > 1)
        except Rejected:
            mon.ev()
            continue
        if q > 1:
            mon.ev()
            fire(mon, fname, trig, "accepts-probability-above-1", f"derived wiring probability {q} > 1 was accepted", desc)
        nodes, mem = basic(mon, fname, trig, H, desc, range(n), sizes={m}, nodup=not multi)
        if q == 0:
            mon.note("clause:p=0")
            if mem:
                fire(mon, fname, trig, "edges-with-probability-0", f"{len(mem)} edges with probability 0", desc)
        elif q == 1:
            mon.note("clause:p=1")
            if multi:
                if set(mem.values()) != {frozenset(c) for c in combinations(range(n), m)}:
                    fire(mon, fname, trig, "not-all-edges-of-the-order", "probability 1 did not yield every m-subset", desc)
            else:
                exactly_once(mon, fname, trig, mem, combinations(range(n), m), "not-all-edges-of-the-order", desc)
        if sparse and mem:
            mon.note(f"sparse-nonempty:{fname}")
        record(mon, fname, (n, m, p, p_type, multi), seed, mem, boundary=q in (0, 1))


def hsbm_partition(sizes):
    out, s = [], 0
    for z in sizes:
        out.append(list(range(s, s + z)))
        s += z
    return out


def hsbm_violation(mem, m, p, sizes):
    """None, or (trigger, clause, what) for the block clauses of the HSBM: no edge from probability-0 blocks, all edges of probability-1 blocks."""
    part = hsbm_partition(sizes)
    block_of = {v: b for b, blk in enumerate(part) for v in blk}
    nb = len(sizes)
    positive = {blk for blk in product(range(nb), repeat=m) if p[blk] > 0}
    for e, mm in mem.items():
        if not any(tuple(block_of[v] for v in perm) in positive for perm in permutations(mm)):
            return ("p=0", "edge-from-a-probability-0-block", f"edge {sorted(mm)} spans blocks {sorted(block_of[v] for v in mm)} (block sizes {list(sizes)}) whose probability is 0")
    want = set()
    for blk in product(range(nb), repeat=m):
        if p[blk] == 1:
            want |= {frozenset(t) for t in product(*[part[b] for b in blk]) if len(set(t)) == m}
    if not want <= set(mem.values()):
        missing = [sorted(s) for s in want - set(mem.values())]
        return ("p=1", "not-all-edges-of-the-block", f"blocks with probability 1 (block sizes {list(sizes)}) lack {short(missing, 200)}")
    return None


def hsbm_check(mon, fname, trig, H, desc, n, m, p, sizes_options):
    """sizes_options: the block-size vectors the documentation admits (one for uniform_HSBM, several for uniform_HPPM)."""
    nodes, mem = basic(mon, fname, trig, H, desc, range(n), sizes={m})
    if (p == 0).any():
        mon.note("clause:p=0")
    if (p == 1).any():
        mon.note("clause:p=1")
    found = [hsbm_violation(mem, m, p, sizes) for sizes in sizes_options]
    if all(found):
        t, clause, what = found[0]
        fire(mon, fname, t, clause, what, desc)
    return mem


def g_uniform_HSBM(mon, rng):
    fname = "uniform_HSBM"
    m = rng.randint(1, 3)
    nb = rng.randint(1, 3 if m < 3 else 2)
    sizes = [rng.choice([0, 1, 2, 3, 4, 2, 3]) for _ in range(nb)]
    n = sum(sizes)
    style = rng.choice(["mixed", "mixed", "interior", "zero-one"])
    p = np.zeros((nb,) * m)
    for blk in product(range(nb), repeat=m):
        p[blk] = {"mixed": prob(rng), "interior": round(0.05 + 0.9 * rng.random(), 3), "zero-one": float(rng.random() < 0.5)}[style]
    sparse = rng.random() < 0.2
    if sparse:
        n, m, p, sizes = sparse_hsbm(rng)
        mon.note(f"sparse:{fname}")
    elif rng.random() < 0.05:  # documented rejections
        bad = rng.choice(["n", "dim", "range"])
        args = {"n": (n + 1, m, p, sizes), "dim": (n, m + 1, p, sizes), "range": (n, m, p + 1.5, sizes)}[bad]
        try:
            call(mon, fname, f"invalid-{bad}", args, {"seed": 0}, rejects=(XGIError,))
            mon.ev()
            mon.fail(f"{fname}|invalid-{bad}|accepted", "inconsistent parameters were accepted", fmt_call(fname, args, {}))
        except Rejected:
            mon.ev()
        return
    trig = ptrig(p)
    if rng.random() < 0.3:
        sizes = np.array(sizes)
    for seed in seeds_for(rng, 3 if sparse else NSEEDS):
        H, desc = call(mon, fname, trig, (n, m, p, sizes), {"seed": with_seed(rng, seed)})
        mem = hsbm_check(mon, fname, trig, H, desc, n, m, p, [list(sizes)])
        if sparse and mem:
            mon.note(f"sparse-nonempty:{fname}")
        record(mon, fname, (n, m, p.tolist(), list(map(int, sizes))), seed, mem, boundary=trig != "0<=p<1")


def g_uniform_HPPM(mon, rng):
    fname = "uniform_HPPM"
    m = rng.randint(2, 3)
    n = rng.randint(2, 10 if m == 2 else 7)
    rho = rng.choice([0.5, 0.5, 0.3, 0.25, 0.0, 1.0, round(rng.random(), 2)])
    eps = rng.choice([0.0, 1.0, 0.5, round(rng.random(), 2)])
    k = rng.choice([0, 1, 2, 0.5, 3, round(rng.random() * 4, 2), n, 2 * n])
    sparse = rng.random() < 0.2
    if sparse:
        n, m, k, eps, rho = sparse_hppm(rng)
        mon.note(f"sparse:{fname}")
    elif rng.random() < 0.05:
        bad = rng.choice([(n, m, k, eps, -0.1), (n, m, -1, eps, rho), (n, m, k, 1.5, rho)])
        try:
            call(mon, fname, "invalid", bad[:4], {"rho": bad[4], "seed": 0}, rejects=(XGIError,))
            mon.ev()
            mon.fail(f"{fname}|invalid|accepted", "parameters outside the documented ranges were accepted", repr(bad))
        except Rejected:
            mon.ev()
        return
    base = k / (m * n ** (m - 1))
    qq = rho**m + (1 - rho) ** m
    p_in, p_out = (1 + (1 / qq - 1) * eps) * base, (1 - eps) * base
    pmax = max(p_in, p_out)
    if abs(pmax - 1) < 1e-9 and pmax != 1:
        return
    # "rho: the fraction of nodes in community 1": which of the two (symmetric) communities comes first and how rho * n is rounded is not documented
    lo, hi = int(np.floor(rho * n + 1e-9)), int(np.ceil(rho * n - 1e-9))
    options = [[a, n - a] for a in sorted({lo, hi, n - lo, n - hi})]
    p = p_out * np.ones([2] * m)
    p[(0,) * m] = p_in
    p[(1,) * m] = p_in
    trig = "p>1" if pmax > 1 else ptrig(p)
    # the model is documented as an instance of uniform_HSBM; an exception caused by a block probability equal to 1 is that function's
    keyname = "uniform_HSBM" if trig == "p=1" else fname
    for seed in seeds_for(rng, 3 if sparse else NSEEDS):
        try:
            H, desc = call(mon, fname, trig, (n, m, k, eps), {"rho": rho, "seed": with_seed(rng, seed)}, rejects=(XGIError,), reject_ok=pmax > 1, keyfn=keyname)
        except Rejected:
            mon.ev()
            continue
        if pmax > 1:
            mon.ev()
            fire(mon, fname, trig, "accepts-probability-above-1", f"block probability {pmax} > 1 was accepted", desc)
        mem = hsbm_check(mon, fname, trig, H, desc, n, m, p, options)
        if k == 0 and mem:
            fire(mon, fname, "p=0", "edges-with-mean-degree-0", f"{len(mem)} edges with k = 0", desc)
        if sparse and mem:
            mon.note(f"sparse-nonempty:{fname}")
        record(mon, fname, (n, m, k, eps, rho), seed, mem, boundary=trig != "0<=p<1")


def labelled_degrees(rng, lo=0, hi=4, kmin=2, kmax=8):
    _, pool = ops.node_pool(rng, k=rng.randint(kmin, kmax))
    return {v: rng.randint(lo, hi) for v in pool}


def g_uniform_hypergraph_configuration_model(mon, rng):
    fname = "uniform_hypergraph_configuration_model"
    k = labelled_degrees(rng)
    m = rng.randint(1, min(4, len(k)))
    rem = sum(k.values()) % m
    trig = "realizable" if rem == 0 else "sum-not-divisible-by-m"
    for seed in seeds_for(rng):
        kk = dict(k)
        H, _ = call(mon, fname, trig, (kk, m), {"seed": with_seed(rng, seed)})
        desc = fmt_call(fname, (dict(k), m), {"seed": seed})
        nodes, mem = basic(mon, fname, trig, H, desc, k.keys(), sizes={m})
        deg = Counter(v for mm in mem.values() for v in mm)
        for v in k:
            if not k[v] <= kk[v] <= k[v] + 1:
                fire(mon, fname, trig, "degree-dict-changed-by-more-than-one-connection", f"k[{v!r}] went from {k[v]} to {kk[v]}", desc)
            if deg[v] > kk[v]:
                fire(mon, fname, trig, "degree-exceeds-prescribed", f"node {v!r} has degree {deg[v]} > prescribed {kk[v]} (sequence after the call {kk})", desc)
        if set(kk) != set(k) or sum(kk.values()) % m != 0 or sum(kk.values()) - sum(k.values()) != (m - rem) % m:
            fire(mon, fname, trig, "degree-sequence-not-made-realizable", f"sequence after the call {kk}", desc)
        if len(mem) * m > sum(kk.values()):
            fire(mon, fname, trig, "more-edges-than-stubs", f"{len(mem)} edges of size {m} from {sum(kk.values())} stubs", desc)
        record(mon, fname, (sorted(k.items(), key=repr), m), seed, mem)


def bipartite_params(rng):
    k1 = labelled_degrees(rng, lo=0, hi=4, kmin=2, kmax=8)
    if sum(k1.values()) == 0:
        k1[next(iter(k1))] = 2
    _, epool = ops.eid_pool(rng, k=rng.randint(1, 6))
    k2 = {e: rng.randint(1, 4) for e in epool}
    return k1, k2


def bipartite_check(mon, fname, trig, H, desc, k1, k2):
    nodes, mem = basic(mon, fname, trig, H, desc, k1.keys())
    if not set(mem) <= set(k2):
        fire(mon, fname, trig, "edge-id-not-requested", f"edge IDs {sorted(set(mem) - set(k2), key=repr)} are not keys of k2", desc)
    if any(len(mm) == 0 for mm in mem.values()):
        fire(mon, fname, trig, "empty-edge", "an empty edge was created", desc)
    return mem


def g_chung_lu_hypergraph(mon, rng):
    fname = "chung_lu_hypergraph"
    large = rng.random() < 0.02
    k1, k2 = large_bipartite(rng) if large else bipartite_params(rng)
    if large:
        mon.note(f"sparse:{fname}")
    trig = "sums-equal" if sum(k1.values()) == sum(k2.values()) else "sums-differ"
    for seed in seeds_for(rng, 2 if large else NSEEDS):
        H, _ = call(mon, fname, trig, (dict(k1), dict(k2)), {"seed": with_seed(rng, seed)})
        desc = short(fmt_call(fname, (k1, k2), {"seed": seed}), 1500)
        mem = bipartite_check(mon, fname, trig, H, desc, k1, k2)
        record(mon, fname, (sorted(k1.items(), key=repr), sorted(k2.items(), key=repr)), seed, mem)


def dcsbm_params(rng):
    k1, k2 = bipartite_params(rng)
    for v in k1:
        k1[v] = max(1, k1[v])
    ng1, ng2 = rng.randint(1, 2), rng.randint(1, 2)
    g1 = {v: rng.randrange(ng1) for v in k1}
    g2 = {e: rng.randrange(ng2) for e in k2}
    omega = np.array([[rng.randint(0, 6) for _ in range(ng2)] for _ in range(ng1)]).astype(rng.choice([int, float, float, np.float32]))
    return k1, k2, g1, g2, omega


def g_dcsbm_hypergraph(mon, rng):
    fname = "dcsbm_hypergraph"
    large = rng.random() < 0.02
    k1, k2, g1, g2, omega = large_bipartite(rng, groups=True) if large else dcsbm_params(rng)
    if large:
        mon.note(f"sparse:{fname}")
    trig = "generic"
    for seed in seeds_for(rng, 2 if large else NSEEDS):
        H, _ = call(mon, fname, trig, (dict(k1), dict(k2), dict(g1), dict(g2), omega.copy()), {"seed": with_seed(rng, seed)})
        desc = short(fmt_call(fname, (k1, k2, g1, g2, omega), {"seed": seed}), 1500)
        mem = bipartite_check(mon, fname, trig, H, desc, k1, k2)
        for e, mm in mem.items():
            for v in mm:
                if omega[g1[v], g2[e]] == 0:
                    mon.note("clause:p=0")
                    fire(mon, fname, "omega=0", "incidence-between-groups-with-omega-0", f"node {v!r} (group {g1[v]}) is in edge {e!r} (group {g2[e]}) but omega is 0 there", desc)
        record(mon, fname, (sorted(k1.items(), key=repr), sorted(k2.items(), key=repr), sorted(g1.items(), key=repr), sorted(g2.items(), key=repr), omega.tolist()), seed, mem)


def lattice_params(rng):
    d = rng.randint(1, 4)
    l = rng.randint(0, 2)
    k = rng.choice([0, 1, 2, 2, 3, 4, 4, 6])
    lo = int(d + l + k / 2) + 1
    n = rng.randint(lo, max(lo, 12))
    return n, d, k, l


def lattice_wrap_params(rng):
    """Small rings relative to shift, width and edge size, shifts of n and more, negative shifts: edges wrap the ring (several times),
    members may coincide.  Returns (n, d, k, l, region)."""
    n = rng.choice([0, 1, 1, 2, 2, 3, 3, 4, 4, 5, 6, 7, 8])
    d = rng.randint(1, 5)
    k = rng.choice([0, 1, 2, 2, 3, 4, 4, 6, 8])
    region = rng.choice(["negative-l", "l>=n", "l>=n", "small-ring", "small-ring"])
    if region == "negative-l":
        l = -rng.randint(1, 2 * n + 3)
    elif region == "l>=n":
        l = rng.randint(n, 3 * n + 3)
    else:
        l = rng.randint(0, 3)
        n = min(n, int(d + l + k / 2))  # an edge reaches around the ring
    return n, d, k, l, region


def wrap_clauses(mon, fname, trig, H, desc, n, d):
    """What the statement makes for every admissible parameter: exact node set 0..n-1, every edge a non-empty set of at most d existing nodes."""
    return basic(mon, fname, trig, H, desc, range(n), sizes=set(range(1, d + 1)))


def g_ring_lattice(mon, rng):
    fname = "ring_lattice"
    if rng.random() < 0.5:
        n, d, k, l, region = lattice_wrap_params(rng)
        mon.note(f"ring_lattice:wrapping:{region}")
        H, desc = call(mon, fname, "wrapping", (n, d, k, l), {})
        nodes, mem = wrap_clauses(mon, fname, "wrapping", H, desc, n, d)
        record(mon, fname, (n, d, k, l), None, mem, boundary=True)
        return
    if rng.random() < 0.05:
        try:
            call(mon, fname, "k<0", (6, 2, -2, 0), {}, rejects=(XGIError,))
            mon.ev()
            mon.fail(f"{fname}|k<0|accepted", "negative k was accepted", "")
        except Rejected:
            mon.ev()
        return
    n, d, k, l = lattice_params(rng)
    trig = "non-wrapping"
    H, desc = call(mon, fname, trig, (n, d, k, l), {})
    nodes, mem = basic(mon, fname, trig, H, desc, range(n), sizes={d})
    if d == 2 and l == 0 and n > k:
        # docstring: each node has k//2 edges on either side
        exactly_once(mon, fname, "d=2,l=0", mem, [(i, (i + j) % n) for i in range(n) for j in range(1, k // 2 + 1)], "not-the-ring-lattice-graph", desc)
    if len(mem) != n * (k // 2):
        fire(mon, fname, trig, "edge-count-wrong", f"{len(mem)} edges, expected n * (k // 2) = {n * (k // 2)}", desc)
    record(mon, fname, (n, d, k, l), None, mem)


def g_watts_strogatz_hypergraph(mon, rng):
    fname = "watts_strogatz_hypergraph"
    p = prob(rng)
    if rng.random() < 0.4:  # the lattice underneath wraps the ring
        n, d, k, l, region = lattice_wrap_params(rng)
        mon.note(f"watts_strogatz_hypergraph:wrapping:{region}")
        trig = "wrapping"
        L, _ = call(mon, "ring_lattice", trig, (n, d, k, l), {})
        n_lat = len(observe(L)[1])
        for seed in seeds_for(rng, 3):
            H, desc = call(mon, fname, trig, (n, d, k, l, p), {"seed": with_seed(rng, seed)})
            nodes, mem = wrap_clauses(mon, fname, trig, H, desc, n, d)
            if len(mem) != n_lat:
                fire(mon, fname, trig, "edge-count-differs-from-lattice", f"{len(mem)} edges, the lattice has {n_lat}", desc)
            record(mon, fname, (n, d, k, l, p), seed, mem, boundary=True)
        return
    n, d, k, l = lattice_params(rng)
    trig = ptrig([p])
    L, _ = call(mon, "ring_lattice", "non-wrapping", (n, d, k, l), {})
    lat = Counter(observe(L)[1].values())
    for seed in seeds_for(rng):
        H, desc = call(mon, fname, trig, (n, d, k, l, p), {"seed": with_seed(rng, seed)})
        nodes, mem = basic(mon, fname, trig, H, desc, range(n), sizes=set(range(1, d + 1)))
        if len(mem) != sum(lat.values()):
            fire(mon, fname, trig, "edge-count-differs-from-lattice", f"{len(mem)} edges, the lattice has {sum(lat.values())}", desc)
        if p == 0:
            mon.note("clause:p=0")
            if Counter(mem.values()) != lat:
                fire(mon, fname, "p=0", "rewired-with-probability-0", "rewiring probability 0 changed the lattice", desc)
        record(mon, fname, (n, d, k, l, p), seed, mem, boundary=p in (0, 1))


def g_complete_hypergraph(mon, rng):
    fname = "complete_hypergraph"
    N = rng.randint(0, 7)
    r = rng.random()
    if r < 0.08:
        kw = rng.choice([{}, {"order": 1, "max_order": 2}])
        try:
            call(mon, fname, "order-and-max_order", (N,), kw, rejects=(ValueError,))
            mon.ev()
            mon.fail(f"{fname}|order-and-max_order|accepted", "neither / both of order and max_order were accepted", repr(kw))
        except Rejected:
            mon.ev()
        return
    if r < 0.5:
        order = rng.randint(0, N + 1)
        kw = {"order": order}
        if rng.random() < 0.3:
            kw["include_singletons"] = rng.random() < 0.5  # documented as discarded
        want = list(combinations(range(N), order + 1))
        trig = "order"
    else:
        inc = rng.random() < 0.5
        mo = rng.randint(0 if inc else 1, N + 1)
        kw = {"max_order": mo, "include_singletons": inc}
        want = [c for s in range(1 if inc else 2, mo + 2) for c in combinations(range(N), s)]
        trig = "max_order"
    H, desc = call(mon, fname, trig, (N,), kw)
    nodes, mem = basic(mon, fname, trig, H, desc, range(N), nodup=True)
    exactly_once(mon, fname, trig, mem, want, "not-each-admissible-set-exactly-once", desc)
    record(mon, fname, (N, sorted(kw.items())), None, mem, boundary=True)


def g_complement(mon, rng):
    fname = "complement"
    _, pool = ops.node_pool(rng, k=rng.randint(1, 5))
    H0 = xgi.Hypergraph()
    H0.add_nodes_from(pool)
    for _ in range(rng.randint(1, 7)):
        H0.add_edge(ops.rand_members(rng, pool, 1, 4))
    sets = {frozenset(m) for m in H0.edges.members()}
    mx = max(len(s) for s in sets)
    trig = "generic"
    Hc, desc = call(mon, fname, trig, (H0,), {})
    nodes, mem = basic(mon, fname, trig, Hc, desc, pool, nodup=True)
    want = [c for s in range(1, mx + 1) for c in combinations(pool, s) if frozenset(c) not in sets]
    exactly_once(mon, fname, trig, mem, want, "not-the-complement", desc)
    record(mon, fname, (tuple(pool), sorted(map(lambda s: sorted(map(repr, s)), sets))), None, mem, boundary=True)


def incidence_graph(edge_sets, nodes):
    B = nx.Graph()
    for v in nodes:
        B.add_node(("n", v), kind="n")
    for i, s in enumerate(edge_sets):
        B.add_node(("e", i), kind="e")
        for v in s:
            B.add_edge(("e", i), ("n", v))
    return B


def g_star_clique(mon, rng):
    fname = "star_clique"
    if rng.random() < 0.85:
        ns, nc = rng.randint(1, 5), rng.randint(1, 5)
        dmax = rng.randint(0, nc - 1)
    else:
        ns, nc = rng.randint(0, 5), rng.randint(0, 5)
        dmax = rng.randint(-1, 5)
    admissible = ns > 0 and nc > 0 and 0 <= dmax <= nc - 1
    trig = "admissible" if admissible else "documented-invalid"
    try:
        H, desc = call(mon, fname, trig, (ns, nc, dmax), {}, rejects=(ValueError,), reject_ok=not admissible)
    except Rejected:
        mon.ev()
        return
    if not admissible:
        mon.ev()
        fire(mon, fname, trig, "accepted", "parameters outside the documented ranges were accepted", desc)
    N = ns + nc
    nodes, mem = basic(mon, fname, trig, H, desc, range(N), nodup=True)
    clique = list(range(ns, N))
    want = [(0, i) for i in range(1, ns)] + [(0, ns)] + [c for s in range(2, dmax + 2) for c in combinations(clique, s)]
    got = Counter(mem.values())
    if got != Counter(map(frozenset, want)):
        mon.note("star_clique:isomorphism-fallback")
        nm = lambda a, b: a["kind"] == b["kind"]  # noqa: E731
        if len(mem) != len(want) or not nx.is_isomorphic(incidence_graph(mem.values(), nodes), incidence_graph(want, range(N)), node_match=nm):
            fire(mon, fname, trig, "not-the-star-clique-structure", f"edges {short([sorted(m) for m in mem.values()], 300)} are not a star with {ns - 1} legs + one link + all cliques up to order {dmax} on {nc} nodes", desc)
    record(mon, fname, (ns, nc, dmax), None, mem, boundary=True)


def g_sunflower(mon, rng):
    fname = "sunflower"
    c = rng.randint(0, 4)
    if rng.random() < 0.08 and c > 0:
        try:
            call(mon, fname, "m<c", (rng.randint(1, 3), c, c - 1), {}, rejects=(XGIError,))
            mon.ev()
            mon.fail(f"{fname}|m<c|accepted", "an edge size below the core size was accepted", "")
        except Rejected:
            mon.ev()
        return
    m = c + rng.randint(1, 3)  # m == c never terminates: not driven (DESIGN)
    l = rng.randint(1, 5)
    trig = "m>c"
    H, desc = call(mon, fname, trig, (l, c, m), {})
    nodes, mem = observe(H)
    mon.ev()
    edges = list(mem.values())
    if len(edges) != l or any(len(e) != m for e in edges):
        fire(mon, fname, trig, "not-l-petals-of-size-m", f"edges {short([sorted(e) for e in edges], 300)}: expected {l} edges of size {m}", desc)
    if len(nodes) != c + l * (m - c) or set(nodes) != set().union(*edges):
        fire(mon, fname, trig, "node-set-wrong", f"{len(nodes)} nodes, expected core {c} + {l} petals of {m - c}", desc)
    if l >= 2:
        core = frozenset.intersection(*edges)
        if len(core) != c or any((a & b) != core for a, b in combinations(edges, 2)):
            fire(mon, fname, trig, "pairwise-intersections-are-not-the-core", f"edges {short([sorted(e) for e in edges], 300)}", desc)
    record(mon, fname, (l, c, m), None, mem, boundary=True)


def g_trivial(mon, rng):
    n = rng.randint(0, 9)
    H, desc = call(mon, "trivial_hypergraph", "generic", (n,), {})
    nodes, mem = basic(mon, "trivial_hypergraph", "generic", H, desc, range(n))
    if mem or type(H) is not xgi.Hypergraph:
        fire(mon, "trivial_hypergraph", "generic", "not-the-trivial-hypergraph", f"edges {list(mem)}, class {type(H).__name__}", desc)
    for which, cls in (("empty_hypergraph", xgi.Hypergraph), ("empty_dihypergraph", xgi.DiHypergraph), ("empty_simplicial_complex", xgi.SimplicialComplex)):
        H, desc = call(mon, which, "generic", (), {})
        mon.ev()
        if list(H.nodes) or list(H.edges) or type(H) is not cls:
            fire(mon, which, "generic", "not-empty", f"nodes {list(H.nodes)} edges {list(H.edges)} class {type(H).__name__}", desc)
    mon.nontrivial(("trivial", n))


def g_random_simplicial_complex(mon, rng):
    fname = "random_simplicial_complex"
    N = rng.randint(0, 7)
    ps = [prob(rng) for _ in range(rng.randint(1, 3))]
    trig = ptrig(ps)
    for seed in seeds_for(rng):
        S, desc = call(mon, fname, trig, (N, ps), {"seed": with_seed(rng, seed)})
        nodes, mem = basic(mon, fname, trig, S, desc, range(N), sizes=set(range(2, len(ps) + 2)), nodup=True)
        closed(mon, fname, trig, mem, desc)
        fam = set(mem.values())
        for i, p in enumerate(ps):
            if p == 1:
                mon.note("clause:p=1")
                if not {frozenset(c) for c in combinations(range(N), i + 2)} <= fam:
                    fire(mon, fname, "p=1", "not-all-simplices-of-the-order", f"order {i + 1} has probability 1 but a simplex is missing", desc)
            if p == 0 and all(x == 0 for x in ps[i:]):
                mon.note("clause:p=0")
                if any(len(s) >= i + 2 for s in fam):
                    fire(mon, fname, "p=0", "simplices-of-a-probability-0-order", f"orders >= {i + 1} have probability 0 but such simplices exist", desc)
        record(mon, fname, (N, tuple(ps)), seed, mem, boundary=trig != "0<=p<1")


def rand_graph(rng, nmin=0, nmax=7):
    n = rng.randint(nmin, nmax)
    kind, pool = ops.node_pool(rng, k=max(n, 1))
    pool = pool[:n]
    p = rng.choice([0.0, 1.0, 0.3, 0.5, 0.7, 0.85])
    Gx = nx.Graph()
    Gx.add_nodes_from(pool)
    for a, b in combinations(pool, 2):
        if rng.random() < p:
            Gx.add_edge(a, b)
    return Gx


def cliques_brute(nodes, adj, max_size):
    out = []
    for s in range(2, max_size + 1):
        for sub in combinations(nodes, s):
            if all(frozenset((a, b)) in adj for a, b in combinations(sub, 2)):
                out.append(frozenset(sub))
    return out


def flag_check(mon, fname, trig, S, desc, nodes_want, adj, max_order, full):
    """adj: set of frozenset pairs of the graph; full: every clique must be present, else edges <= simplices <= cliques."""
    nodes, mem = basic(mon, fname, trig, S, desc, nodes_want, sizes=set(range(2, max_order + 2)), nodup=True)
    closed(mon, fname, trig, mem, desc)
    cl = cliques_brute(nodes, adj, max_order + 1)
    fam = set(mem.values())
    if full:
        mon.note("clause:flag-exact")
        exactly_once(mon, fname, trig, mem, cl, "simplices-are-not-exactly-the-cliques", desc)
    else:
        if not fam <= set(cl):
            fire(mon, fname, trig, "simplex-is-not-a-clique", f"{short([sorted(s, key=repr) for s in fam - set(cl)], 200)} are not cliques of the graph", desc)
        if not adj <= fam:
            fire(mon, fname, trig, "graph-edge-missing", f"graph edges {short([sorted(s, key=repr) for s in adj - fam], 200)} are not simplices", desc)
    return mem


def g_flag_complex(mon, rng):
    fname = "flag_complex"
    Gx = rand_graph(rng)
    adj = {frozenset(e) for e in Gx.edges()}
    mo = rng.randint(1, 4)
    style = rng.choice(["none", "none", "empty", "ones", "zeros", "mixed"])
    ps = {"none": None, "empty": [], "ones": [1.0] * (mo - 1), "zeros": [0.0] * (mo - 1), "mixed": [prob(rng) for _ in range(mo - 1)]}[style]
    full = not ps or all(p == 1 for p in ps)
    trig = "ps=None" if not ps else "ps:" + ptrig(ps)
    seeds = seeds_for(rng) if ps else [None, 3]
    for seed in seeds:
        S, desc = call(mon, fname, trig, (Gx,), {"max_order": mo, "ps": ps, "seed": with_seed(rng, seed)})
        mem = flag_check(mon, fname, trig, S, desc, list(Gx.nodes()), adj, mo, full)
        if ps and all(p == 0 for p in ps):
            mon.note("clause:p=0")
            if any(len(s) > 2 for s in mem.values()):
                fire(mon, fname, "p=0", "cliques-promoted-with-probability-0", "a clique was promoted although every probability is 0", desc)
        record(mon, fname, (sorted(map(lambda e: sorted(map(repr, e)), adj)), list(map(repr, Gx.nodes())), mo, repr(ps)), seed, mem, boundary=True)


def g_flag_complex_d2(mon, rng):
    fname = "flag_complex_d2"
    Gx = rand_graph(rng)
    adj = {frozenset(e) for e in Gx.edges()}
    p2 = rng.choice([None, None, 1.0, 0.0, 0.5, round(rng.random(), 2)])
    full = p2 is None or p2 == 1
    trig = "p2=None" if p2 is None else "p2:" + ptrig([p2])
    for seed in (seeds_for(rng) if p2 is not None else [None, 3]):
        S, desc = call(mon, fname, trig, (Gx,), {"p2": p2, "seed": with_seed(rng, seed)})
        mem = flag_check(mon, fname, trig, S, desc, list(Gx.nodes()), adj, 2, full)
        if p2 == 0:
            mon.note("clause:p=0")
            if any(len(s) > 2 for s in mem.values()):
                fire(mon, fname, "p=0", "triangles-filled-with-probability-0", "a triangle was filled although p2 = 0", desc)
        record(mon, fname, (sorted(map(lambda e: sorted(map(repr, e)), adj)), list(map(repr, Gx.nodes())), p2), seed, mem, boundary=True)


def g_random_flag(fname):
    def run(mon, rng):
        N = rng.randint(0, 7)
        p = prob(rng)
        mo = 2 if fname.endswith("_d2") else rng.randint(1, 4)
        kw = {} if fname.endswith("_d2") else {"max_order": mo}
        trig = ptrig([p])
        if rng.random() < 0.05:
            try:
                call(mon, fname, "p>1", (N, 1.5), dict(kw, seed=0), rejects=(ValueError,))
                mon.ev()
                mon.fail(f"{fname}|p>1|accepted", "a probability above 1 was accepted", "")
            except Rejected:
                mon.ev()
            return
        for seed in seeds_for(rng):
            S, desc = call(mon, fname, trig, (N, p), dict(kw, seed=with_seed(rng, seed)))
            adj = {frozenset(m) for m in S.edges.members() if len(m) == 2}
            mem = flag_check(mon, fname, trig, S, desc, range(N), adj, mo, True)
            if p == 0:
                mon.note("clause:p=0")
                if mem:
                    fire(mon, fname, "p=0", "edges-with-probability-0", f"{len(mem)} simplices with p = 0", desc)
            if p == 1:
                mon.note("clause:p=1")
                if len(adj) != comb(N, 2):
                    fire(mon, fname, "p=1", "not-the-complete-complex", f"{len(adj)} of {comb(N, 2)} edges with p = 1", desc)
            record(mon, fname, (N, p, mo), seed, mem, boundary=p in (0, 1))
    return run


GRID = [
    ("fast_random_hypergraph", g_random_hypergraphs("fast_random_hypergraph")),
    ("random_hypergraph", g_random_hypergraphs("random_hypergraph")),
    ("uniform_erdos_renyi_hypergraph", g_uniform_erdos_renyi_hypergraph),
    ("uniform_HSBM", g_uniform_HSBM),
    ("uniform_HPPM", g_uniform_HPPM),
    ("uniform_hypergraph_configuration_model", g_uniform_hypergraph_configuration_model),
    ("chung_lu_hypergraph", g_chung_lu_hypergraph),
    ("dcsbm_hypergraph", g_dcsbm_hypergraph),
    ("watts_strogatz_hypergraph", g_watts_strogatz_hypergraph),
    ("ring_lattice", g_ring_lattice),
    ("complete_hypergraph", g_complete_hypergraph),
    ("complement", g_complement),
    ("star_clique", g_star_clique),
    ("sunflower", g_sunflower),
    ("trivial", g_trivial),
    ("random_simplicial_complex", g_random_simplicial_complex),
    ("flag_complex", g_flag_complex),
    ("flag_complex_d2", g_flag_complex_d2),
    ("random_flag_complex", g_random_flag("random_flag_complex")),
    ("random_flag_complex_d2", g_random_flag("random_flag_complex_d2")),
    # the skip-sampling generators get a second slot: they carry the anchored mechanisms
    ("fast_random_hypergraph", g_random_hypergraphs("fast_random_hypergraph")),
    ("uniform_erdos_renyi_hypergraph", g_uniform_erdos_renyi_hypergraph),
    ("uniform_HSBM", g_uniform_HSBM),
]


# ---------------------------------------------------------------------------------
# decode: exhaustive bijection checks
# ---------------------------------------------------------------------------------
COMB_PAIRS = [(n, m) for n in range(1, 10) for m in range(1, n + 1)]
PROD_PAIRS = [(n, m) for n in range(1, 6) for m in range(1, 5)]
PART_SIZES = [s for m in range(1, 4) for s in product(range(1, 5), repeat=m)]
DECODE_CASES = [("comb", x) for x in COMB_PAIRS] + [("prod", x) for x in PROD_PAIRS] + [("partition", x) for x in PART_SIZES]
DECODE_NAMES = {"comb": "_index_to_edge_comb", "prod": "_index_to_edge_prod", "partition": "_index_to_edge_partition"}
DECODE_BOUND = "_index_to_edge_comb: all indices for 1 <= m <= n <= 9; _index_to_edge_prod: n <= 5, m <= 4; _index_to_edge_partition: block sizes 1..4, m <= 3"


def decoder(which):
    return getattr(U, DECODE_NAMES[which], None)


def run_decode(mon, idx):
    which, par = DECODE_CASES[idx % len(DECODE_CASES)]
    f = decoder(which)
    if f is None:
        mon.note(f"unobserved:decode:{which}")
        return
    name = DECODE_NAMES[which]
    if which == "comb":
        n, m = par
        total = comb(n, m)
        args = lambda i: (i, n, m)  # noqa: E731
        valid = lambda t: len(t) == m and all(0 <= a < n for a in t) and all(a < b for a, b in zip(t, t[1:]))  # noqa: E731
        target = "strictly increasing m-tuples of range(n)"
    elif which == "prod":
        n, m = par
        total = n**m
        args = lambda i: (i, n, m)  # noqa: E731
        valid = lambda t: len(t) == m and all(0 <= a < n for a in t)  # noqa: E731
        target = "range(n)^m"
    else:
        sizes = list(par)
        m = len(sizes)
        total = prod(sizes)
        args = lambda i: (i, list(sizes), m)  # noqa: E731
        valid = lambda t: len(t) == m and all(0 <= a < z for a, z in zip(t, sizes))  # noqa: E731
        target = "the block product"
    seen = {}
    mon.ev()
    with warnings.catch_warnings(record=True) as w:
        warnings.simplefilter("always")
        for i in range(total):
            t = tuple(f(*args(i)))
            if not all(isinstance(a, (int, np.integer)) for a in t) or not valid(t):
                mon.fail(f"{name}|valid-index|image-outside-the-target-set", f"{name}{args(i)} = {t} is not in {target}", f"{name}{args(i)}")
                return
            if t in seen:
                mon.fail(f"{name}|valid-index|not-injective", f"{name} maps indices {seen[t]} and {i} of {par} to {t}", f"{name}{args(i)}")
                return
            seen[t] = i
    if w:
        mon.fail(f"{name}|valid-index|warns", f"{name} warned for a valid index of {par}: {short(str(w[0].message), 200)}", repr(par))
        return
    # |image| == total and image within the target set of the same cardinality => bijection
    mon.note(f"decode:{which}")
    mon.note(f"decode-indices:{which}", total)
    mon.nontrivial(("decode", which, par))


# ---------------------------------------------------------------------------------
# inject: scripted geometric
# ---------------------------------------------------------------------------------
class Script:
    def __init__(self, values):
        self.values = list(values)
        self.i = 0

    zero_is_never = False

    def __call__(self, p):
        if self.zero_is_never and p == 0:
            return np.inf
        v = self.values[self.i] if self.i < len(self.values) else BIG
        self.i += 1
        return v


SCRIPT_KINDS = ("all-ones", "beyond", "first-last", "last-only", "random", "random")  # on ranges above 4000 indices all-ones / random become "sparse-random"


def run_script(kind, T, rng):
    """Draws for one skip-sampling run over T admissible indices (0..T-1), ending with the draw that leaves the range."""
    if T <= 0:
        return [rng.randint(1, 3)]
    if T > 4000 and kind in ("all-ones", "random"):
        kind = "sparse-random"
    if kind == "sparse-random":  # at most 25 distinct indices of a huge range, the first and the last one over-represented
        idxs = set(rng.randrange(T) for _ in range(rng.randint(1, 25)))
        if rng.random() < 0.5:
            idxs.add(0)
        if rng.random() < 0.5:
            idxs.add(T - 1)
        idxs = sorted(idxs)
        gaps = [idxs[0] + 1] + [b - a for a, b in zip(idxs, idxs[1:])]
        return gaps + [T - idxs[-1] + rng.randint(0, 3)]
    if kind == "all-ones":
        return [1] * (T + 1)
    if kind == "beyond":
        return [T + 1]
    if kind == "first-last":
        return [1, T - 1, 1] if T >= 2 else [1, 1]
    if kind == "last-only":
        return [T, rng.randint(1, 3)]
    out, idx = [], -1
    hi = max(1, rng.choice([2, T // 2, T // 4 + 1, T]))
    while idx < T:
        g = rng.randint(1, hi)
        out.append(g)
        idx += g
    return out


def simulate(values, pos, T):
    """The skip sampling the generators document: first success after g trials is index g-1, then index += g."""
    out = []
    idx = values[pos] - 1
    pos += 1
    while idx <= T - 1:
        out.append(idx)
        idx += values[pos]
        pos += 1
    return out, pos


def decode_sampled(mon, which, tuples, idxs, par, valid):
    """Beyond the exhaustive bound: the decodes of distinct scripted indices must be valid and pairwise distinct."""
    name = DECODE_NAMES[which]
    mon.ev()
    seen = {}
    for i, t in zip(idxs, tuples):
        t = tuple(t)
        if not valid(t):
            mon.fail(f"{name}|valid-index|image-outside-the-target-set", f"{name} maps index {i} of {par} to {t}", f"{name}({i}, {par})")
            raise Fired()
        if t in seen:
            mon.fail(f"{name}|valid-index|not-injective", f"{name} maps indices {seen[t]} and {i} of {par} to {t}", f"{name}({i}, {par})")
            raise Fired()
        seen[t] = i
    mon.note(f"decode-sampled:{which}")


def injected(mon, fname, module, args, kwargs, script):
    if "geometric" not in module.__dict__:
        mon.note(f"unobserved:inject:{fname}")
        return None
    orig = module.__dict__["geometric"]
    module.geometric = script
    try:
        return call(mon, fname, "injected-draws", args, kwargs)
    finally:
        module.geometric = orig


def inj_compare(mon, fname, kind, H, desc, expected, script, n_nodes):
    nodes, mem = basic(mon, fname, "injected-draws", H, desc, range(n_nodes))
    what = f"script {kind} {short(script.values, 120)}"
    if script.i == 0:
        mon.note(f"unobserved:inject-not-consumed:{fname}")
        return False
    got = Counter(mem.values())
    if got != Counter(expected):
        missing = [sorted(s) for s in (Counter(expected) - got)]
        extra = [sorted(s) for s in (got - Counter(expected))]
        fire(mon, fname, "injected-draws", "edges-are-not-the-decode-of-the-scripted-indices", f"{what}: missing {short(missing, 200)} surplus {short(extra, 200)}", desc + " with " + what)
    if script.i != len(script.values):
        fire(mon, fname, "injected-draws", "number-of-draws-differs", f"{what}: {script.i} draws consumed, the documented skip sampling consumes {len(script.values)}", desc + " with " + what)
    mon.note(f"inject:{fname}")
    mon.note(f"inject-script:{kind}")
    mon.nontrivial((fname, desc, kind, tuple(script.values)))
    return True


def inj_fast_random(mon, rng, kind):
    fname = "fast_random_hypergraph"
    dec = decoder("comb")
    if dec is None:
        mon.note("unobserved:inject:no-decoder:comb")
        return
    large = rng.random() < 0.3
    if large:
        n = rng.randint(50, 400)
        orders = rng.sample(range(1, 4), rng.randint(1, 2))
        ps = [rng.choice([0.5, 1e-5, np.float64(3e-7), 0]) for _ in orders]
        if not any(ps):
            ps[0] = 1e-5
        mon.note("inject-large:" + fname)
    else:
        n = rng.randint(1, 8)
        orders = rng.sample(range(0, 4), rng.randint(1, 2))
        ps = [rng.choice([0.5, 0.5, 0.2, 0.0, 1.0]) for _ in orders]
        if all(p in (0, 1) for p in ps):
            ps[0] = 0.5
    values, expected = [], []
    for d, p in zip(orders, ps):
        T = comb(n, d + 1)
        if p == 1:
            expected += [frozenset(c) for c in combinations(range(n), d + 1)]
        elif p > 0:
            s = run_script(kind, T, rng)
            idxs, pos = simulate(s + [BIG], 0, T)
            values += s[:pos]
            tuples = [dec(i, n, d + 1) for i in idxs]
            if large:
                decode_sampled(mon, "comb", tuples, idxs, (n, d + 1), lambda t, n=n, k=d + 1: len(t) == k and all(0 <= a < n for a in t) and all(a < b for a, b in zip(t, t[1:])))
            expected += [frozenset(t) for t in tuples]
    script = Script(values)
    r = injected(mon, fname, R, (n, ps, orders), {"seed": rng.randrange(100)}, script)
    if r is None:
        return
    H, desc = r
    if inj_compare(mon, fname, kind, H, desc, expected, script, n) and kind == "all-ones" and not large:
        H1, d1 = call(mon, fname, "p=1", (n, [1.0 if 0 < p < 1 else p for p in ps], orders), {"seed": 0})
        mon.ev()
        if Counter(observe(H1)[1].values()) != Counter(observe(H)[1].values()):
            fire(mon, fname, "injected-draws", "all-ones-script-differs-from-p=1", "every index through the skip path differs from the p = 1 result", desc)


def inj_erdos_renyi(mon, rng, kind):
    fname = "uniform_erdos_renyi_hypergraph"
    multi = rng.random() < 0.5
    dec = decoder("prod" if multi else "comb")
    if dec is None:
        mon.note("unobserved:inject:no-decoder:" + ("prod" if multi else "comb"))
        return
    large = rng.random() < 0.3
    if large:
        m = rng.randint(2, 4)
        n = rng.randint(20, 300)
        T = n**m if multi else comb(n, m)
        mon.note("inject-large:" + fname)
    elif multi:
        m = rng.randint(1, 4)
        n = rng.randint(1, 5)
        T = n**m
    else:
        n = rng.randint(1, 9)
        m = rng.randint(1, min(n + 1, 5))
        T = comb(n, m)
    s = run_script(kind, T, rng)
    idxs, pos = simulate(s + [BIG], 0, T)
    script = Script(s[:pos])
    tuples = [dec(i, n, m) for i in idxs]
    if large:
        if multi:
            decode_sampled(mon, "prod", tuples, idxs, (n, m), lambda t: len(t) == m and all(0 <= a < n for a in t))
        else:
            decode_sampled(mon, "comb", tuples, idxs, (n, m), lambda t: len(t) == m and all(0 <= a < n for a in t) and all(a < b for a, b in zip(t, t[1:])))
    expected = [frozenset(t) for t in tuples]
    expected = [e for e in expected if len(e) == m]
    pval = rng.choice([0.5, 2e-6, np.float64(5e-5)]) if large else 0.5
    r = injected(mon, fname, U, (n, m, pval), {"multiedges": multi, "seed": rng.randrange(100)}, script)
    if r is None:
        return
    H, desc = r
    if inj_compare(mon, fname, kind, H, desc, expected, script, n) and kind == "all-ones" and not large:
        H1, d1 = call(mon, fname, "p=1", (n, m, 1.0), {"multiedges": multi, "seed": 0})
        mon.ev()
        if Counter(observe(H1)[1].values()) != Counter(observe(H)[1].values()):
            fire(mon, fname, "injected-draws", "all-ones-script-differs-from-p=1", "every index through the skip path differs from the p = 1 result", desc)


def inj_hsbm(mon, rng, kind):
    fname = "uniform_HSBM"
    dec = decoder("partition")
    if dec is None:
        mon.note("unobserved:inject:no-decoder:partition")
        return
    large = rng.random() < 0.3
    m = rng.randint(1, 3)
    nb = rng.randint(1, 2)
    if large:
        sizes = [rng.randint(20, 150) for _ in range(nb)]
        mon.note("inject-large:" + fname)
    else:
        sizes = [rng.randint(0, 4) if rng.random() < 0.15 else rng.randint(1, 4) for _ in range(nb)]
    n = sum(sizes)
    part = hsbm_partition(sizes)
    p = np.zeros((nb,) * m)
    blocks = list(product(range(nb), repeat=m))
    for blk in blocks:
        p[blk] = rng.choice([0.5, 1e-6, 3e-5, 0.0]) if large else rng.choice([0.5, 0.5, 0.3, 0.0])
    if not p.any():
        p[blocks[0]] = 0.5
    values, expected = [], []
    for blk in blocks:
        if p[blk] > 0:
            psz = [len(part[b]) for b in blk]
            T = prod(psz)
            s = run_script(kind, T, rng)
            idxs, pos = simulate(s + [BIG], 0, T)
            values += s[:pos]
            tuples = [dec(i, psz, m) for i in idxs]
            if large:
                decode_sampled(mon, "partition", tuples, idxs, tuple(psz), lambda t, psz=psz: len(t) == m and all(0 <= a < z for a, z in zip(t, psz)))
            for t in tuples:
                e = frozenset(part[blk[r]][t[r]] for r in range(m))
                if len(e) == m:
                    expected.append(e)
    script = Script(values)
    r = injected(mon, fname, U, (n, m, p, sizes), {"seed": rng.randrange(100)}, script)
    if r is None:
        return
    H, desc = r
    inj_compare(mon, fname, kind, H, desc, expected, script, n)


def inj_bipartite(mon, rng, kind):
    """chung_lu / dcsbm read `geometric` too; under scripted skips only their structural post-conditions are demanded."""
    fname = rng.choice(["chung_lu_hypergraph", "dcsbm_hypergraph"])
    if fname == "chung_lu_hypergraph":
        k1, k2 = bipartite_params(rng)
        args = (dict(k1), dict(k2))
    else:
        k1, k2, g1, g2, omega = dcsbm_params(rng)
        args = (dict(k1), dict(k2), g1, g2, omega)
    script = Script([rng.choice([1, 1, 2, 3, len(k2), len(k2) + 1]) for _ in range(400)])
    script.zero_is_never = True  # geometric(0) is documented as "no success": the script only replaces draws with p > 0
    r = injected(mon, fname, R, args, {"seed": rng.randrange(100)}, script)
    if r is None:
        return
    H, desc = r
    mem = bipartite_check(mon, fname, "injected-draws", H, fmt_call(fname, (k1, k2), {}) + f" with script {short(script.values, 80)}", k1, k2)
    mon.note(f"inject:{fname}")
    mon.nontrivial((fname, desc, tuple(script.values[: script.i])))


INJECT = [inj_fast_random, inj_erdos_renyi, inj_hsbm, inj_fast_random, inj_erdos_renyi, inj_hsbm, inj_bipartite]


# ---------------------------------------------------------------------------------
# protocol
# ---------------------------------------------------------------------------------
def plan(tier):
    if tier == "quick":
        return {"decode": len(DECODE_CASES), "grid": 800 * len(GRID), "inject": 600 * len(INJECT)}
    return {"decode": len(DECODE_CASES), "grid": 70000 * len(GRID), "inject": 60000 * len(INJECT)}


def floors(tier):
    q = tier == "quick"
    f = {}
    per = {"fast_random_hypergraph": 300, "random_hypergraph": 150, "uniform_erdos_renyi_hypergraph": 300, "uniform_HSBM": 300, "uniform_HPPM": 100,
           "uniform_hypergraph_configuration_model": 150, "chung_lu_hypergraph": 150, "dcsbm_hypergraph": 150, "watts_strogatz_hypergraph": 150,
           "ring_lattice": 60, "complete_hypergraph": 30, "complement": 30, "star_clique": 15, "sunflower": 30, "trivial_hypergraph": 30, "empty_hypergraph": 30, "empty_dihypergraph": 30, "empty_simplicial_complex": 30,
           "random_simplicial_complex": 150, "flag_complex": 80, "flag_complex_d2": 80, "random_flag_complex": 150, "random_flag_complex_d2": 150}
    for k, v in per.items():
        f[f"fn:{k}"] = v if q else 20 * v
    for region in ("negative-l", "l>=n", "small-ring"):  # rings that wrap: node-set / member clauses only
        f[f"ring_lattice:wrapping:{region}"] = 25 if q else 500
        f[f"watts_strogatz_hypergraph:wrapping:{region}"] = 15 if q else 300
    f["clause:p=0"] = 300
    f["clause:p=1"] = 300
    f["clause:flag-exact"] = 300
    for which, cases in (("comb", COMB_PAIRS), ("prod", PROD_PAIRS), ("partition", PART_SIZES)):
        if decoder(which) is not None:
            f[f"decode:{which}"] = len(cases)
    for fn in ("fast_random_hypergraph", "uniform_erdos_renyi_hypergraph", "uniform_HSBM", "uniform_HPPM"):
        f[f"sparse-nonempty:{fn}"] = 100  # sparse / large regime: tiny probabilities, n up to 500, at least one edge produced
    if PROBED_GEOMETRIC:  # value classes of the argument of `geometric` that were actually drawn with
        for k in ("p=0", "p=1", "1e-12<=p<1e-4", "1e-4<=p<1e-2", "1e-2<=p<1", "numpy-scalar", "->inf"):
            f[f"geometric:{k}"] = 100
        f["geometric:0<p<1e-12"] = 15  # one draw per call: log(1 - p) == 0
    if "geometric" in U.__dict__ and "geometric" in R.__dict__ and all(decoder(w) is not None for w in DECODE_NAMES):
        for w in DECODE_NAMES:
            f[f"decode-sampled:{w}"] = 50
        for fn in ("fast_random_hypergraph", "uniform_erdos_renyi_hypergraph", "uniform_HSBM"):
            f[f"inject-large:{fn}"] = 100
            f[f"inject:{fn}"] = 80
        for kind in set(SCRIPT_KINDS):
            f[f"inject-script:{kind}"] = 30
    return f


def extra_coverage(mon):
    done = all(mon.counters.get(f"decode:{w}", 0) >= len(c) for w, c in (("comb", COMB_PAIRS), ("prod", PROD_PAIRS), ("partition", PART_SIZES)))
    return {
        "exhaustive": bool(done),
        "exhaustive_bound": "decoding sub-space only (" + DECODE_BOUND + "); generator grids and injected scripts are sampled, not enumerated",
        "decode_indices_enumerated": {w: mon.counters.get(f"decode-indices:{w}", 0) for w in DECODE_NAMES},
        "technique": TECHNIQUE,
    }


def run_case(mon, kind, idx, rng):
    if mon.watchdogs >= 3:  # a generator that does not terminate: the verdict is inconclusive already, do not spend 20 s on every further case
        mon.note("skipped:after-3-watchdogs")
        return
    st, npst = random.getstate(), np.random.get_state()
    try:
        if kind == "decode":
            run_decode(mon, idx)
        elif kind == "grid":
            name, fn = GRID[idx % len(GRID)]
            fn(mon, rng)
            if idx % 211 < len(GRID) and idx // 211 == idx % 211 % 6:
                mon.sample(LAST["desc"])
        else:
            fn = INJECT[idx % len(INJECT)]
            k = SCRIPT_KINDS[(idx // len(INJECT)) % len(SCRIPT_KINDS)]
            fn(mon, rng, k)
    except Fired:
        pass
    finally:
        flush_geo(mon)
        random.setstate(st)
        np.random.set_state(npst)
