"""C17 - a seed fully determines every stochastic result (DESIGN §2 C17).

Two executions of the same seeded callable with the same (freshly rebuilt) arguments and seed, with a
history of RNG consumers before the first execution and an injected schedule of RNG consumers between
the two.  Outputs must be identical: networks by ordered snapshot, layouts per node by np.array_equal,
clusterings by dict equality.

The callables are enumerated by introspection over the xgi namespace and its sub-namespaces (everything
public with a `seed` parameter); argument recipes are looked up by name.  A seeded callable without a
recipe is counted under unprobed:<name> (more than 2 of them make the run inconclusive).
"""
import inspect
import copy
import random
import types
from itertools import product

import networkx as nx
import numpy as np

from .. import ops, snap
from ..env import xgi
from ..monitor import short
from . import c16

PID = "C17"
ANCHORS = (
    "xgi/generators/random.py",
    "xgi/generators/uniform.py",
    "xgi/generators/randomizing.py",
    "xgi/generators/simplicial_complexes.py",
    "xgi/drawing/layout.py",
    "xgi/communities/spectral.py",
    "xgi/utils/utilities.py",
)
RULE = (
    "case = one seeded public callable (round robin over the introspected list) x one parameter tuple (the C16 recipes; rounds cycle through the small, the options and the sparse / large regime; "
    "a second case kind drives spectral_clustering on small symmetric hypergraphs x many seeds; inputs rebuilt from plain data for every call) x one seed (plain int / numpy integer / >= 2**32) x history-before (0-3 steps) x schedule-between (0-4 steps) over the alphabet {draw k from random, draw k from numpy.random, "
    "random.seed(x), numpy.random.seed(y), same callable with another seed / seed=None, same callable with other parameters, another seeded callable}; "
    "rounds 0-7 of every callable use the empty schedule and each single-step schedule. one evaluation = one comparison of the two outputs. "
    "distinct_nontrivial = distinct (callable, parameters, seed, schedule) whose output is non-empty"
)
ASSUMPTIONS = [
    'every result is deep-copied the moment the call returns, before the schedule and the second call run (a callable may hand the same mutable object out twice)',
    "one interpreter process, PYTHONHASHSEED fixed; odd rounds pass the very same argument objects (networks, graphs, dicts, arrays, pos / fixed / center containers) to both "
    "executions and to the interleaved calls of the same callable - only arguments documented as modified in place (uniform_hypergraph_configuration_model's k) are rebuilt; "
    "even rounds rebuild every argument from plain data. A difference seen only with shared objects is keyed <fn>|seed,same-argument-objects|... (two further executions on "
    "rebuilt arguments decide); undocumented in-place changes of an argument are counted under argument-modified:* (no verdict)",
    "seeds: 0, small and large plain ints below 2**32 (80 %), numpy integers (10 %), ints of 2**32 and more (10 %); the last two classes may be refused by random.seed / "
    "numpy.random.seed / networkx (TypeError / ValueError): then both executions must refuse alike (counted as raised-both, not compared further)",
    "options regime (every third round): networkx pass-through keyword arguments of the four spring layouts (pos for all / some nodes as tuples or arrays, fixed, iterations, "
    "k, threshold, scale, center, dim 2/3, weight, method, gravity), center forms of random_layout, boundary probabilities 0 / 1 / 1.0 / numpy scalars, every existing order "
    "for shuffle_hyperedges, order= given / array and tuple ps for the random hypergraphs (a tuple is refused by the argument check: both executions alike), flag complexes with "
    "0 / 1 entries and ps None / [], rings that wrap for watts_strogatz, k >= 3 clusters with max_iter 1-50 on complete / cycle / star / two-clique / sunflower hypergraphs",
    "parameters are admissible; every third round of a callable uses the sparse / large regime (tiny probabilities 1e-18 .. 1e-3 with n up to 500 so that a handful of edges "
    "is expected, degree-type parametrisations, probabilities as numpy scalars / arrays / Python ints, 300-6000 node Chung-Lu / DCSBM sequences, layouts on 40-510 nodes)",
    "the classes of the argument of `geometric` that were drawn with are counted by a pass-through wrapper around the name in the generator modules (harness side)",
    "interleaved calls that raise are ignored as schedule steps (counted under schedule-step-raised)",
    "spring layouts are compared bit for bit: networkx documents its layouts as deterministic for an integer seed",
]
TECHNIQUE = "runtime monitoring: metamorphic two-execution monitor under injected schedules of RNG consumers"
CASE_TIMEOUT = 30

XGIError = xgi.exception.XGIError


# ---------------------------------------------------------------------------------
# enumeration by introspection
# ---------------------------------------------------------------------------------
def enumerate_seeded():
    """{qualified name: callable} for every public callable of the xgi namespaces with a `seed` parameter."""
    found = {}
    visited = set()

    def consider(obj, shown):
        try:
            sig = inspect.signature(obj)
        except (TypeError, ValueError):
            return
        if "seed" in sig.parameters:
            q = f"{getattr(obj, '__module__', '?')}.{getattr(obj, '__qualname__', shown)}"
            found.setdefault(q, obj)

    def walk(mod):
        if id(mod) in visited:
            return
        visited.add(id(mod))
        for name in sorted(dir(mod)):
            if name.startswith("_"):
                continue
            try:
                obj = getattr(mod, name)
            except Exception:
                continue
            if isinstance(obj, types.ModuleType):
                if getattr(obj, "__name__", "").startswith("xgi"):
                    walk(obj)
            elif callable(obj) and str(getattr(obj, "__module__", "")).startswith("xgi"):
                consider(obj, name)
                if inspect.isclass(obj):
                    for mn, m in inspect.getmembers(obj):
                        if not mn.startswith("_") and callable(m):
                            consider(m, f"{name}.{mn}")

    walk(xgi)
    return dict(sorted(found.items()))


SEEDED = enumerate_seeded()
NAMES = list(SEEDED)


def short_name(q):
    """`spectral_clustering` for xgi.communities.spectral.spectral_clustering, `Class.method` for methods."""
    return getattr(SEEDED[q], "__qualname__", q.rsplit(".", 1)[-1])


# ---------------------------------------------------------------------------------
# argument recipes: rng -> (description, build) ; build() -> (args, kwargs) made of fresh objects
# ---------------------------------------------------------------------------------
def interior(rng, lo=0.05, hi=0.95):
    return round(lo + (hi - lo) * rng.random(), 3)


def edge_list(rng, min_nodes=3, max_nodes=8, kind=None):
    _, pool = ops.node_pool(rng, kind=kind, k=rng.randint(min_nodes, max_nodes))
    edges = [ops.rand_members(rng, pool, 2, 4) for _ in range(rng.randint(2, 8))]
    return pool, edges


def net_builder(rng, cls=None, min_nodes=3, connected_cover=False):
    """Plain data for a small network + a function that builds it anew."""
    cls = cls or rng.choice(["Hypergraph", "Hypergraph", "SimplicialComplex"])
    pool, edges = edge_list(rng, min_nodes=min_nodes)
    if connected_cover:  # every node in an edge, consecutive nodes linked: no isolated node, one component
        edges = edges + [[a, b] for a, b in zip(pool, pool[1:])]
    extra = [] if connected_cover else pool

    def build():
        if cls == "SimplicialComplex":
            S = xgi.SimplicialComplex()
            S.add_nodes_from(extra)
            S.add_simplices_from([list(e) for e in edges])
            return S
        H = xgi.Hypergraph()
        H.add_nodes_from(extra)
        for e in edges:
            H.add_edge(list(e))
        return H

    return f"{cls}(nodes={extra!r}, edges={edges!r})", build, pool, edges


def r_random_hypergraphs(rng):
    n = rng.randint(3, 8)
    ps = [rng.choice([interior(rng, 0.1, 0.9), interior(rng, 0.1, 0.9), np.float64(interior(rng, 0.1, 0.9)), 0, 1]) for _ in range(rng.randint(1, 3))]
    if rng.random() < 0.25:
        return f"n={n}, ps=np.array({ps})", lambda: ((n, np.array(ps, dtype=float)), {})
    if rng.random() < 0.2:
        d = rng.randint(1, 3)
        x = float(interior(rng, 0.1, 0.9))
        return f"n={n}, ps={x}, order={d}", lambda: ((n, x, d), {})
    return f"n={n}, ps={ps!r}", lambda: ((n, list(ps)), {})


def r_chung_lu(rng):
    k1, k2 = c16.bipartite_params(rng)
    return f"k1={k1}, k2={k2}", lambda: ((dict(k1), dict(k2)), {})


def r_dcsbm(rng):
    k1, k2, g1, g2, omega = c16.dcsbm_params(rng)
    return f"k1={k1}, k2={k2}, g1={g1}, g2={g2}, omega={omega.tolist()}", lambda: ((dict(k1), dict(k2), dict(g1), dict(g2), omega.copy()), {})


def r_watts_strogatz(rng):
    n, d, k, l = c16.lattice_params(rng)
    k = max(k, 2)
    n = max(n, int(d + l + k / 2) + 1)
    p = interior(rng)
    return f"n={n}, d={d}, k={k}, l={l}, p={p}", lambda: ((n, d, k, l, p), {})


def r_shuffle_hyperedges(rng):
    desc, build, pool, edges = net_builder(rng, cls=rng.choice(["Hypergraph", "Hypergraph", "SimplicialComplex"]))
    order = len(rng.choice(edges)) - 1
    p = rng.choice([1.0, interior(rng), interior(rng)])
    return f"S={desc}, order={order}, p={p}", lambda: ((build(), order, p), {})


def graph_builder(rng):
    Gx = c16.rand_graph(rng, nmin=3, nmax=7)
    nodes, edges = list(Gx.nodes()), list(Gx.edges())

    def build():
        g = nx.Graph()
        g.add_nodes_from(nodes)
        g.add_edges_from(edges)
        return g

    return f"nx.Graph(nodes={nodes!r}, edges={edges!r})", build


def r_flag_complex(rng):
    desc, build = graph_builder(rng)
    mo = rng.randint(2, 4)
    ps = [interior(rng, 0.2, 0.8) for _ in range(mo - 1)]
    return f"G={desc}, max_order={mo}, ps={ps}", lambda: ((build(),), {"max_order": mo, "ps": list(ps)})


def r_flag_complex_d2(rng):
    desc, build = graph_builder(rng)
    p2 = interior(rng, 0.2, 0.8)
    return f"G={desc}, p2={p2}", lambda: ((build(),), {"p2": p2})


def r_random_flag_complex(rng):
    N, p, mo = rng.randint(3, 8), interior(rng, 0.2, 0.9), rng.randint(1, 3)
    return f"N={N}, p={p}, max_order={mo}", lambda: ((N, p), {"max_order": mo})


def r_random_flag_complex_d2(rng):
    N, p = rng.randint(3, 8), interior(rng, 0.2, 0.9)
    return f"N={N}, p={p}", lambda: ((N, p), {})


def r_random_simplicial_complex(rng):
    N = rng.randint(3, 8)
    ps = [interior(rng, 0.05, 0.6) for _ in range(rng.randint(1, 3))]
    return f"N={N}, ps={ps}", lambda: ((N, list(ps)), {})


def r_uniform_HPPM(rng):
    m = rng.randint(2, 3)
    n = rng.randint(4, 10 if m == 2 else 7)
    k = rng.choice([1, 2, 1.5, 0.7])
    eps = rng.choice([0.0, 0.5, 0.9, round(rng.random(), 2)])
    rho = rng.choice([0.5, 0.3, 0.4])
    return f"n={n}, m={m}, k={k}, epsilon={eps}, rho={rho}", lambda: ((n, m, k, eps), {"rho": rho})


def r_uniform_HSBM(rng):
    m = rng.randint(1, 3)
    nb = rng.randint(1, 2)
    sizes = [rng.randint(1, 4) for _ in range(nb)]
    p = np.zeros((nb,) * m)
    for blk in product(range(nb), repeat=m):
        p[blk] = rng.choice([0.0, 1.0, interior(rng), interior(rng), interior(rng)])
    return f"n={sum(sizes)}, m={m}, p={p.tolist()}, sizes={sizes}", lambda: ((sum(sizes), m, p.copy(), list(sizes)), {})


def r_uniform_erdos_renyi(rng):
    multi = rng.random() < 0.4
    m = rng.randint(1, 3)
    n = rng.randint(max(m, 2), 6 if multi else 8)
    if rng.random() < 0.15:  # probability 1 (int or float): complete, or every index through geometric(1) with multiedges
        n, p = min(n, 4), rng.choice([1, 1.0, np.float64(1.0)])
        return f"n={n}, m={m}, p={p!r}, multiedges={multi}", lambda: ((n, m, p), {"multiedges": multi})
    if rng.random() < 0.3:
        p, p_type = rng.choice([0.5, 1, 1.5]), "degree"
        if c16.er_q(n, m, p, p_type, multi) >= 1:
            p, p_type = interior(rng), "prob"
    else:
        p, p_type = interior(rng), "prob"
    return f"n={n}, m={m}, p={p}, p_type={p_type!r}, multiedges={multi}", lambda: ((n, m, p), {"p_type": p_type, "multiedges": multi})


def r_configuration_model(rng):
    k = c16.labelled_degrees(rng, lo=0, hi=4)
    m = rng.randint(1, min(4, len(k)))
    return f"k={k}, m={m}", lambda: ((dict(k), m), {})


def r_random_layout(rng):
    desc, build, pool, edges = net_builder(rng)
    center = rng.choice([None, None, (1.0, -2.0)])
    return f"H={desc}, center={center}", lambda: ((build(),), {"center": center})


def r_spring(with_phantom):
    def r(rng):
        desc, build, pool, edges = net_builder(rng)
        kw = {}
        if rng.random() < 0.4:
            kw["k"] = rng.choice([0.3, 1.0, 2.5])
        if rng.random() < 0.3:
            kw["iterations"] = rng.choice([1, 5, 20])
        if with_phantom and rng.random() < 0.4:
            kw["return_phantom_graph"] = True
        return f"H={desc}, {kw}", lambda: ((build(),), dict(kw))
    return r


def r_bipartite_spring(rng):
    desc, build, pool, edges = net_builder(rng, cls="Hypergraph")
    kw = {"k": rng.choice([0.3, 1.0])} if rng.random() < 0.3 else {}
    return f"H={desc}, {kw}", lambda: ((build(),), dict(kw))


def r_spectral_clustering(rng):
    desc, build, pool, edges = net_builder(rng, cls="Hypergraph", min_nodes=4, connected_cover=True)
    k = rng.randint(2, min(3, len(pool) - 1))
    # k-means runs all max_iter rounds (its convergence test compares with the initial assignment): keep max_iter small, the default rarely
    kw = {"max_iter": rng.choice([5, 10, 30, 100])} if rng.random() < 0.95 else {}
    return f"H={desc}, k={k}, {kw}", lambda: ((build(), k), dict(kw))


RECIPES = {
    "fast_random_hypergraph": r_random_hypergraphs,
    "random_hypergraph": r_random_hypergraphs,
    "chung_lu_hypergraph": r_chung_lu,
    "dcsbm_hypergraph": r_dcsbm,
    "watts_strogatz_hypergraph": r_watts_strogatz,
    "shuffle_hyperedges": r_shuffle_hyperedges,
    "flag_complex": r_flag_complex,
    "flag_complex_d2": r_flag_complex_d2,
    "random_flag_complex": r_random_flag_complex,
    "random_flag_complex_d2": r_random_flag_complex_d2,
    "random_simplicial_complex": r_random_simplicial_complex,
    "uniform_HPPM": r_uniform_HPPM,
    "uniform_HSBM": r_uniform_HSBM,
    "uniform_erdos_renyi_hypergraph": r_uniform_erdos_renyi,
    "uniform_hypergraph_configuration_model": r_configuration_model,
    "random_layout": r_random_layout,
    "pairwise_spring_layout": r_spring(False),
    "barycenter_spring_layout": r_spring(True),
    "weighted_barycenter_spring_layout": r_spring(True),
    "bipartite_spring_layout": r_bipartite_spring,
    "spectral_clustering": r_spectral_clustering,
}


# ---------------------------------------------------------------------------------
# sparse / large regime: tiny probabilities (1e-7 .. 1e-3) with n chosen so that a handful of edges is expected, probabilities as
# numpy scalars / arrays / Python ints, degree-type parametrisations with large n, layouts on enough nodes for networkx's sparse solver
# ---------------------------------------------------------------------------------
def big_net_builder(rng, n=None, cls="Hypergraph", cover=False):
    n = n or rng.randint(30, 80)
    pool = list(range(n))
    edges = [rng.sample(pool, rng.randint(2, 4)) for _ in range(rng.randint(n // 3, n))]
    if cover:
        edges += [[a, a + 1] for a in range(n - 1)]

    def build():
        if cls == "SimplicialComplex":
            S = xgi.SimplicialComplex()
            S.add_nodes_from(pool)
            S.add_simplices_from([list(e) for e in edges])
            return S
        H = xgi.Hypergraph()
        H.add_nodes_from(pool)
        for e in edges:
            H.add_edge(list(e))
        return H

    return f"{cls}(nodes=range({n}), edges={short(edges, 400)})", build, pool, edges


def s_fast_random(rng):
    n, ps, order, orders = c16.sparse_rh(rng)
    cp = (lambda x: x.copy()) if isinstance(ps, np.ndarray) else list
    return f"n={n}, ps={ps!r}, order={order!r}", lambda: ((n, cp(ps), order if order is None else cp(order)), {})


def s_random_hypergraph(rng):  # enumerates all combinations: stays small; probabilities as numpy scalars / arrays / ints
    n = rng.randint(4, 12)
    ps = [rng.choice([np.float64(interior(rng, 0.001, 0.2)), 0, 1, interior(rng, 0.0005, 0.05)]) for _ in range(rng.randint(1, 2))]
    if rng.random() < 0.4:
        return f"n={n}, ps=np.array({ps})", lambda: ((n, np.array(ps, dtype=float)), {})
    return f"n={n}, ps={ps!r}", lambda: ((n, list(ps)), {})


def s_chung_lu(rng):
    k1, k2 = c16.large_bipartite(rng, sizes=(300, 600, 1500, 6000))
    return f"k1: {len(k1)} nodes with degrees 1-3 (sum {sum(k1.values())}), k2: {len(k2)} edges with sizes 1-3 [large_bipartite]", lambda: ((dict(k1), dict(k2)), {})


def s_dcsbm(rng):
    k1, k2, g1, g2, omega = c16.large_bipartite(rng, groups=True, sizes=(300, 600, 1500, 6000))
    return f"{len(k1)} nodes, {len(k2)} edges, 2 x 2 groups, omega={omega.tolist()} [large_bipartite]", lambda: ((dict(k1), dict(k2), dict(g1), dict(g2), omega.copy()), {})


def s_watts_strogatz(rng):
    d, k, l = rng.randint(2, 3), rng.choice([2, 4]), rng.randint(0, 1)
    n = rng.randint(30, 200)
    p = rng.choice([1e-3, 0.02, np.float64(0.1), 0.3])
    return f"n={n}, d={d}, k={k}, l={l}, p={p!r}", lambda: ((n, d, k, l, p), {})


def s_shuffle_hyperedges(rng):
    desc, build, pool, edges = big_net_builder(rng)
    order = len(rng.choice(edges)) - 1
    p = rng.choice([1, 1.0, np.float64(0.5), 0.05])
    return f"S={desc}, order={order}, p={p!r}", lambda: ((build(), order, p), {})


def big_graph_builder(rng):
    n = rng.randint(20, 60)
    pe = rng.uniform(2, 5) / n
    edges = [(a, b) for a in range(n) for b in range(a + 1, n) if rng.random() < pe]

    def build():
        g = nx.Graph()
        g.add_nodes_from(range(n))
        g.add_edges_from(edges)
        return g

    return f"nx.Graph(range({n}), {short(edges, 300)})", build


def s_flag_complex(rng):
    desc, build = big_graph_builder(rng)
    mo = rng.randint(2, 3)
    ps = [rng.choice([np.float64(0.5), 0.3, 1, 0.05]) for _ in range(mo - 1)]
    return f"G={desc}, max_order={mo}, ps={ps!r}", lambda: ((build(),), {"max_order": mo, "ps": list(ps)})


def s_flag_complex_d2(rng):
    desc, build = big_graph_builder(rng)
    p2 = rng.choice([np.float64(0.5), 0.3, 0.05])
    return f"G={desc}, p2={p2!r}", lambda: ((build(),), {"p2": p2})


def s_random_flag_complex(rng):
    N = rng.randint(30, 200)
    p = c16.np_typed(rng, rng.uniform(5, 60) / (N * (N - 1) / 2))
    mo = rng.randint(1, 3)
    return f"N={N}, p={p!r}, max_order={mo}", lambda: ((N, p), {"max_order": mo})


def s_random_flag_complex_d2(rng):
    N = rng.randint(30, 200)
    p = c16.np_typed(rng, rng.uniform(5, 60) / (N * (N - 1) / 2))
    return f"N={N}, p={p!r}", lambda: ((N, p), {})


def s_random_simplicial_complex(rng):
    N = rng.randint(20, 60)
    ps = [rng.uniform(2, 15) / c16.comb(N, d + 1) for d in range(1, rng.randint(1, 2) + 1)]
    if rng.random() < 0.4:
        return f"N={N}, ps=np.array({ps})", lambda: ((N, np.array(ps)), {})
    return f"N={N}, ps={ps}", lambda: ((N, list(ps)), {})


def s_uniform_HPPM(rng):
    n, m, k, eps, rho = c16.sparse_hppm(rng)
    return f"n={n}, m={m}, k={k!r}, epsilon={eps}, rho={rho}", lambda: ((n, m, k, eps), {"rho": rho})


def s_uniform_HSBM(rng):
    n, m, p, sizes = c16.sparse_hsbm(rng)
    return f"n={n}, m={m}, p={p.tolist()}, sizes={sizes}", lambda: ((n, m, p.copy(), list(sizes)), {})


def s_uniform_erdos_renyi(rng):
    n, m, p, p_type, multi = c16.sparse_er(rng)
    return f"n={n}, m={m}, p={p!r}, p_type={p_type!r}, multiedges={multi}", lambda: ((n, m, p), {"p_type": p_type, "multiedges": multi})


def s_configuration_model(rng):
    n = rng.randint(40, 150)
    k = {i: rng.randint(0, 3) for i in range(n)}
    m = rng.randint(2, 4)
    return f"k={short(k, 300)}, m={m}", lambda: ((dict(k), m), {})


def s_random_layout(rng):
    desc, build, pool, edges = big_net_builder(rng, cls=rng.choice(["Hypergraph", "SimplicialComplex"]))
    return f"H={desc}", lambda: ((build(),), {})


def s_spring(with_phantom, bipartite=False):
    def r(rng):
        # networkx switches to its sparse force-directed solver at 500 graph nodes (phantom / edge nodes count)
        n = rng.choice([40, 60, 80, 510 if not (with_phantom or bipartite) else 300])
        desc, build, pool, edges = big_net_builder(rng, n=n, cls="Hypergraph" if bipartite else rng.choice(["Hypergraph", "SimplicialComplex"]))
        kw = {"iterations": rng.choice([1, 2, 3])}
        if rng.random() < 0.3:
            kw["k"] = rng.choice([0.3, np.float64(1.0)])
        if with_phantom and rng.random() < 0.3:
            kw["return_phantom_graph"] = True
        return f"H={desc}, {kw}", lambda: ((build(),), dict(kw))
    return r


def s_spectral_clustering(rng):
    desc, build, pool, edges = big_net_builder(rng, n=rng.randint(15, 60), cover=True)
    k = rng.randint(2, 5)
    kw = {"max_iter": rng.choice([3, 5, 10, 20])}
    return f"H={desc}, k={k}, {kw}", lambda: ((build(), k), dict(kw))


SPARSE = {
    "fast_random_hypergraph": s_fast_random,
    "random_hypergraph": s_random_hypergraph,
    "chung_lu_hypergraph": s_chung_lu,
    "dcsbm_hypergraph": s_dcsbm,
    "watts_strogatz_hypergraph": s_watts_strogatz,
    "shuffle_hyperedges": s_shuffle_hyperedges,
    "flag_complex": s_flag_complex,
    "flag_complex_d2": s_flag_complex_d2,
    "random_flag_complex": s_random_flag_complex,
    "random_flag_complex_d2": s_random_flag_complex_d2,
    "random_simplicial_complex": s_random_simplicial_complex,
    "uniform_HPPM": s_uniform_HPPM,
    "uniform_HSBM": s_uniform_HSBM,
    "uniform_erdos_renyi_hypergraph": s_uniform_erdos_renyi,
    "uniform_hypergraph_configuration_model": s_configuration_model,
    "random_layout": s_random_layout,
    "pairwise_spring_layout": s_spring(False),
    "barycenter_spring_layout": s_spring(True),
    "weighted_barycenter_spring_layout": s_spring(True),
    "bipartite_spring_layout": s_spring(False, bipartite=True),
    "spectral_clustering": s_spectral_clustering,
}
# ---------------------------------------------------------------------------------
# options regime: rarely used arguments - the networkx pass-through keyword arguments of the seeded layouts (pos for all / some
# nodes, fixed, iterations, k, threshold, scale, center, dim, weight, method), boundary probabilities as ints / floats / numpy
# scalars, every existing order, order= given, tuple / array probabilities, many clusters on small symmetric hypergraphs
# ---------------------------------------------------------------------------------
SPRING_PARAMS = set(inspect.signature(nx.spring_layout).parameters)


def layout_kwargs(rng, keys, allow_weight=True):
    """(description, build) of pass-through keyword arguments; `keys` = the graph nodes that may carry initial positions."""
    kw = {}
    dim = 3 if rng.random() < 0.15 else 2
    if dim == 3 or rng.random() < 0.2:
        kw["dim"] = dim
    pos = None
    if rng.random() < 0.75 and keys:
        sub = list(keys) if rng.random() < 0.5 else rng.sample(list(keys), rng.randint(1, len(keys)))
        pos = {v: [round(rng.uniform(-1, 1), 3) for _ in range(dim)] for v in sub}
        if rng.random() < 0.5:
            kw["fixed"] = rng.sample(list(pos), rng.randint(1, len(pos)))
    if rng.random() < 0.6:
        kw["iterations"] = rng.choice([0, 1, 2, 5, 20])
    if rng.random() < 0.3:
        kw["k"] = rng.choice([0.1, 0.5, 2, np.float64(1.5)])
    if rng.random() < 0.3:
        kw["threshold"] = rng.choice([1e-4, 1e-2, 0.3])
    if "fixed" not in kw:
        if rng.random() < 0.3:
            kw["scale"] = rng.choice([1, 2.5, 0.1])
        if rng.random() < 0.3:
            kw["center"] = [round(rng.uniform(-2, 2), 2) for _ in range(dim)]
    if allow_weight and rng.random() < 0.3:
        kw["weight"] = rng.choice([None, "weight", "w"])
    if "method" in SPRING_PARAMS and rng.random() < 0.25:
        kw["method"] = rng.choice(["force", "energy", "auto"])
        if kw["method"] == "energy" and "gravity" in SPRING_PARAMS and rng.random() < 0.5:
            kw["gravity"] = rng.choice([0.5, 2.0])
    as_array = rng.random() < 0.5

    def build():
        out = dict(kw)
        if "fixed" in out:
            out["fixed"] = list(out["fixed"])
        if "center" in out:
            out["center"] = list(out["center"])
        if pos is not None:
            out["pos"] = {v: (np.array(x, dtype=float) if as_array else tuple(x)) for v, x in pos.items()}
        return out

    return f"{kw}" + (f", pos={pos}" if pos is not None else ""), build


def o_spring(which):
    def r(rng):
        cls = "Hypergraph" if which == "bipartite" else rng.choice(["Hypergraph", "Hypergraph", "SimplicialComplex"])
        desc, build, pool, edges = net_builder(rng, cls=cls)
        if which == "bipartite":
            keys = list(range(len(pool) + len(edges)))  # to_bipartite_graph(index=True): nodes first, then edges
        else:
            keys = list(pool)
        kd, kbuild = layout_kwargs(rng, keys, allow_weight=which != "weighted")
        extra = {"return_phantom_graph": True} if which in ("barycenter", "weighted") and rng.random() < 0.3 else {}
        return f"H={desc}, {extra} {kd}", lambda: ((build(),), dict(kbuild(), **extra))
    return r


def o_random_layout(rng):
    desc, build, pool, edges = net_builder(rng)
    c = [round(rng.uniform(-3, 3), 2), round(rng.uniform(-3, 3), 2)]
    form = rng.choice(["list", "tuple", "array", "none"])
    mk = {"list": list, "tuple": tuple, "array": np.array, "none": lambda x: None}[form]
    return f"H={desc}, center={form}:{c}", lambda: ((build(),), {"center": mk(c)})


def symmetric_edges(rng):
    n = rng.randint(4, 8)
    kind = rng.choice(["complete-graph", "complete-3-uniform", "cycle", "star", "two-cliques", "sunflower", "one-edge"])
    nodes = list(range(n))
    if kind == "complete-graph":
        e = [[a, b] for a in nodes for b in nodes if a < b]
    elif kind == "complete-3-uniform":
        e = [[a, b, c] for a in nodes for b in nodes for c in nodes if a < b < c]
    elif kind == "cycle":
        e = [[a, (a + 1) % n] for a in nodes]
    elif kind == "star":
        e = [[0, a] for a in nodes[1:]]
    elif kind == "two-cliques":
        h = n // 2
        e = [[a, b] for a in nodes[:h] for b in nodes[:h] if a < b] + [[a, b] for a in nodes[h:] for b in nodes[h:] if a < b] + [[0, n - 1]]
    elif kind == "sunflower":
        e = [[0, a, a + 1] for a in range(1, n - 1, 2)] + [[0, n - 1]]
    else:
        e = [list(nodes)]
    return kind, n, e


def o_spectral_clustering(rng):
    kind, n, edges = symmetric_edges(rng)
    k = rng.randint(3, n - 1) if n > 4 else 3
    kw = {"max_iter": rng.choice([1, 2, 3, 5, 50])}

    def build():
        H = xgi.Hypergraph()
        for e in edges:
            H.add_edge(list(e))
        return H

    return f"H={kind} on {n} nodes {edges}, k={k}, {kw}", lambda: ((build(), k), dict(kw))


def o_shuffle_hyperedges(rng):
    desc, build, pool, edges = net_builder(rng, cls=rng.choice(["Hypergraph", "SimplicialComplex"]))
    order = rng.choice(sorted({len(set(e)) - 1 for e in edges}))  # every existing order gets its turn
    p = rng.choice([0, 1, 1.0, 0.0, np.float64(1.0)])
    return f"S={desc}, order={order}, p={p!r}", lambda: ((build(), order, p), {})


def o_flag_complex(rng):
    desc, build = graph_builder(rng)
    mo = rng.randint(2, 4)
    ps = [rng.choice([0, 1, 1.0, 0.0, 0.5, np.float64(1.0)]) for _ in range(rng.choice([mo - 1, mo - 1, mo, 1]))]
    ps = rng.choice([ps, ps, ps, None, []])
    return f"G={desc}, max_order={mo}, ps={ps!r}", lambda: ((build(),), {"max_order": mo, "ps": None if ps is None else list(ps)})


def o_flag_complex_d2(rng):
    desc, build = graph_builder(rng)
    p2 = rng.choice([0, 1, 1.0, 0.0, None, np.float64(0.5)])
    return f"G={desc}, p2={p2!r}", lambda: ((build(),), {"p2": p2})


def o_random_hypergraphs(rng):
    n = rng.randint(3, 8)
    form = rng.choice(["order-list", "order-array", "order-int", "ps-array", "ps-tuple", "order-list"])
    if form == "order-int":
        d, x = rng.randint(1, 3), rng.choice([interior(rng), 1.0, 0.0, np.float64(0.5)])
        return f"n={n}, ps={x!r}, order={d}", lambda: ((n, x), {"order": d})
    orders = rng.sample(range(0, 4), rng.randint(1, 3))
    ps = [rng.choice([interior(rng), interior(rng), 0, 1, np.float64(0.3)]) for _ in orders]
    if form == "order-array":
        return f"n={n}, ps=np.array({ps}), order=np.array({orders})", lambda: ((n, np.array(ps, dtype=float)), {"order": np.array(orders)})
    if form == "ps-array":
        return f"n={n}, ps=np.array({ps})", lambda: ((n, np.array(ps, dtype=float)), {})
    if form == "ps-tuple":  # not a list: refused by the argument check, both times alike
        return f"n={n}, ps={tuple(ps)!r}", lambda: ((n, tuple(ps)), {})
    return f"n={n}, ps={ps!r}, order={orders}", lambda: ((n, list(ps)), {"order": list(orders)})


def o_random_simplicial_complex(rng):
    N = rng.randint(3, 8)
    ps = [rng.choice([0, 1, 1.0, interior(rng, 0.05, 0.6), np.float64(0.2)]) for _ in range(rng.randint(1, 3))]
    mk = rng.choice([list, tuple, lambda x: np.array(x, dtype=float)])
    return f"N={N}, ps={ps!r} ({mk.__name__ if hasattr(mk, '__name__') else 'array'})", lambda: ((N, mk(ps)), {})


def o_random_flag(d2):
    def r(rng):
        N = rng.randint(0, 8)
        p = rng.choice([0, 1, 1.0, 0.0, interior(rng), np.float64(0.5)])
        kw = {} if d2 else {"max_order": rng.randint(1, 4)}
        return f"N={N}, p={p!r}, {kw}", lambda: ((N, p), dict(kw))
    return r


def o_watts_strogatz(rng):
    n, d, k, l, region = c16.lattice_wrap_params(rng)
    n = max(n, 1)
    p = rng.choice([0, 1, 1.0, interior(rng), np.float64(0.5)])
    return f"n={n}, d={d}, k={k}, l={l} ({region}), p={p!r}", lambda: ((n, d, k, l, p), {})


def o_uniform_erdos_renyi(rng):
    multi = rng.random() < 0.5
    m = rng.randint(1, 3)
    n = rng.randint(1, 5 if multi else 7)
    p_type = rng.choice(["prob", "degree"])
    if p_type == "prob":
        p = rng.choice([0, 1, 1.0, np.float64(0.5), interior(rng)])
    else:
        m = min(m, n)
        unit = (m * n ** (m - 1)) if multi else (m * c16.comb(n, m) / n)
        p = rng.choice([0, unit, unit / 2, np.float64(unit / 3)])
        if abs(c16.er_q(n, m, p, p_type, multi) - 1) < 1e-9 and c16.er_q(n, m, p, p_type, multi) != 1:
            p = 0
    return f"n={n}, m={m}, p={p!r}, p_type={p_type!r}, multiedges={multi}", lambda: ((n, m, p), {"p_type": p_type, "multiedges": multi})


def o_uniform_HSBM(rng):
    m = rng.randint(1, 3)
    nb = rng.randint(1, 3 if m < 3 else 2)
    sizes = [rng.choice([0, 1, 2, 3, 4]) for _ in range(nb)]
    p = np.zeros((nb,) * m)
    for blk in product(range(nb), repeat=m):
        p[blk] = rng.choice([0.0, 1.0, 1.0, interior(rng)])
    as_array = rng.random() < 0.5
    return f"n={sum(sizes)}, m={m}, p={p.tolist()}, sizes={sizes} (array={as_array})", lambda: ((sum(sizes), m, p.copy(), np.array(sizes) if as_array else list(sizes)), {})


def o_uniform_HPPM(rng):
    m = rng.randint(2, 3)
    n = rng.randint(2, 8)
    k = rng.choice([0, 1, 0.5, np.float64(1.0)])
    eps = rng.choice([0, 1, 0.0, 1.0, 0.5])
    rho = rng.choice([0, 1, 0.5, 0.25, 1.0])
    return f"n={n}, m={m}, k={k!r}, epsilon={eps!r}, rho={rho!r}", lambda: ((n, m, k, eps), {"rho": rho})


def o_configuration_model(rng):
    k = c16.labelled_degrees(rng, lo=0, hi=3)
    style = rng.choice(["m=1", "m=len", "zeros", "plain"])
    m = {"m=1": 1, "m=len": min(len(k), 5)}.get(style, rng.randint(1, min(4, len(k))))
    if style == "zeros":
        k = {v: 0 for v in k}
    return f"k={k}, m={m}", lambda: ((dict(k), m), {})


OPTIONS = {
    "pairwise_spring_layout": o_spring("pairwise"),
    "barycenter_spring_layout": o_spring("barycenter"),
    "weighted_barycenter_spring_layout": o_spring("weighted"),
    "bipartite_spring_layout": o_spring("bipartite"),
    "random_layout": o_random_layout,
    "spectral_clustering": o_spectral_clustering,
    "shuffle_hyperedges": o_shuffle_hyperedges,
    "flag_complex": o_flag_complex,
    "flag_complex_d2": o_flag_complex_d2,
    "fast_random_hypergraph": o_random_hypergraphs,
    "random_hypergraph": o_random_hypergraphs,
    "random_simplicial_complex": o_random_simplicial_complex,
    "random_flag_complex": o_random_flag(False),
    "random_flag_complex_d2": o_random_flag(True),
    "watts_strogatz_hypergraph": o_watts_strogatz,
    "uniform_erdos_renyi_hypergraph": o_uniform_erdos_renyi,
    "uniform_HSBM": o_uniform_HSBM,
    "uniform_HPPM": o_uniform_HPPM,
    "uniform_hypergraph_configuration_model": o_configuration_model,
}
LAYOUTS_WITH_PASSTHROUGH = ("pairwise_spring_layout", "barycenter_spring_layout", "weighted_barycenter_spring_layout", "bipartite_spring_layout")

# callables whose sparse regime goes through the skip sampling (`geometric`): at least one edge must come out of most such cases
SKIP_SAMPLERS = ("fast_random_hypergraph", "uniform_erdos_renyi_hypergraph", "uniform_HSBM", "uniform_HPPM", "chung_lu_hypergraph", "dcsbm_hypergraph")


def recipe_for(q, regime="small"):
    n = short_name(q)
    if regime == "sparse" and n in SPARSE:
        return SPARSE[n]
    if regime == "options" and n in OPTIONS:
        return OPTIONS[n]
    return RECIPES.get(n)


def pick_seed(rng):
    """(seed, class).  plain: 0, small, anything below 2**32; numpy integers; ints of 2**32 and more."""
    r = rng.random()
    if r < 0.2:
        return 0, "plain"
    if r < 0.86:
        return rng.choice([1, rng.randrange(100), rng.randrange(2**32), rng.randrange(2**32), 2**32 - 1]), "plain"
    if r < 0.93:
        return rng.choice([np.int64(rng.randrange(2**31)), np.uint32(rng.randrange(2**32)), np.int32(rng.randrange(1000)), np.int64(0)]), "numpy-integer"
    return rng.choice([2**32, 2**63 + rng.randrange(1000), 2**64 + rng.randrange(2**40)]), "above-2**32"


PROBED = [q for q in NAMES if recipe_for(q)]
UNPROBED = [q for q in NAMES if not recipe_for(q)]


# ---------------------------------------------------------------------------------
# exact comparison of outputs
# ---------------------------------------------------------------------------------
def is_net(x):
    return isinstance(x, (xgi.Hypergraph, xgi.DiHypergraph))


def differ(a, b, path="result"):
    """None when a and b are identical, else a description of the first difference."""
    if type(a) is not type(b):
        return f"{path}: type {type(a).__name__} vs {type(b).__name__}"
    if is_net(a):
        sa, sb = snap.snap(a), snap.snap(b)
        if sa == sb:
            return None
        for name, x, y in zip(("class", "nodes (order, attributes)", "edges (order, IDs, members, attributes)", "memberships", "network attributes"), sa, sb):
            if x != y:
                return f"{path}: {name} differ: {short(x, 200)} vs {short(y, 200)}"
    if isinstance(a, nx.Graph):
        if list(a.nodes(data=True)) != list(b.nodes(data=True)) or list(a.edges(data=True)) != list(b.edges(data=True)):
            return f"{path}: graphs differ"
        return None
    if isinstance(a, dict):
        if list(a.keys()) != list(b.keys()):
            return f"{path}: keys / key order differ: {short(list(a), 150)} vs {short(list(b), 150)}"
        for k in a:
            d = differ(a[k], b[k], f"{path}[{k!r}]")
            if d:
                return d
        return None
    if isinstance(a, (tuple, list)):
        if len(a) != len(b):
            return f"{path}: length {len(a)} vs {len(b)}"
        for i, (x, y) in enumerate(zip(a, b)):
            d = differ(x, y, f"{path}[{i}]")
            if d:
                return d
        return None
    if isinstance(a, np.ndarray):
        if a.dtype != b.dtype or not np.array_equal(a, b):
            return f"{path}: {a!r} vs {b!r}"
        return None
    if a != b:
        return f"{path}: {a!r} vs {b!r}"
    return None


def nonempty(x):
    if is_net(x):
        return x.num_edges > 0
    if isinstance(x, tuple):
        return any(nonempty(y) for y in x)
    return bool(len(x)) if hasattr(x, "__len__") else True


# ---------------------------------------------------------------------------------
# schedules of RNG consumers
# ---------------------------------------------------------------------------------
ALPHABET = ("random", "numpy", "random.seed", "numpy.random.seed", "same-fn-other-seed", "same-fn-other-params", "other-fn")


def make_step(rng, kind, q, build):
    if kind in ("random", "numpy"):
        return (kind, rng.randint(1, 40))
    if kind in ("random.seed", "numpy.random.seed"):
        return (kind, rng.randrange(2**32))
    seed = rng.choice([None, rng.randrange(2**32), rng.randrange(50)])
    if kind == "same-fn-other-seed":
        return (kind, q, build, seed, "same parameters")
    if kind == "same-fn-other-params":
        heavy = short_name(q) in ("chung_lu_hypergraph", "dcsbm_hypergraph")
        d, b = recipe_for(q, "sparse" if rng.random() < 0.2 and not heavy else "small")(rng)
        return (kind, q, b, seed, d)
    other = rng.choice([x for x in PROBED if x != q] or PROBED)
    d, b = recipe_for(other)(rng)
    return (kind, other, b, seed, d)


def make_schedule(rng, q, build, kinds=None, maxlen=4):
    if kinds is None:
        kinds = [rng.choice(ALPHABET) for _ in range(rng.choice([0, 1, 1, 2, 2, 3, 4][: maxlen + 3]))]
    return [make_step(rng, k, q, build) for k in kinds]


def run_schedule(mon, steps):
    for st in steps:
        kind = st[0]
        if kind == "random":
            for _ in range(st[1]):
                random.random()
        elif kind == "numpy":
            np.random.random(st[1])
        elif kind == "random.seed":
            random.seed(st[1])
        elif kind == "numpy.random.seed":
            np.random.seed(st[1])
        else:
            _, q, b, seed, _d = st
            args, kw = b()
            try:
                SEEDED[q](*args, **kw, seed=seed)
            except Exception as exc:
                if type(exc).__name__ == "Watchdog":
                    raise
                mon.note("schedule-step-raised")


def show(steps):
    out = []
    for st in steps:
        if len(st) == 2:
            out.append(f"{st[0]}({st[1]})")
        else:
            out.append(f"{st[0]}: {short_name(st[1])}({st[4]}, seed={st[3]})")
    return out


def sched_key(steps):
    return ">".join(st[0] for st in steps) or "(empty)"


# ---------------------------------------------------------------------------------
# protocol
# ---------------------------------------------------------------------------------
ROUNDS = {"quick": 120, "thorough": 15000}


SYMMETRIC = {"quick": 800, "thorough": 40000}
SPECTRAL = "xgi.communities.spectral.spectral_clustering"


def plan(tier):
    n = max(1, len(NAMES))
    p = {"repeat": ROUNDS[tier] * n}
    if SPECTRAL in SEEDED:
        # spectral_clustering on small symmetric hypergraphs (degenerate spectra) x many seeds: the eigensolver restarts from a random
        # vector there for about 3 % of the seeds, which the round robin alone would meet only by luck
        p["symmetric"] = SYMMETRIC[tier]
    return p


def floors(tier):
    rounds = ROUNDS[tier]
    f = {f"compared:{short_name(q)}": int(0.3 * rounds) for q in PROBED}
    for q in PROBED:
        n = short_name(q)
        if n in SPARSE:
            f[f"compared-sparse:{n}"] = int(0.09 * rounds)  # a third of the rounds are sparse / large; some seeds are refused
        if n in SKIP_SAMPLERS:
            f[f"sparse-nonempty:{n}"] = int(0.1 * rounds)
        f[f"compared-same-objects:{n}"] = int(0.15 * rounds)
        if n in OPTIONS:
            f[f"compared-options:{n}"] = int(0.09 * rounds)
        if n in LAYOUTS_WITH_PASSTHROUGH:
            f[f"compared-with-pos:{n}"] = int(0.06 * rounds)  # initial positions passed through to networkx
            f[f"compared-with-fixed:{n}"] = int(0.02 * rounds)
    if SPECTRAL in SEEDED:
        f["compared-symmetric-spectra"] = int(0.4 * SYMMETRIC[tier])
    for c in ("plain", "numpy-integer", "above-2**32"):
        f[f"compared-seed-class:{c}"] = len(PROBED)
    if c16.PROBED_GEOMETRIC:
        for k in ("p=0", "p=1", "1e-12<=p<1e-4", "1e-4<=p<1e-2", "1e-2<=p<1", "numpy-scalar", "->inf"):
            f[f"geometric:{k}"] = 20  # observed 45..120 over seeds 0..15 at the quick tier
    f["argument-mutation-probes"] = 20 * len(PROBED)
    f["at-most-2-unprobed"] = 1
    for k in ALPHABET:
        f[f"schedule-step:{k}"] = len(PROBED)
    f["schedule:(empty)"] = len(PROBED)
    return f


def extra_coverage(mon):
    return {
        "callables_enumerated": NAMES,
        "callables_probed": [q for q in PROBED if mon.counters.get(f"compared:{short_name(q)}", 0)],
        "callables_unprobed": UNPROBED,
        "schedules_injected": sorted(k[len("schedule:"):] for k in mon.counters if k.startswith("schedule:")),
        "histories_injected": sorted(k[len("history:"):] for k in mon.counters if k.startswith("history:")),
        "technique": TECHNIQUE,
    }


def _freeze(result):
    try:
        return copy.deepcopy(result)
    except Exception:  # not copyable (never seen on the unchanged tree): compare the live object as before
        return result


def run_case(mon, kind, idx, rng):
    if not NAMES:
        return
    if mon.watchdogs >= 3:
        mon.note("skipped:after-3-watchdogs")
        return
    if len(UNPROBED) <= 2:
        mon.note("at-most-2-unprobed")
    if kind == "symmetric":
        q, rnd, regime = SPECTRAL, 8 + idx, "options"
    else:
        q = NAMES[idx % len(NAMES)]
        rnd = idx // len(NAMES)
        regime = ("small", "options", "sparse")[rnd % 3]
    name = short_name(q)
    rec = recipe_for(q, regime)
    if rec is None:
        mon.note(f"unprobed:{name}")
        return
    fn = SEEDED[q]
    st, npst = random.getstate(), np.random.get_state()
    try:
        # the case starts from global generator states fixed by the case rng (replayable)
        random.seed(rng.randrange(2**32))
        np.random.seed(rng.randrange(2**32))
        desc, fresh_build = rec(rng)
        # half of the rounds hand the very same argument objects to both executions and to the interleaved calls of the same callable
        # (only arguments documented as modified in place are rebuilt); the other half rebuilds every argument from plain data
        same_objects = rnd % 2 == 1
        if same_objects:
            shared = fresh_build()
            inplace = [pos for (f, pos) in c16.DOCUMENTED_IN_PLACE if f == name]

            def build():
                args, kw = shared
                if inplace:
                    fa, fk = fresh_build()
                    args = tuple(fa[i] if i in inplace else a for i, a in enumerate(args))
                    kw = {k: (fk[k] if k in inplace else v) for k, v in kw.items()}
                return args, kw
        else:
            build = fresh_build
        seed, seed_class = pick_seed(rng)
        # a seed that is not a plain int below 2**32 may be refused by random.seed / numpy.random.seed / networkx (TypeError, ValueError):
        # then both executions have to refuse it
        refusals = (ValueError, XGIError) if seed_class == "plain" else (ValueError, XGIError, TypeError)
        if kind == "symmetric":  # cheap schedules only: plain RNG consumers
            history = []
            schedule = make_schedule(rng, q, build, kinds=rng.choice([[], [rng.choice(ALPHABET[:4])]]))
        elif rnd < 1 + len(ALPHABET):
            history = []
            schedule = make_schedule(rng, q, build, kinds=[] if rnd == 0 else [ALPHABET[rnd - 1]])
        else:
            history = make_schedule(rng, q, build, maxlen=3)
            schedule = make_schedule(rng, q, build)
        mon.note(f"fn:{name}")
        mon.note(f"regime:{regime}")
        mon.note(f"arguments:{'same-objects' if same_objects else 'rebuilt'}")
        mon.note(f"seed-class:{seed_class}")
        mon.note(f"schedule:{sched_key(schedule)}")
        mon.note(f"history:{sched_key(history)}")
        for s in schedule:
            mon.note(f"schedule-step:{s[0]}")
        witness = (
            f"{q}({desc}, seed={seed!r})  [{'the same argument objects in every call' if same_objects else 'arguments rebuilt for every call'}]\nhistory before the first call: {show(history)}\n"
            f"schedule between the two calls: {show(schedule)}"
        )
        run_schedule(mon, history)
        outs = []
        for i in range(2):
            args, kw = build()
            before = [c16.fingerprint(x) for x in args] + [c16.fingerprint(x) for x in kw.values()] if same_objects else None
            try:
                # the result is frozen (deep-copied) at once: a later call that hands out or edits the same cached object
                # must not be able to make the two results look alike after the fact
                outs.append(("returned", _freeze(fn(*args, **kw, seed=seed))))
            except refusals as exc:
                outs.append(("raised", type(exc).__name__))
            if before is not None:
                mon.note("argument-mutation-probes")
                c16.note_modified(mon, name, before, args, kw)
            if i == 0:
                run_schedule(mon, schedule)
        mon.ev()
        (o1, r1), (o2, r2) = outs
        if o1 == "raised" or o2 == "raised":
            if not (o1 == o2 and r1 == r2):
                mon.fail(f"{name}|seed|outcome-differs-on-repeat", f"first call {o1} {r1 if o1 == 'raised' else ''}, second call {o2} {r2 if o2 == 'raised' else ''}", witness)
            else:
                mon.note(f"raised-both:{name}:{r1}")
            return
        mon.note(f"compared:{name}" if kind != "symmetric" else "compared-symmetric-spectra")
        if same_objects:
            mon.note(f"compared-same-objects:{name}")
        mon.note(f"compared-seed-class:{seed_class}")
        if regime == "options":
            mon.note(f"compared-options:{name}")
            if "pos=" in desc:
                mon.note(f"compared-with-pos:{name}")
            if "'fixed'" in desc:
                mon.note(f"compared-with-fixed:{name}")
        if regime == "sparse":
            mon.note(f"compared-sparse:{name}")
            if nonempty(r1):
                mon.note(f"sparse-nonempty:{name}")
        d = differ(r1, r2)
        if d:
            trig = "seed"
            if same_objects:  # is the reuse of the argument objects the trigger?  two more executions on rebuilt arguments decide
                try:
                    (a1, k1_), (a2, k2_) = fresh_build(), fresh_build()
                    if differ(fn(*a1, **k1_, seed=seed), fn(*a2, **k2_, seed=seed)) is None:
                        trig = "seed,same-argument-objects"
                except Exception as exc:
                    if type(exc).__name__ == "Watchdog":
                        raise
            mon.fail(f"{name}|{trig}|output-differs-on-repeat", f"two calls with {'the same argument objects' if same_objects else 'equal arguments'} and seed={seed} differ; {d}", witness)
            return
        if nonempty(r1):
            mon.nontrivial((q, desc, seed, show(history), show(schedule)))
        if idx % 97 == 0:
            mon.sample(witness)
    finally:
        c16.flush_geo(mon)
        random.setstate(st)
        np.random.set_state(npst)
