"""C03 - simplicial complexes stay downward closed and duplicate-free (DESIGN §2 C03).

Invariant (closure above size 2, no duplicate member sets, no empty simplex, two-way
incidence) after every op of a history over the class's own mutators, plus per-op
postconditions: has_simplex is exact, remove_simplex_id removes exactly the simplex and
its supersets, additions under max_order never exceed it, remove_node removes exactly the
simplices containing the node.
"""
from itertools import combinations

from .. import ops, snap, suite
from . import common

PID = "C03"
CLS = "SimplicialComplex"
ANCHORS = ("xgi/core/simplicialcomplex.py", "xgi/utils/utilities.py")
TECHNIQUE = "runtime monitoring: closure/duplicate invariant + per-op post-conditions after every op of seeded edit histories"
RULE = (
    "case = one seeded edit history (<= 25 ops from SimplicialComplex's own mutators: add_simplex, add_simplices_from fmt 1-5 x max_order, "
    "weighted, remove_simplex_id(s), remove_node(s), close, cleanup, the deprecated edge aliases, relabelling) from a constructible start state; "
    "one evaluation = invariant + per-op postconditions after one op. distinct_nontrivial = distinct (op, outcome, post-state) with a state change or a raise"
    " | suite: the repository's own tests run under xgimon/suite_plugin.py; every outermost public boundary call on a network is one more evaluation"
)
ASSUMPTIONS = [
    'has_simplex queries rotate through nine argument forms (tuple, list, one-shot iterator, set, generator, frozenset, map, reversed list, dict keys)',
    "inherited Hypergraph rewiring methods and None members are outside the statement's input space and are not driven",
    "has_simplex is compared with brute force for every subset of size <= 4 of (current nodes + 2 absent labels)",
]


def plan(tier):
    if tier == "quick":
        return {"hostile": 1500, "steered": 700, "start": 300, "suite": 1}
    return {"hostile": 120000, "steered": 60000, "start": 25000, "suite": 1}


def floors(tier):
    f = {f"op:{n}": 15 for n in common.op_names(CLS)}
    f.update({"post-raise-evaluations": 30, "outcome:returned": 1000, "changed-state": 300, "has_simplex-queries": 10000,
              "postcond:remove_simplex_id": 50, "postcond:max_order": 50, "postcond:remove_node": 30})
    f["suite:evaluations"] = 30  # boundary calls of the repository's own tests observed by the same oracle
    return f


# argument forms of one and the same query (an iterable of nodes): sequence, set, one-shot iterator, generator, dict keys, reversed
_FORMS = (
    ("tuple", tuple), ("list", list), ("iter", iter), ("set", set), ("generator", lambda t: (x for x in t)), ("frozenset", frozenset),
    ("map", lambda t: map(lambda x: x, t)), ("reversed-list", lambda t: list(reversed(t))), ("dict-keys", lambda t: dict.fromkeys(t).keys()),
)


def _edges(s):
    return {e: (m, a) for e, m, a in s[2]}


def per_op(mon, net, op, pre, outcome, hist):
    def fire(clause, what):
        key = f"{CLS}.{op.name}|{common.key_tags(op)}|{outcome}|{clause}"
        mon.fail(key, f"after {op!r} ({outcome}): {what}", "history:\n  " + "\n  ".join(hist) + f"\nstate: {snap.pretty(net)}")
        return True

    post = snap.snap(net)
    pe, qe = _edges(pre), _edges(post)
    fam = {m for m, a in qe.values()}
    # (e) has_simplex answers membership exactly
    universe = [n for n, _ in post[1]] + ["<absent>", -77]
    qi = len(hist)  # the form of a query depends on the position in the history and in the enumeration only (replayable)
    for k in range(1, min(4, len(universe)) + 1):
        for sub in combinations(universe, k):
            mon.note("has_simplex-queries")
            form, conv = _FORMS[qi % len(_FORMS)]
            qi += 1
            got = net.has_simplex(conv(sub))
            if got != (frozenset(sub) in fam):
                return fire("has_simplex-wrong", f"has_simplex({form} of {sub}) = {got} but membership is {frozenset(sub) in fam}")
    name = op.name
    if outcome != "returned":
        return False
    if name in ("remove_simplex_id", "remove_edge", "remove_simplex_ids_from", "remove_edges_from"):
        arg = op.args[0]
        if isinstance(arg, ops.LiveView):
            arg = [e for e, (m, _) in pe.items() if arg.filt is None or {"eq": len(m) == arg.filt[1], "geq": len(m) >= arg.filt[1]}[arg.filt[2]]]
        ids = [arg] if name in ("remove_simplex_id", "remove_edge") else list(arg)
        expect_removed = set()
        for i in ids:
            if i in pe:
                expect_removed.add(i)
                expect_removed |= {j for j, (m, _) in pe.items() if pe[i][0] < m}
        mon.note("postcond:remove_simplex_id")
        mon.ev()
        expected = {e: v for e, v in pe.items() if e not in expect_removed}
        if qe != expected:
            return fire("removal-not-exact", f"removing {ids} should remove exactly {sorted(expect_removed, key=repr)}; "
                        f"extra removed={sorted(set(expected) - set(qe), key=repr)} kept-but-should-go={sorted(set(qe) - set(expected), key=repr)}")
        if [n for n, _ in pre[1]] != [n for n, _ in post[1]]:
            return fire("removal-touched-nodes", "removing simplices changed the node set")
    if name in ("remove_node", "remove_nodes_from"):
        arg = op.args[0]
        if isinstance(arg, ops.LiveView):
            arg = [n for n, _ in pre[1]]
        ns = [arg] if name == "remove_node" else list(arg)
        ns = set(n for n in ns if n in dict(pre[1]))
        mon.note("postcond:remove_node")
        mon.ev()
        expected = {e: v for e, v in pe.items() if not (v[0] & ns)}
        if qe != expected:
            return fire("node-removal-not-exact", f"removing nodes {ns} should remove exactly the simplices containing them")
        if set(dict(post[1])) != set(dict(pre[1])) - ns:
            return fire("node-removal-nodes-wrong", "wrong node set after node removal")
    if "max_order" in op.kwargs and op.kwargs["max_order"] is not None:
        k = op.kwargs["max_order"]
        mon.note("postcond:max_order")
        mon.ev()
        for e, (m, _) in qe.items():
            if e not in pe and len(m) > k + 1:
                return fire("max_order-exceeded", f"simplex {e}={sorted(m, key=repr)} of order {len(m) - 1} was created under max_order={k}")
    if name in ("add_simplex", "add_simplices_from", "add_weighted_simplices_from", "add_edge", "add_edges_from", "add_weighted_edges_from", "close", "add_node", "add_nodes_from"):
        # additions never remove or alter an existing simplex
        for e, v in pe.items():
            if qe.get(e, None) is None or qe[e][0] != v[0]:
                return fire("addition-altered-existing", f"existing simplex {e} was removed or its members changed by an addition")
    return False


def run_case(mon, kind, idx, rng):
    if kind == "suite":  # the repository's own tests as a workload, observed by xgimon/suite_plugin.py
        return suite.run(mon, PID, mon.tier)
    common.invariant_episode(mon, PID, CLS, snap.inv_simplicial, kind, rng, per_op=per_op)
