"""C04 - automatic edge IDs are always fresh; adding never overwrites (DESIGN §2 C04).

History monitor over *provenance x additions*: a network is obtained in every way the
library offers (constructors, from_* converters, read_* functions, generators, copies,
pickles, relabelling, derived networks, edit histories with hostile explicit IDs); then
1-6 additions are applied and after each one the monitor checks that (a) every edge that
existed is still there with the same members and attributes, (b) exactly the requested
number of new IDs appeared and automatic ones are fresh ints, (c) an explicit ID that
already exists was refused with a warning and left the network unchanged.
"""
import copy
import os
import pickle
import tempfile
import warnings

import networkx as nx
import numpy as np
import pandas as pd
import scipy.sparse as sp

from .. import ops, snap
from ..env import xgi
from .. import suite
from . import common

PID = "C04"
ANCHORS = (
    "xgi/core/hypergraph.py", "xgi/core/dihypergraph.py", "xgi/core/simplicialcomplex.py", "xgi/utils/utilities.py",
    "xgi/convert/incidence.py", "xgi/convert/bipartite_edges.py", "xgi/convert/bipartite_graph.py", "xgi/convert/hif_dict.py",
    "xgi/convert/pandas.py", "xgi/readwrite/bipartite.py",
)
TECHNIQUE = "runtime monitoring: history monitor (provenance x additions) with preservation / freshness post-conditions"
RULE = (
    "case = (provenance recipe, seeded base network with hostile explicit IDs: 0, non-increasing, negative, True, 2.0, numpy ints, digit strings cast back to int) "
    "followed by 1-6 additions (automatic and explicit IDs, all bulk formats); one evaluation = the three clauses after one addition. "
    "distinct_nontrivial = distinct (provenance, addition kind, pre-state ids, new ids) tuples where the pre-state had at least one edge"
    " | suite: the repository's own tests run under xgimon/suite_plugin.py; every outermost public boundary call on a network is one more evaluation"
)
ASSUMPTIONS = [
    "empty member lists are not used for the additions (added-or-skipped is left open, see C05)",
    "provenance recipes that the library rejects (e.g. a label type a file format cannot carry) are counted as rejected, not as violations: conversion fidelity is C10/C11",
    "provenances are enumerated from the package namespace (from_*, read_*, generator __all__ lists); one without an argument recipe is counted as unprobed",
]


def colliding_ids_case(mon, rng):
    """Readers / converters fed with explicit IDs that collide (after a documented cast): the first record is kept,
    the later one is refused with a warning (clause c), whatever the entry point."""
    pool = ops.node_pool(rng, "int")[1]
    m1, m2 = ops.rand_members(rng, pool, 2, 3), ops.rand_members(rng, pool, 2, 3)
    while set(m2) == set(m1):
        m2 = ops.rand_members(rng, pool, 2, 4)
    how = rng.choice(("from_hypergraph_dict", "read_json", "add_edges_from-fmt2", "add_edges_from-fmt4"))
    a, b = rng.choice((("1", "01"), ("3", " 3"), ("2", "2"), ("7", "07")))
    with warnings.catch_warnings(record=True) as w:
        warnings.simplefilter("always")
        if how in ("from_hypergraph_dict", "read_json"):
            data = {"hypergraph-data": {}, "node-data": {str(n): {} for n in set(m1) | set(m2)}, "edge-data": {a: {}, b: {}} if a != b else {a: {}},
                    "edge-dict": {a: [str(n) for n in m1], b: [str(n) for n in m2]} if a != b else {a: [str(n) for n in m1]}}
            if a == b:
                return
            if how == "from_hypergraph_dict":
                H = xgi.from_hypergraph_dict(data, nodetype=int, edgetype=int)
            else:
                import json as _json

                with tempfile.TemporaryDirectory(prefix="xgimon-c04-") as td:
                    pth = os.path.join(td, "c.json")
                    with open(pth, "w") as f:
                        _json.dump(data, f)
                    H = xgi.read_json(pth, nodetype=int, edgetype=int)
        else:
            H = xgi.Hypergraph()
            i = int(a)
            eb = [(m1, i), (m2, i)] if how.endswith("fmt2") else [(m1, i, {"k": 1}), (m2, i, {"k": 2})]
            H.add_edges_from(eb)
    mon.ev()
    mon.note("dup-explicit-ids-checked")
    mon.note(f"colliding:{how}")
    got = {e: set(m) for e, m in H.edges.members(dtype=dict).items()}
    key = int(a)
    if got != {key: set(m1)}:
        mon.fail(f"{how}|colliding-explicit-ids|later-record-replaced-or-lost-the-first", f"{how}: two records with the same edge ID {key} (members {m1} then {m2}) gave {got}; the first must be kept, the second refused",
                 f"ids {a!r}, {b!r}; members {m1}, {m2}")
    elif not w:
        mon.fail(f"{how}|colliding-explicit-ids|no-warning", f"{how}: the record with the already existing edge ID {key} was dropped without a warning", f"ids {a!r}, {b!r}")


def plan(tier):
    n = len(PROVS)
    return {"prov": n * (70 if tier == "quick" else 4000), "history": 6000 if tier == "quick" else 150000, "colliding": 300 if tier == "quick" else 30000, "suite": 1}


def floors(tier):
    f = {f"prov:{name}": 3 for name in PROVS}
    f.update({"additions-checked": 3000, "auto-ids-checked": 1500, "dup-explicit-ids-checked": 100, "unprobed-ok": 1,
              "history-then:pickle": 100, "history-then:copy": 100, "history-then:ctor": 100, "history-then:relabel": 100})
    f["suite:evaluations"] = 500  # boundary calls of the repository's own tests observed by the same oracle
    return f


# ---------------------------------------------------------------------------------
# base material
# ---------------------------------------------------------------------------------
ID_KINDS = ("inc", "dec", "perm", "gap", "neg", "zero-last", "float", "bool", "np", "str", "mixed")


def weird_ids(rng, m, kind=None):
    kind = kind or rng.choice(ID_KINDS)
    if kind == "inc":
        ids = list(range(m))
    elif kind == "dec":
        ids = list(range(m + 2, 2, -1))[:m]
    elif kind == "perm":
        ids = list(range(m))
        rng.shuffle(ids)
    elif kind == "gap":
        ids = rng.sample(range(0, 12), m)
    elif kind == "neg":
        ids = rng.sample(range(-4, 5), m)
    elif kind == "zero-last":
        ids = rng.sample(range(1, 9), max(0, m - 1)) + [0]
    elif kind == "float":
        ids = [float(i) for i in rng.sample(range(0, 9), m)]
    elif kind == "bool":
        ids = ([True] + rng.sample(range(2, 9), max(0, m - 1)))[:m]
        rng.shuffle(ids)
    elif kind == "np":
        ids = [np.int64(i) for i in rng.sample(range(0, 9), m)]
    elif kind == "str":
        ids = rng.sample(["a", "b", "e0", "e1", "zz", "q"], m)
    else:
        ids = rng.sample([0, 3, "a", 1, "b", 7], m)
    return kind, ids[:m]


def base(rng, lo=1, hi=5, int_ids=False, nkind=None):
    """-> (id_kind, {eid: members}, node pool)"""
    nk, pool = ops.node_pool(rng, nkind)
    m = rng.randint(lo, hi)
    kind, ids = weird_ids(rng, m, rng.choice(("inc", "dec", "perm", "gap", "neg", "zero-last")) if int_ids else None)
    return kind, {i: ops.rand_members(rng, pool, 1, 4) for i in ids}, pool


def dbase(rng):
    nk, pool = ops.node_pool(rng)
    m = rng.randint(1, 5)
    kind, ids = weird_ids(rng, m)
    return kind, {i: (ops.rand_members(rng, pool, 0, 3), ops.rand_members(rng, pool, 1, 3)) for i in ids}, pool


def H_of(d):
    H = xgi.Hypergraph()
    for i, m in d.items():
        H.add_edge(m, idx=i)
    return H


def with_empty(rng, d, p=0.35):
    """With probability p: an empty edge under an integer ID above every other one (and sometimes an isolated node)."""
    if rng.random() < p:
        nums = [i for i in d if isinstance(i, (int, float)) and not isinstance(i, bool)]
        top = int(max(nums)) + rng.choice((1, 2)) if nums else rng.choice((2, 5))
        d = dict(d)
        d[top] = []
    return d


# ---------------------------------------------------------------------------------
# provenance recipes: name -> function(rng, tmpdir) -> network
# ---------------------------------------------------------------------------------
PROVS = {}


def prov(name):
    def deco(f):
        PROVS[name] = f
        return f

    return deco


@prov("ctor:list")
def _(rng, td):
    return xgi.Hypergraph(list(base(rng)[1].values()))


@prov("ctor:dict")
def _(rng, td):
    return xgi.Hypergraph(base(rng)[1])


@prov("ctor:dataframe")
def _(rng, td):
    d = base(rng, int_ids=True)[1]
    return xgi.Hypergraph(pd.DataFrame([(n, e) for e, ms in d.items() for n in ms]))


def _inc(rng):
    n, m = rng.randint(1, 5), rng.randint(1, 5)
    return np.array([[int(rng.random() < 0.5) for _ in range(m)] for _ in range(n)])


@prov("ctor:incidence-dense")
def _(rng, td):
    return xgi.Hypergraph(_inc(rng))


@prov("ctor:incidence-sparse")
def _(rng, td):
    f = rng.choice((sp.csr_array, sp.csc_array, sp.coo_array, sp.lil_array, sp.csr_matrix, sp.csc_matrix, sp.coo_matrix, sp.lil_matrix))
    return xgi.Hypergraph(f(_inc(rng)))


@prov("ctor:Hypergraph(H)")
def _(rng, td):
    return xgi.Hypergraph(H_of(with_empty(rng, base(rng)[1])))


@prov("ctor:Hypergraph(SC)")
def _(rng, td):
    return xgi.Hypergraph(xgi.SimplicialComplex(base(rng)[1]))


@prov("ctor:Hypergraph(DH)")
def _(rng, td):
    return xgi.Hypergraph(xgi.DiHypergraph(dbase(rng)[1]))


@prov("ctor:DiHypergraph(list)")
def _(rng, td):
    return xgi.DiHypergraph(list(dbase(rng)[1].values()))


@prov("ctor:DiHypergraph(dict)")
def _(rng, td):
    return xgi.DiHypergraph(dbase(rng)[1])


@prov("ctor:DiHypergraph(DH)")
def _(rng, td):
    return xgi.DiHypergraph(xgi.DiHypergraph(dbase(rng)[1]))


@prov("ctor:SimplicialComplex(list)")
def _(rng, td):
    return xgi.SimplicialComplex(list(base(rng)[1].values()))


@prov("ctor:SimplicialComplex(dict)")
def _(rng, td):
    return xgi.SimplicialComplex(base(rng)[1])


@prov("ctor:SimplicialComplex(SC)")
def _(rng, td):
    return xgi.SimplicialComplex(xgi.SimplicialComplex(base(rng)[1]))


@prov("ctor:SimplicialComplex(H)")
def _(rng, td):
    return xgi.SimplicialComplex(H_of(base(rng)[1]))


@prov("ctor:SimplicialComplex(dataframe)")
def _(rng, td):
    d = base(rng, int_ids=True)[1]
    return xgi.SimplicialComplex(pd.DataFrame([(n, e) for e, ms in d.items() for n in ms]))


@prov("from_bipartite_edgelist")
def _(rng, td):
    if rng.random() < 0.3:
        d = dbase(rng)[1]
        el = [(n, e, "in") for e, (t, h) in d.items() for n in t] + [(n, e, "out") for e, (t, h) in d.items() for n in h]
        rng.shuffle(el)
        return xgi.from_bipartite_edgelist(el)
    d = base(rng)[1]
    el = [(n, e) for e, ms in d.items() for n in ms]
    rng.shuffle(el)
    return xgi.from_bipartite_edgelist(el)


@prov("from_bipartite_graph")
def _(rng, td):
    d = base(rng, int_ids=True, nkind="str")[1]
    G = nx.Graph()
    G.add_nodes_from({n for ms in d.values() for n in ms}, bipartite=0)
    G.add_nodes_from(d, bipartite=1)
    G.add_edges_from((n, e) for e, ms in d.items() for n in ms)
    if rng.random() < 0.4:  # vertices without links: an isolated node and an edge-vertex of degree 0
        G.add_node("iso-node", bipartite=0)
        G.add_node(max([i for i in d if isinstance(i, int)] + [3]) + 1, bipartite=1)
    if rng.random() < 0.3:
        H = H_of(with_empty(rng, d, 1.0))
        G = xgi.to_bipartite_graph(H)
    return xgi.from_bipartite_graph(G, dual=rng.random() < 0.2)


@prov("from_bipartite_pandas_dataframe")
def _(rng, td):
    d = base(rng)[1]
    df = pd.DataFrame([(n, e) for e, ms in d.items() for n in ms], columns=["n", "e"])
    return xgi.from_bipartite_pandas_dataframe(df, node_column="n", edge_column="e")


@prov("from_hif_dict")
def _(rng, td):
    r = rng.random()
    if r < 0.4:
        src = H_of(with_empty(rng, base(rng)[1]))
    elif r < 0.7:
        src = xgi.DiHypergraph(dbase(rng)[1])
    else:
        src = xgi.SimplicialComplex(base(rng)[1])
    return xgi.from_hif_dict(xgi.to_hif_dict(src))


@prov("from_hyperedge_dict")
def _(rng, td):
    return xgi.from_hyperedge_dict(base(rng)[1])


@prov("from_hyperedge_list")
def _(rng, td):
    return xgi.from_hyperedge_list(list(base(rng)[1].values()))


@prov("from_hypergraph_dict")
def _(rng, td):
    H = H_of(with_empty(rng, base(rng, int_ids=True, nkind="int")[1]))
    data = xgi.to_hypergraph_dict(H)
    return xgi.from_hypergraph_dict(data, nodetype=int, edgetype=int)


@prov("from_incidence_matrix")
def _(rng, td):
    M = _inc(rng)
    if rng.random() < 0.5:
        return xgi.from_incidence_matrix(M)
    _, ids = weird_ids(rng, M.shape[1], rng.choice(("dec", "perm", "gap", "zero-last", "np")))
    return xgi.from_incidence_matrix(M, edgelabels=ids)


@prov("from_max_simplices")
def _(rng, td):
    return xgi.from_max_simplices(xgi.SimplicialComplex(base(rng)[1]))


@prov("from_simplex_dict")
def _(rng, td):
    return xgi.from_simplex_dict(base(rng)[1])


@prov("read_edgelist")
def _(rng, td):
    H = H_of(base(rng, nkind="int")[1])
    p = os.path.join(td, "el.txt")
    xgi.write_edgelist(H, p)
    return xgi.read_edgelist(p, nodetype=int)


@prov("read_bipartite_edgelist")
def _(rng, td):
    H = H_of(base(rng, int_ids=True, nkind="int")[1])
    p = os.path.join(td, "bel.txt")
    xgi.write_bipartite_edgelist(H, p)
    return xgi.read_bipartite_edgelist(p, nodetype=int, edgetype=int, dual=rng.random() < 0.2)


@prov("read_incidence_matrix")
def _(rng, td):
    n, m = rng.randint(2, 5), rng.randint(2, 5)
    M = np.array([[int(rng.random() < 0.6) for _ in range(m)] for _ in range(n)])
    H = xgi.Hypergraph(M)
    p = os.path.join(td, "inc.txt")
    xgi.write_incidence_matrix(H, p)
    return xgi.read_incidence_matrix(p)


@prov("read_json")
def _(rng, td):
    H = H_of(with_empty(rng, base(rng, int_ids=True, nkind="int")[1]))
    p = os.path.join(td, "h.json")
    xgi.write_json(H, p)
    return xgi.read_json(p, nodetype=int, edgetype=int)


@prov("read_hif")
def _(rng, td):
    r = rng.random()
    if r < 0.4:
        src = H_of(with_empty(rng, base(rng, int_ids=True)[1]))
    elif r < 0.7:
        kind, d, _ = dbase(rng)
        src = xgi.DiHypergraph({i: m for i, m in d.items() if isinstance(i, (int, str)) and not isinstance(i, bool)})
    else:
        src = xgi.SimplicialComplex(base(rng, int_ids=True)[1])
    p = os.path.join(td, "h.hif.json")
    xgi.write_hif(src, p)
    return xgi.read_hif(p)


@prov("read_hif_collection")
def _(rng, td):
    Hs = [H_of(base(rng, int_ids=True)[1]) for _ in range(2)]
    sub = os.path.join(td, "coll")
    os.makedirs(sub, exist_ok=True)
    xgi.write_hif_collection(Hs, sub, collection_name="c")
    out = xgi.read_hif_collection(os.path.join(sub, "c_collection_information.json"))
    return rng.choice(list(out.values()) if isinstance(out, dict) else list(out))


# generators ---------------------------------------------------------------------
@prov("gen:empty_hypergraph")
def _(rng, td):
    return xgi.empty_hypergraph()


@prov("gen:empty_dihypergraph")
def _(rng, td):
    return xgi.empty_dihypergraph()


@prov("gen:empty_simplicial_complex")
def _(rng, td):
    return xgi.empty_simplicial_complex()


@prov("gen:trivial_hypergraph")
def _(rng, td):
    return xgi.trivial_hypergraph(rng.randint(1, 4))


@prov("gen:complete_hypergraph")
def _(rng, td):
    return xgi.complete_hypergraph(rng.randint(2, 4), max_order=rng.randint(1, 2))


@prov("gen:complement")
def _(rng, td):
    return xgi.complement(H_of(base(rng, nkind="int")[1]))


@prov("gen:ring_lattice")
def _(rng, td):
    return xgi.ring_lattice(rng.randint(6, 8), 2, 2, 1)


@prov("gen:fast_random_hypergraph")
def _(rng, td):
    return xgi.fast_random_hypergraph(rng.randint(3, 6), [0.4, 0.2], seed=rng.randint(0, 99))


@prov("gen:random_hypergraph")
def _(rng, td):
    return xgi.random_hypergraph(rng.randint(3, 6), [0.4, 0.2], seed=rng.randint(0, 99))


@prov("gen:chung_lu_hypergraph")
def _(rng, td):
    n = rng.randint(3, 6)
    k = {i: rng.randint(1, 3) for i in range(n)}
    k2 = dict(zip(range(n, 2 * n), rng.sample(list(k.values()), n)))
    if rng.random() < 0.5:  # edge IDs overlapping 0..m-1 in a non-increasing order
        k2 = dict(zip(rng.sample(range(n), n), k2.values()))
    return xgi.chung_lu_hypergraph(k, k2, seed=rng.randint(0, 99))


@prov("gen:dcsbm_hypergraph")
def _(rng, td):
    n = 4
    k1 = {i: rng.randint(1, 3) for i in range(n)}
    k2 = dict(zip(rng.sample(range(n), n), rng.sample(list(k1.values()), n)))
    g1 = {i: rng.randint(0, 1) for i in range(n)}
    g2 = {i: rng.randint(0, 1) for i in k2}
    g1[0], g1[1] = 0, 1
    g2[list(k2)[0]], g2[list(k2)[1]] = 0, 1
    omega = np.array([[n // 2 + 1, 1], [1, n // 2 + 1]], dtype=float)
    return xgi.dcsbm_hypergraph(k1, k2, g1, g2, omega, seed=rng.randint(0, 99))


@prov("gen:watts_strogatz_hypergraph")
def _(rng, td):
    return xgi.watts_strogatz_hypergraph(rng.randint(6, 8), 2, 2, 1, rng.choice((0.0, 0.3, 1.0)), seed=rng.randint(0, 99))


@prov("gen:shuffle_hyperedges")
def _(rng, td):
    H = xgi.random_hypergraph(6, [0.5], seed=rng.randint(0, 99))
    if not H.num_edges:
        H.add_edge([0, 1])
    return xgi.shuffle_hyperedges(H, 1, rng.choice((0.0, 0.5, 1.0)), seed=rng.randint(0, 99))


@prov("gen:node_swap")
def _(rng, td):
    H = H_of(base(rng, nkind="int", lo=2)[1])
    a, b = rng.sample(list(H.nodes), 2) if H.num_nodes >= 2 else (0, 0)
    return xgi.node_swap(H, a, b, id_temp=-77)


@prov("gen:star_clique")
def _(rng, td):
    return xgi.star_clique(rng.randint(3, 4), rng.randint(3, 4), 2)


@prov("gen:sunflower")
def _(rng, td):
    return xgi.sunflower(rng.randint(2, 3), 1, rng.randint(2, 3))


@prov("gen:random_simplicial_complex")
def _(rng, td):
    return xgi.random_simplicial_complex(rng.randint(3, 6), [0.5, 0.3], seed=rng.randint(0, 99))


@prov("gen:random_flag_complex_d2")
def _(rng, td):
    return xgi.random_flag_complex_d2(rng.randint(3, 6), 0.6, seed=rng.randint(0, 99))


@prov("gen:random_flag_complex")
def _(rng, td):
    return xgi.random_flag_complex(rng.randint(3, 6), 0.6, max_order=rng.randint(2, 3), seed=rng.randint(0, 99))


@prov("gen:flag_complex")
def _(rng, td):
    G = nx.gnp_random_graph(rng.randint(3, 6), 0.6, seed=rng.randint(0, 99))
    return xgi.flag_complex(G, max_order=rng.randint(2, 3))


@prov("gen:flag_complex_d2")
def _(rng, td):
    G = nx.gnp_random_graph(rng.randint(3, 6), 0.6, seed=rng.randint(0, 99))
    return xgi.flag_complex_d2(G)


@prov("gen:uniform_hypergraph_configuration_model")
def _(rng, td):
    k = {i: rng.randint(1, 2) for i in range(6)}
    with warnings.catch_warnings():
        warnings.simplefilter("ignore")
        return xgi.uniform_hypergraph_configuration_model(k, 3, seed=rng.randint(0, 99))


@prov("gen:uniform_HSBM")
def _(rng, td):
    p = np.full((2, 2), 0.3)
    return xgi.uniform_HSBM(6, 2, p, [3, 3], seed=rng.randint(0, 99))


@prov("gen:uniform_HPPM")
def _(rng, td):
    return xgi.uniform_HPPM(6, 2, 2, 0.5, seed=rng.randint(0, 99))


@prov("gen:uniform_erdos_renyi_hypergraph")
def _(rng, td):
    return xgi.uniform_erdos_renyi_hypergraph(rng.randint(3, 6), 2, 0.5, seed=rng.randint(0, 99))


# derived -------------------------------------------------------------------------
def _any_net(rng):
    r = rng.random()
    if r < 0.5:
        return H_of(with_empty(rng, base(rng)[1]))
    if r < 0.75:
        return xgi.DiHypergraph(dbase(rng)[1])
    return xgi.SimplicialComplex(base(rng)[1])


@prov("derived:copy")
def _(rng, td):
    return _any_net(rng).copy()


@prov("derived:pickle")
def _(rng, td):
    return pickle.loads(pickle.dumps(_any_net(rng)))


@prov("derived:convert_labels_to_integers")
def _(rng, td):
    X = _any_net(rng)
    if rng.random() < 0.5:
        return xgi.convert_labels_to_integers(X)
    xgi.convert_labels_to_integers(X, in_place=True)
    return X


@prov("derived:dual")
def _(rng, td):
    return H_of(base(rng, nkind="int")[1]).dual()


@prov("derived:subhypergraph-copy")
def _(rng, td):
    H = H_of(base(rng)[1])
    return xgi.subhypergraph(H, edges=list(H.edges)[: max(1, H.num_edges - 1)]).copy()


@prov("derived:cleanup")
def _(rng, td):
    X = _any_net(rng)
    if isinstance(X, xgi.DiHypergraph):
        return X.cleanup(relabel=rng.random() < 0.5, in_place=False)
    return X.cleanup(connected=False, relabel=rng.random() < 0.5, in_place=False)


@prov("derived:merge_duplicate_edges")
def _(rng, td):
    kind, d, pool = base(rng, int_ids=True, lo=2)
    ids = list(d)
    d[ids[-1]] = list(d[ids[0]])
    H = H_of(d)
    H.merge_duplicate_edges(rename=rng.choice(("first", "tuple", "new")))
    return H


@prov("derived:lshift")
def _(rng, td):
    return H_of(base(rng)[1]) << H_of(base(rng)[1])


@prov("derived:cut_to_order")
def _(rng, td):
    X = H_of(base(rng)[1]) if rng.random() < 0.5 else xgi.SimplicialComplex(base(rng)[1])
    return xgi.cut_to_order(X, 1 if xgi.max_edge_order(X) >= 1 else 0)


@prov("derived:largest_connected_hypergraph")
def _(rng, td):
    return xgi.largest_connected_hypergraph(H_of(base(rng)[1]))


@prov("derived:removals")
def _(rng, td):
    X = _any_net(rng)
    es = list(X.edges)
    for e in rng.sample(es, rng.randint(1, len(es))):
        if e in X.edges:
            (X.remove_simplex_id if isinstance(X, xgi.SimplicialComplex) else X.remove_edge)(e)
    return X


def namespace_provenances():
    names = [n for n in dir(xgi) if n.startswith("from_") or (n.startswith("read_"))]
    import importlib

    for m in ("classic", "lattice", "random", "randomizing", "simple", "simplicial_complexes", "uniform"):
        mod = importlib.import_module("xgi.generators." + m)
        names += ["gen:" + n for n in mod.__all__]
    return names


# ---------------------------------------------------------------------------------
# the monitor
# ---------------------------------------------------------------------------------
def estate(net):
    s = snap.snap(net, order=False)
    return s[2]  # {e: (members, attrs)}


def additions(mon, net, rng, prov_name, hist):
    """Apply 1-6 additions and check the three clauses after each. Returns False when a monitor fired."""
    cls = type(net).__name__
    di = isinstance(net, xgi.DiHypergraph)
    sc = isinstance(net, xgi.SimplicialComplex)
    pool = list(net.nodes) or [0, 1, 2]
    # one label type per bulk call (format detection is only documented for such labels)
    is_str = isinstance(pool[0], str)
    pool = [n for n in pool if isinstance(n, str) == is_str] + (["new1", "new2"] if is_str else [90, 91])

    def members():
        ms = ops.rand_members(rng, pool, 1 if sc else 2, 4)
        if di:
            k = rng.randint(0, len(ms))
            return (ms[:k], ms[k:])
        return ms

    def new_id(pre):
        taken = set(pre)
        cands = [i for i in (0, 1, 2, 3, 5, 8, -1, 13, "x", "y", True, 4.0, np.int64(6), 21, 34, "zq", 55, 89, -7) if i not in taken]
        return rng.choice(cands) if cands else 1000 + rng.randint(0, 10**6)

    n_add = rng.randint(2, 7)
    for step in range(n_add):
        pre = estate(net)
        full_pre = snap.snap(net, order=False)
        kinds = ["auto", "auto", "explicit-new", "bulk1", "bulk3", "bulk2", "bulk4", "bulk5"]
        if pre:
            kinds.append("explicit-dup")
        if not sc:
            kinds.append("add_node_to_edge")
        # the first additions after obtaining the network are automatic ones: that is where a counter that was
        # not carried over (copy, pickle, converter, reader) shows
        kind = rng.choice(kinds) if step >= 2 else rng.choice(("auto", "auto", "bulk1", "bulk3"))
        add_one = "add_simplex" if sc else "add_edge"
        add_many = "add_simplices_from" if sc else "add_edges_from"
        requested = []  # (members, explicit id or None)
        if kind == "auto":
            m = members()
            op = ops.Op(add_one, (m,), ops.rand_attrs(rng))
            requested = [(m, None)]
        elif kind == "explicit-new":
            m, i = members(), new_id(pre)
            op = ops.Op(add_one, (m,), {"idx": i})
            requested = [(m, i)]
        elif kind == "explicit-dup":
            m, i = members(), rng.choice(list(pre))
            op = ops.Op(add_one, (m,), {"idx": i})
            requested = [(m, i)]
        elif kind == "add_node_to_edge":
            i = new_id(pre)
            n = rng.choice(pool)
            op = ops.Op("add_node_to_edge", (i, n) + (("in",) if di else ()))
            requested = [((([n], []) if di else [n]), i)]
        else:
            fmt = int(kind[-1])
            k = rng.randint(1, 3)
            ms = [members() for _ in range(k)]
            ids = []
            for _ in range(k):
                i = new_id(list(pre) + ids)
                ids.append(i)
            if fmt == 1:
                eb = ms
            elif fmt == 2:
                eb = list(zip(ms, ids))
            elif fmt == 3:
                eb = [(m, ops.rand_attrs(rng, 0.5)) for m in ms]
            elif fmt == 4:
                eb = [(m, i, ops.rand_attrs(rng, 0.5)) for m, i in zip(ms, ids)]
            else:
                eb = dict(zip(ids, ms))
            op = ops.Op(add_many, (eb,))
            requested = [(m, (i if fmt in (2, 4, 5) else None)) for m, i in zip(ms, ids)]
        hist.append(repr(op))
        outcome, val, warns = common.run_op(op, net)
        mon.ev()
        mon.note("additions-checked")
        mon.note(f"add:{cls}:{kind}")
        post = estate(net)

        def fire(clause, what):
            mon.fail(f"{cls}.{op.name}|{kind}|{clause}", f"[{prov_name}] after {op!r} ({outcome}): {what}",
                     "provenance+history:\n  " + "\n  ".join(hist) + f"\nstate: {snap.pretty(net)}")
            return False

        if outcome != "returned":
            return fire("addition-raised", f"a plain addition raised {type(val).__name__}: {val}")
        # (a) nothing that existed was altered, replaced or removed
        for e, (m, a) in pre.items():
            if e not in post:
                return fire("existing-edge-removed", f"edge {e!r} disappeared")
            if post[e][0] != m:
                return fire("existing-edge-overwritten", f"members of existing edge {e!r} changed from {snap.sorted_repr(m)} to {snap.sorted_repr(post[e][0])}")
            if post[e][1] != a:
                return fire("existing-edge-attrs-changed", f"attributes of existing edge {e!r} changed")
        new = {e: v for e, v in post.items() if e not in pre}
        if kind == "explicit-dup":
            mon.note("dup-explicit-ids-checked")
            if new:
                return fire("dup-id-not-refused", f"explicit ID {requested[0][1]!r} already existed but new edges {list(new)} appeared")
            if not sc and not any(issubclass(w.category, Warning) for w in warns):
                return fire("dup-id-no-warning", f"explicit ID {requested[0][1]!r} already existed but no warning was emitted")
            if sc:
                # a complex may legitimately refuse silently when the simplex itself is already present
                present = frozenset(requested[0][0]) in {m for m, _ in pre.values()}
                if not present and not warns:
                    return fire("dup-id-no-warning", f"explicit ID {requested[0][1]!r} already existed but no warning was emitted")
            full_post = snap.snap(net, order=False)
            if full_post != full_pre:
                diff = [("class", "nodes", "edges", "memberships", "net-attrs")[i] for i in range(5) if full_post[i] != full_pre[i]]
                return fire("dup-id-refusal-changed-network", f"the refused addition with existing ID {requested[0][1]!r} changed the network ({diff})")
            continue
        # (b) the requested number of new IDs appeared; automatic ones are fresh ints
        if sc:
            fam = {m for m, _ in pre.values()}
            expect = set()
            for m, i in requested:
                fm = frozenset(m)
                if fm and fm not in fam:
                    expect.add(fm)
                    from itertools import combinations

                    for k in range(2, len(fm)):
                        expect |= {frozenset(c) for c in combinations(fm, k)} - fam
            got = [m for m, _ in new.values()]
            if set(got) != expect or len(got) != len(expect):
                return fire("new-simplices-wrong", f"expected exactly the new simplices {sorted(map(sorted_r, expect))}, got {sorted(map(sorted_r, got))}")
        else:
            want = len(requested)
            if len(new) != want:
                return fire("new-id-count-wrong", f"{want} additions requested, {len(new)} new IDs appeared ({list(new)!r}) - an ID was reused or lost")
        for m, i in requested:
            if i is not None and not sc and (i not in post or _flat(post[i][0]) != _flat_req(m, di)):
                return fire("explicit-id-missing", f"explicit ID {i!r} not present with the requested members")
        explicit = [i for _, i in requested if i is not None]
        for e in new:
            if not any(e == i for i in explicit):
                mon.note("auto-ids-checked")
                if not isinstance(e, int) or isinstance(e, bool):
                    return fire("auto-id-not-an-int", f"automatic ID {e!r} is not an int")
        mon.nontrivial((prov_name, kind, tuple(map(repr, pre)), tuple(map(repr, new)))) if pre else None
    return True


def sorted_r(m):
    return sorted(m, key=repr)


def _flat(m):
    return m


def _flat_req(m, di):
    if di:
        return (frozenset(m[0]), frozenset(m[1]))
    return frozenset(m)


def run_case(mon, kind, idx, rng):
    if kind == "suite":  # the repository's own tests as a workload, observed by xgimon/suite_plugin.py
        return suite.run(mon, PID, mon.tier)
    hist = []
    if kind == "colliding":
        return colliding_ids_case(mon, rng)
    if kind == "prov":
        names = list(PROVS)
        name = names[idx % len(names)]
        if idx < len(names):
            unprobed = [n for n in namespace_provenances() if n not in PROVS]
            mon.note("unprobed-ok" if len(unprobed) <= 2 else "unprobed-too-many")
            for n in unprobed:
                mon.note(f"unprobed:{n}")
        with tempfile.TemporaryDirectory(prefix="xgimon-c04-") as td:
            try:
                with warnings.catch_warnings():
                    warnings.simplefilter("ignore")
                    net = PROVS[name](rng, td)
            except (xgi.exception.XGIError, TypeError, ValueError, KeyError) as exc:
                # the library refused this recipe instance (label type not carried by the format ...): fidelity is C10/C11's
                mon.note(f"prov-rejected:{name}:{type(exc).__name__}")
                return
        mon.note(f"prov:{name}")
        hist.append(f"<{name}> -> {snap.pretty(net)}")
    else:
        cls = ("Hypergraph", "DiHypergraph", "SimplicialComplex")[idx % 3]
        name = f"history:{cls}"
        gen = ops.GENS[cls](rng, hostile=True, avoid=frozenset({"none-member", "empty-members"}), ekind=rng.choice(("int", "gap", "perm")))
        net = ops.new_net(cls)
        for _ in range(rng.randint(2, 12)):
            op = gen.gen(net)
            hist.append(repr(op))
            common.run_op(op, net)
        how = rng.choice(("none", "copy", "pickle", "ctor", "relabel"))
        if how == "copy":
            net = net.copy()
        elif how == "pickle":
            net = pickle.loads(pickle.dumps(net))
        elif how == "ctor" and not snap.inv(net):
            net = type(net)(net)
        elif how == "relabel" and not snap.inv(net):
            net = xgi.convert_labels_to_integers(net)
        name = f"history:{cls}+{how}"
        hist.append(f"<then {how}>")
        mon.note(f"prov:history:{cls}")
        mon.note(f"history-then:{how}")
    if getattr(net, "is_frozen", False):
        net = net.copy()
    if snap.inv(net):
        mon.note("discarded-invalid-start")
        return
    if additions(mon, net, rng, name, hist):
        mon.sample(hist)
