"""C20 - layouts and drawings represent every node and edge faithfully (DESIGN §2 C20).

Post-condition monitors on what the real code returns:

* layouts: every function of xgi.drawing.layout.__all__ that takes a network, with its
  options -> keys == set(H.nodes), every value a finite vector of length 2;
  bipartite_spring_layout additionally exactly one finite position per edge;
  edge_positions_from_barycenters == mean of the members' positions (directed input too).
* drawings (Agg backend, nothing rasterised): node positions are drawn at random with
  all 2n coordinates distinct, so a point of a returned matplotlib collection identifies
  the node it was computed from.  PathCollection offsets == positions in H.nodes order;
  LineCollection segments, as a multiset of unordered endpoint pairs == the two-node
  edges; PatchCollection polygons, as a multiset of vertex sets == the edges with
  3..max_order+1 nodes (complex: maximal simplices of the max_order-skeleton with >= 3
  nodes, and all two-node simplices).

* same-object sequences: the same calls before and after in-place edits of one network
  object (default layout with pos=None: counts; explicit pos: full geometry; layouts: keys
  == current node set), so that anything remembered per object across calls is observed.
* position dicts are handed over in key orders other than H.nodes, with extra keys and with
  tuple / list / float64 / float32 / int values, and in degenerate geometric families (grid,
  collinear, regular polygon, mirror pairs, coincident non-adjacent nodes, huge / tiny scale).

Keys: "<function>|<trigger>|<clause>"; the trigger of a polygon clause says whether max_order
truncates, the trigger of a layout clause is the node-count class.  `draw` only delegates to
draw_nodes and draw_hyperedges / draw_simplices: a clause that the component already failed
for the same network, style shape and max_order is not reported a second time under `draw`.
"""
import random as _random
from collections import Counter

import matplotlib.pyplot as plt
import numpy as np

from .. import ops, snap
from ..env import xgi

PID = "C20"
ANCHORS = ("xgi/drawing/layout.py", "xgi/drawing/draw.py", "xgi/drawing/draw_utils.py")
TECHNIQUE = "runtime monitoring: post-condition monitors on returned position dicts and matplotlib collections against brute force from members()"
RULE = (
    "layout case = one seeded network (Hypergraph / SimplicialComplex; int, gapped-int or string labels; isolated nodes, singletons, empty and "
    "multi-edges; also 0-node, 1-node and edgeless networks) x all 8 network-taking layout functions with random options + edge_positions_from_barycenters "
    "(+ a DiHypergraph for the barycentres); draw case = one seeded network with >= 1 edge of >= 2 nodes x random positions with all coordinates distinct x "
    "3 style shapes (scalar, per-ID list/array/dict, stat-valued) x {draw, draw_nodes, draw_hyperedges | draw_simplices} x max_order in {None, 1..}; "
    "position dicts (draw and barycentres) vary deterministically with idx: key order node-order / shuffled / sorted / reversed, extra keys that are no nodes "
    "(also: the positions of a full network re-used for a copy with nodes removed / a subhypergraph), values tuple / list / float64 / float32 / int arrays; "
    "sequence case = ONE network object: draw (pos=None and explicit pos) + all layouts + barycentres, then 2 x {in-place edit: node swap keeping the count, "
    "convert_labels_to_integers(in_place=True), rewiring, add/remove edge or simplex, remove node; then everything again against the *current* network}; "
    "one evaluation = one call of a layout / draw function checked against the oracle. distinct_nontrivial = distinct (network, positions or options, call) "
    "where the network has at least one node (layout) or one edge with >= 2 nodes (draw)"
)
ASSUMPTIONS = [
    "labels (kind fixed by idx, 1/10 each): strings, ints 0..k, gapped/negative ints, integral floats 0.0..k, non-integral floats, negative ints only, "
    "numpy int64/int32, ints mixed with larger integral floats, very large ints (> 2**63), strings mixed with ints (hypergraphs and directed hypergraphs built edge by edge only); <= 10 nodes, <= 10 edges, edge sizes 0..5",
    "excluded labels: bool (True == 1 and False == 0 are the SAME dict key as the ints), two labels of one network that compare equal across types (0 and 0.0, "
    "np.int64(1) and 1: one node, not two), NaN (not equal to itself), None, tuples / frozensets, and str mixed with non-str in a SimplicialComplex (add_edges_from cannot tell such "
    "labels from edge formats, DESIGN 1.4; convert_labels_to_integers and draw_simplices rebuild networks through it)",
    "explicit positions come in 8 families fixed by idx: general position (2n pairwise distinct coordinates), integer grid, all points on one line (horizontal / vertical / "
    "diagonal; centroids fall on members), regular polygon around a centre (optionally one key on the centre), mirror pairs through a centre, coincident positions of two "
    "keys that share NO edge, magnitudes x 2**30 and x 2**-20; lines and polygons are compared as multisets of sets of POSITIONS (== sets of IDs whenever positions are "
    "distinct); two members of one edge never get the same position (the expected vertex set would be ambiguous), so a polygon must have exactly its members' points; "
    "points are matched after division by the family's scale with tolerance 1e-6",
    "hull=False only; node_labels / hyperedge_labels are not driven (the statement is about markers, lines and polygons)",
    "per-ID style containers are never empty: with no dyad (no polygon) to plot the dyad (edge) style falls back to a scalar",
    "max_order=0 is not driven (draw treats it as None, draw_hyperedges as 'no polygon'); max_order in {None, 1..max-1, max, max+2} where max = largest edge order of the network",
    "simplicial complex with max_order=k: polygons expected = maximal simplices (>= 3 nodes) of the sub-complex of simplices with <= k+1 nodes (what draw_simplices documents: 'SC without simplices larger than max_order')",
    "edge-stat style arguments for a SimplicialComplex are keyed by IDs the drawn (internal) hypergraph does not have; a ValueError 'must match the number of plotted elements' there is counted as a documented rejection",
    "barycentre of an empty edge is undefined and not demanded; pos=None draws are checked for counts only (positions are not observable)",
    "pca_transform takes positions, not a network, and is not a subject of the statement",
    "sequence cases: after an in-place edit the network must still be structurally valid (snap.inv) else the case is discarded and counted; if the edit removed the "
    "last edge with >= 2 nodes one is added back (drawing is only demanded under that precondition); explicit positions keep an entry for every label ever seen",
]
CASE_TIMEOUT = 120

LAYOUTS = (
    "random_layout", "pairwise_spring_layout", "barycenter_spring_layout", "weighted_barycenter_spring_layout",
    "circular_layout", "spiral_layout", "barycenter_kamada_kawai_layout", "bipartite_spring_layout",
)
STYLES = ("scalar", "per-id", "stat")
COLORS = ("red", "tab:blue", "#00aa55", "k", "orange", "purple", (0.2, 0.4, 0.6), (0.9, 0.1, 0.1, 0.5))
COLOR_STRS = ("red", "tab:blue", "#00aa55", "k", "orange", "purple")


def plan(tier):
    if tier == "quick":
        return {"draw": 150, "layout": 360, "sequence": 54}
    return {"draw": 24000, "layout": 64000, "sequence": 8000}


def floors(tier):
    """Fractions of the planned case counts (expected values are 1.5x - 3x higher; the shares that matter most are fixed by idx, not drawn)."""
    p = plan(tier)
    nd, nl, ns = p["draw"], p["layout"], p["sequence"]
    f = {f"fn:{n}": int(0.95 * nl) for n in LAYOUTS}
    f.update({
        "fn:edge_positions_from_barycenters": int(1.2 * nl),
        "barycenter:DiHypergraph": int(0.3 * nl),
        "barycenter:edges-checked": 4 * nl,
        "layout-has:n=0": nl // 40,
        "layout-has:n=1": nl // 20,
        "layout-has:edgeless": nl // 40,
        "fn:draw": int(2.5 * nd),
        "fn:draw_nodes": int(2.5 * nd),
        "fn:draw_hyperedges": int(1.6 * nd),
        "fn:draw_simplices": int(0.8 * nd),
        "draw:Hypergraph": int(0.55 * nd),
        "draw:SimplicialComplex": int(0.28 * nd),
        "geometry:node-offsets": 5 * nd,
        "geometry:lines": 5 * nd,
        "geometry:polygons": 5 * nd,
        "draw:pos=None": int(0.3 * nd),
        "container:list": int(0.6 * nd),
        "container:array": int(0.6 * nd),
        "container:dict": int(0.5 * nd),
        "draw-has:isolated": int(0.08 * nd),
        "draw-has:singleton": int(0.15 * nd),
        "draw-has:empty-edge": int(0.06 * nd),
        "draw-has:multi-edge": int(0.1 * nd),
    })
    f.update({
        "barycenter:sub-network-with-full-positions": int(0.25 * nl),
        "pos-extra-keys": int(0.25 * (nl + nd)),
        "pos-key-order-differs-from-H.nodes": int(0.35 * (nl + nd)),
        "seq:Hypergraph": int(0.6 * ns),
        "seq:SimplicialComplex": int(0.3 * ns),
        "seq:initial:pos=None": int(2.8 * ns),
        "seq:after-edit:pos=None": 5 * ns,
        "seq:after-edit:explicit-pos": 5 * ns,
        "seq:node-set-changed-count-unchanged": int(0.3 * ns),
        "seq:explicit-pos-has-removed-nodes": int(0.4 * ns),
    })
    for e in ("swap-node", "relabel", "remove-node"):
        f[f"edit:{e}"] = int(0.2 * ns)
    for e in ("rewire", "add-edge", "remove-edge"):
        f[f"edit:{e}"] = int(0.15 * ns)
    for e in ("add-simplex", "remove-simplex"):
        f[f"edit:{e}"] = int(0.08 * ns)
    for o in ORDERS:
        f[f"pos-order:{o}"] = int(0.15 * (nl + nd))
    for v in VALUE_KINDS:
        f[f"pos-values:{v}"] = int(0.06 * (nl + nd))
    for fam in FAMILIES:  # fixed by idx: 1/8 of the draw cases and of the barycentre dicts each ("coincident" falls back when no pair qualifies)
        f[f"pos-family:{fam}"] = int(0.08 * (nl + nd))
    for s in STYLES:
        f[f"style:{s}"] = int(2.5 * nd)
    for m in ("None", "<max", ">=max"):
        f[f"max_order:{m}"] = int(0.8 * nd)
    for k in LABEL_KINDS:  # each kind gets 1/10 of the cases, fixed by idx
        f[f"draw-labels:{k}"] = int(0.08 * nd)
        f[f"layout-labels:{k}"] = int(0.08 * nl)
        f[f"seq-labels:{k}"] = ns // 14
    # the numbers above are ~0.6-0.95 of what a run observes; every floor is set to half of that so that each keeps a >= 2x margin
    return {k: max(1, v // 2) for k, v in f.items()}


# ---------------------------------------------------------------------------------
# networks (built through the public API, one add_edge / add_simplex at a time)
# ---------------------------------------------------------------------------------
# Label kinds.  Probed on the unchanged tree: every layout and draw function (pos=None and explicit pos, both classes,
# also after convert_labels_to_integers / remove_node) handles all of them.  The kinds after "int" are the ones whose
# labels can EQUAL a phantom-node number of _augmented_projection (phantoms are numbered from max(int labels) + 1, or
# from 0 when no label is an `int` instance) or stress that numbering: integral floats, non-integral floats, negative
# ints only, numpy integers (not `int` instances), ints mixed with larger integral floats, very large ints.
LABEL_KINDS = ("str", "gap", "int", "intfloat", "float", "negint", "npint", "int+float", "bigint", "str+int")
_BIG = [10**12 + i for i in range(6)] + [2**70 + i for i in range(6)] + [-(10**15), 2**63, 2**63 - 1]


def _pool(rng, big=False, nkind=None):
    nkind = nkind or rng.choice(LABEL_KINDS)
    k = rng.randint(7, 10) if big else rng.randint(3, 8)
    if nkind in ops.NODE_KINDS:
        _, pool = ops.node_pool(rng, kind=nkind, k=k)
    elif nkind == "intfloat":
        pool = [float(i) for i in range(k)]
    elif nkind == "float":
        pool = rng.sample([x / 4 for x in range(-20, 80) if x % 4], k)
    elif nkind == "negint":
        pool = rng.sample(range(-40, 0), k)
    elif nkind == "npint":
        t = rng.choice((np.int64, np.int64, np.int32))
        pool = [t(i) for i in (range(k) if rng.random() < 0.7 else rng.sample(range(-5, 40), k))]
    elif nkind == "int+float":
        j = rng.randint(1, k - 1)
        pool = list(range(j)) + [float(i) for i in range(j, k)]
    elif nkind == "bigint":
        pool = rng.sample(_BIG, k)
    elif nkind == "str+int":  # labels that cannot be ordered against each other (networks are built edge by edge, never through a bulk format)
        j = rng.randint(1, k - 1)
        pool = rng.sample(["a", "b", "c", "d", "e", "n1", "n10", "n2", "x", "yy"], j) + rng.sample(range(-5, 40), k - j)
    else:  # pragma: no cover
        raise AssertionError(nkind)
    rng.shuffle(pool)  # insertion order != sorted order
    return nkind, pool


def gen_hypergraph(rng, need_big_edge, big=False, nkind=None):
    """Hypergraph with isolated nodes, singletons, empty edges, multi-edges; returns (H, label kind, features)."""
    nkind, pool = _pool(rng, big, nkind)
    H = xgi.Hypergraph()
    feats = set()
    if rng.random() < 0.6:
        H.add_nodes_from(rng.sample(pool, rng.randint(1, len(pool))))
    explicit = rng.random() < 0.5
    ekind, epool = ops.eid_pool(rng, k=10)
    m = rng.randint(1, 9 if big else 7)
    added = []
    for j in range(m):
        r = rng.random()
        if r < 0.07:
            mem = []
        elif r < 0.2:
            mem = rng.sample(pool, 1)
        elif r < 0.32 and added:
            mem = list(rng.choice(added))
            rng.shuffle(mem)
        else:
            mem = rng.sample(pool, min(len(pool), rng.choice((2, 2, 2, 3, 3, 3, 4, 4, 5))))
        added.append(mem)
        if explicit:
            H.add_edge(mem, idx=epool[j])
        else:
            H.add_edge(mem)
    if need_big_edge and not any(len(x) >= 2 for x in added):
        mem = rng.sample(pool, min(len(pool), rng.choice((2, 3))))
        added.append(mem)
        H.add_edge(mem, idx=epool[m]) if explicit else H.add_edge(mem)
    sets = [frozenset(x) for x in added]
    if any(len(x) == 0 for x in added):
        feats.add("empty-edge")
    if any(len(x) == 1 for x in added):
        feats.add("singleton")
    if any(c > 1 and len(s) >= 2 for s, c in Counter(sets).items()):
        feats.add("multi-edge")
    used = set().union(*sets) if sets else set()
    if any(n not in used for n in H.nodes):
        feats.add("isolated")
    return H, nkind, feats


def gen_complex(rng, need_big_edge, big=False, nkind=None):
    if nkind == "str+int":  # layouts and drawings of a complex rebuild it through from_max_simplices -> add_edges_from (member LISTS): a first
        nkind = "str"       # edge ['a', 1] is refused there by design ("Members cannot be specified as a string"), DESIGN 1.4
    nkind, pool = _pool(rng, big, nkind)
    S = xgi.SimplicialComplex()
    feats = set()
    if rng.random() < 0.6:
        S.add_nodes_from(rng.sample(pool, rng.randint(1, len(pool))))
    added = []
    for _ in range(rng.randint(1, 6 if big else 4)):
        r = rng.random()
        if r < 0.15:
            mem = rng.sample(pool, 1)
        else:
            mem = rng.sample(pool, min(len(pool), rng.choice((2, 2, 3, 3, 3, 4, 4, 5))))
        added.append(mem)
        S.add_simplex(mem)
    if need_big_edge and not any(len(x) >= 2 for x in added):
        mem = rng.sample(pool, min(len(pool), rng.choice((2, 3))))
        added.append(mem)
        S.add_simplex(mem)
    sets = [frozenset(x) for x in added]
    if any(len(x) == 1 for x in added):
        feats.add("singleton")
    used = set().union(*[s for s in sets if len(s) >= 2]) if any(len(s) >= 2 for s in sets) else set()
    if any(n not in used for n in S.nodes):
        feats.add("isolated")
    return S, nkind, feats


def gen_dihypergraph(rng, nkind=None):
    nkind, pool = _pool(rng, nkind=nkind)
    D = xgi.DiHypergraph()
    if rng.random() < 0.5:
        D.add_nodes_from(rng.sample(pool, rng.randint(1, len(pool))))
    for _ in range(rng.randint(1, 6)):
        t = ops.rand_members(rng, pool, 0, 3)
        h = ops.rand_members(rng, pool, 0, 3)
        if not t and not h and rng.random() < 0.7:
            h = rng.sample(pool, 1)
        D.add_edge((t, h))
    return D, nkind


def gen_tiny(rng, which, nkind=None):
    """0-node, 1-node and edgeless networks (layouts only)."""
    nkind, pool = _pool(rng, nkind=nkind)
    cls = xgi.Hypergraph if rng.random() < 0.7 else xgi.SimplicialComplex
    H = cls()
    how = ("n=0", "n=1", "edgeless", "n=1+singleton")[which % 4]
    if how == "n=1":
        H.add_node(pool[0])
    elif how == "edgeless":
        H.add_nodes_from(pool[: rng.randint(2, len(pool))])
    elif how == "n=1+singleton":
        if cls is xgi.Hypergraph:
            H.add_edge([pool[0]])
        else:
            H.add_simplex([pool[0]])
        how = "n=1"
    return H, nkind, how


def describe(net):
    if isinstance(net, xgi.DiHypergraph):
        mem = {e: (sorted(t, key=repr), sorted(h, key=repr)) for e, (t, h) in net.edges.dimembers(dtype=dict).items()}
    else:
        mem = {e: sorted(m, key=repr) for e, m in net.edges.members(dtype=dict).items()}
    return f"{type(net).__name__} nodes={list(net.nodes)} edges={mem}"


# ---------------------------------------------------------------------------------
# layouts
# ---------------------------------------------------------------------------------
def _center(rng):
    return None if rng.random() < 0.5 else [rng.choice((-3.5, 0.0, 2.0, 10.0)), rng.choice((-1.0, 0.5, 4.0))]


def _seed(rng):
    return None if rng.random() < 0.4 else rng.randint(0, 10**6)


def layout_call(rng, name, H):
    """Returns (options description, result of the real call)."""
    f = getattr(xgi, name)
    if name == "random_layout":
        kw = {"center": _center(rng), "seed": _seed(rng)}
    elif name in ("pairwise_spring_layout", "bipartite_spring_layout"):
        kw = {"seed": _seed(rng), "k": rng.choice((None, None, 0.3, 2.0))}
        r = rng.random()
        if r < 0.2:
            kw["iterations"] = rng.choice((1, 5, 80))
        elif r < 0.35:
            kw["scale"] = rng.choice((0.5, 3.0))
        elif r < 0.5:
            kw["center"] = (1.5, -2.0)
    elif name in ("barycenter_spring_layout", "weighted_barycenter_spring_layout"):
        kw = {"seed": _seed(rng), "k": rng.choice((None, None, 0.3, 2.0)), "return_phantom_graph": rng.random() < 0.3}
        if rng.random() < 0.2:
            kw["iterations"] = rng.choice((1, 5, 80))
    elif name == "circular_layout":
        kw = {"center": _center(rng), "radius": rng.choice((None, None, 0.5, 3.0))}
    elif name == "spiral_layout":
        kw = {"center": _center(rng), "resolution": rng.choice((0.35, 0.35, 0.1, 0.9)), "equidistant": rng.random() < 0.5}
    elif name == "barycenter_kamada_kawai_layout":
        kw = {"return_phantom_graph": rng.random() < 0.3}
        r = rng.random()
        if r < 0.2:
            kw["scale"] = rng.choice((0.5, 3.0))
        elif r < 0.35:
            kw["center"] = (1.5, -2.0)
    else:  # pragma: no cover
        raise AssertionError(name)
    kw = {k: v for k, v in kw.items() if not (v is None and rng.random() < 0.5)}  # explicit None and omitted both occur
    res = f(H, **kw)
    if kw.get("return_phantom_graph"):
        res = res[0] if isinstance(res, tuple) and len(res) == 2 else ("<not a (pos, graph) pair>", res)
    return kw, res


def bad_positions(res, ids):
    """None when `res` is a dict with exactly one finite 2-vector per id, else (clause, text)."""
    ids = list(ids)
    if not isinstance(res, dict):
        return "not-a-dict", f"returned {type(res).__name__} instead of a dict of positions"
    got, want = set(res), set(ids)
    if got != want or len(res) != len(ids):
        return "keys-wrong", f"missing={sorted(want - got, key=repr)} extra={sorted(got - want, key=repr)}"
    for k, v in res.items():
        try:
            a = np.asarray(v, dtype=float)
        except Exception:
            return "position-not-finite-2d", f"position of {k!r} is not numeric: {v!r}"
        if a.shape != (2,) or not np.isfinite(a).all():
            return "position-not-finite-2d", f"position of {k!r} is {v!r}"
    return None


def ncls(H):
    n = H.num_nodes
    return "n=0" if n == 0 else "n=1" if n == 1 else "n>=2"


def check_layouts(mon, rng, H, desc, ctx="", seen=None):
    """All network-taking layouts on H; returns one of the valid results (or None).

    `ctx` marks the calls after an in-place edit of the same object; a clause the same function already failed
    before the edit (recorded in `seen`) is the same defect and is not reported again under the ctx key.
    """
    nodes = list(H.nodes)
    last = None
    seen = set() if seen is None else seen

    def fire(name, clause, what):
        if ctx and (name, clause) in seen:
            mon.note(f"subsumed-under-initial:{clause}")
            return
        seen.add((name, clause))
        mon.fail(f"{name}|{ctx}{ncls(H)}|{clause}", what, desc)

    for name in LAYOUTS:
        kw, res = layout_call(rng, name, H)
        mon.note(f"fn:{name}")
        mon.ev()
        if nodes:
            mon.nontrivial((name, desc, sorted(kw.items())))
        if name == "bipartite_spring_layout":
            if not (isinstance(res, tuple) and len(res) == 2):
                fire(name, "not-a-pair", f"{name}(H, {kw}) returned {type(res).__name__}, not (node_pos, edge_pos)")
                continue
            bad = bad_positions(res[0], nodes)
            if bad:
                fire(name, f"node-{bad[0]}", f"{name}(H, {kw}) node positions: {bad[1]}")
            bad = bad_positions(res[1], list(H.edges))
            if bad:
                fire(name, f"edge-{bad[0]}", f"{name}(H, {kw}) edge positions: {bad[1]}")
            continue
        bad = bad_positions(res, nodes)
        if bad:
            fire(name, bad[0], f"{name}(H, {kw}): {bad[1]}")
        elif rng.random() < 0.3:
            last = res
    return last


def case_layout(mon, rng, idx):
    np.random.seed(rng.randrange(2**32))
    _random.seed(rng.randrange(2**32))
    r = rng.random()
    kind = LABEL_KINDS[idx % len(LABEL_KINDS)]  # fixed by idx: the floors do not depend on the seed
    if idx % 8 == 0:  # deterministic share, so that the floors do not depend on the seed
        H, nkind, how = gen_tiny(rng, idx // 8, kind)
        mon.note(f"layout-has:{how}")
    elif r < 0.6:
        H, nkind, feats = gen_hypergraph(rng, need_big_edge=False, big=rng.random() < 0.2, nkind=kind)
        for x in feats:
            mon.note(f"layout-has:{x}")
    else:
        H, nkind, feats = gen_complex(rng, need_big_edge=False, big=rng.random() < 0.2, nkind=kind)
        for x in feats:
            mon.note(f"layout-has:{x}")
    if snap.inv(H) != []:
        mon.note("discarded:invalid-input")
        return
    cls = type(H).__name__
    mon.note(f"layout:{cls}")
    mon.note(f"layout-labels:{nkind}")
    desc = describe(H)
    nodes = list(H.nodes)
    last = check_layouts(mon, rng, H, desc)
    # barycentres: on a layout's own output (keys re-ordered) or on random positions; the dict's key order, extra keys
    # and value types vary deterministically with idx
    order, vkind = ORDERS[idx % 4], VALUE_KINDS[(idx // 4) % len(VALUE_KINDS)]
    extra = pick_extra(rng, nkind, nodes) if idx % 2 else ()
    if last is None or rng.random() < 0.6:
        node_pos, _ = rand_pos(rng, nodes, mon, extra=extra, order=order, vkind=vkind, family=FAMILIES[(idx // 2) % len(FAMILIES)], net=H)
        src = "random-pos"
    else:
        node_pos, src = reorder(rng, last, order, mon), "layout-pos"
    check_barycenters(mon, H, node_pos, src, desc)
    # the positions of the full network re-used for a sub-network (nodes removed from a copy / subhypergraph)
    if len(nodes) >= 3 and idx % 2 == 0:
        drop = rng.sample(nodes, rng.randint(1, 2))
        if isinstance(H, xgi.SimplicialComplex) or rng.random() < 0.5:
            sub = H.copy()
            sub.remove_nodes_from(drop)
            how = "copy+remove_nodes_from"
        else:
            sub = xgi.subhypergraph(H, nodes=[n for n in nodes if n not in drop]).copy()
            how = "subhypergraph"
        if snap.inv(sub) != []:
            mon.note("discarded:invalid-input")
        else:
            mon.note("barycenter:sub-network-with-full-positions")
            check_barycenters(mon, sub, node_pos, f"{src},full-network-positions", f"{describe(sub)}  # {how} of {desc} without {drop}")
    if idx % 3 == 0:
        D, dkind = gen_dihypergraph(rng, LABEL_KINDS[(idx // 3) % len(LABEL_KINDS)])
        if snap.inv(D) != []:
            mon.note("discarded:invalid-input")
        else:
            node_pos, _ = rand_pos(rng, list(D.nodes), mon, extra=pick_extra(rng, dkind, list(D.nodes)) if idx % 2 else (), order=ORDERS[(idx // 3) % 4],
                                   family=FAMILIES[(idx // 3) % len(FAMILIES)], net=D)
            mon.note("barycenter:DiHypergraph")
            check_barycenters(mon, D, node_pos, "random-pos", describe(D))
    mon.sample(f"layout: {desc}")


def check_barycenters(mon, net, node_pos, src, desc):
    if isinstance(net, xgi.DiHypergraph):
        mem = {e: set(t) | set(h) for e, (t, h) in net.edges.dimembers(dtype=dict).items()}
    else:
        mem = {e: set(m) for e, m in net.edges.members(dtype=dict).items()}
    res = xgi.edge_positions_from_barycenters(net, node_pos)
    mon.note("fn:edge_positions_from_barycenters")
    mon.ev()
    if mem:
        mon.nontrivial(("barycenters", desc, src, repr(sorted((repr(k), tuple(np.asarray(v, dtype=float))) for k, v in node_pos.items()))))
    key = f"edge_positions_from_barycenters|{'directed' if isinstance(net, xgi.DiHypergraph) else 'undirected'}|"
    if not isinstance(res, dict):
        mon.fail(key + "not-a-dict", f"returned {type(res).__name__}", desc)
        return
    nonempty = {e for e, m in mem.items() if m}
    if not (nonempty <= set(res) <= set(mem)):
        mon.fail(key + "keys-wrong", f"keys {sorted(res, key=repr)} but edges are {sorted(mem, key=repr)}", desc)
        return
    mag = max([float(np.max(np.abs(np.asarray(v, dtype=float)))) for v in node_pos.values()] or [1.0]) or 1.0  # tolerance relative to the magnitudes
    for e in nonempty:
        want = np.mean([np.asarray(node_pos[n], dtype=float) for n in sorted(mem[e], key=repr)], axis=0)
        mon.note("barycenter:edges-checked")
        try:
            got = np.asarray(res[e], dtype=float)
        except Exception:
            got = None
        if got is None or got.shape != (2,) or not np.allclose(got, want, rtol=1e-5, atol=1e-6 * mag):
            mon.fail(key + "not-the-mean-of-member-positions", f"edge {e!r} members {sorted(mem[e], key=repr)}: got {res[e]!r}, mean of member positions is {want!r}",
                     f"{desc}\nnode_pos={node_pos!r}")
            return


# ---------------------------------------------------------------------------------
# drawings
# ---------------------------------------------------------------------------------
ORDERS = ("node-order", "shuffled", "sorted", "reversed")
VALUE_KINDS = ("tuple", "list", "array-f64", "array-f32", "array-int", "list-int")
EXTRA = {
    "int": (97, 98, 99), "gap": (51, -9, 77), "str": ("zz9", "new", "q7"), "intfloat": (97.0, 98.0, 99.0), "float": (97.5, 98.25, 99.75),
    "negint": (-97, -98, -99), "npint": (np.int64(97), np.int64(98), np.int32(99)), "int+float": (97.0, 98, 99.0), "bigint": (10**13 + 1, 2**71, -(10**16)),
    "str+int": ("zz9", 98, "q7"),
}


def pick_extra(rng, nkind, nodes):
    """1-2 labels of the network's label kind that are not nodes of it."""
    cands = [x for x in EXTRA[nkind] if x not in nodes]
    return rng.sample(cands, rng.randint(1, min(2, len(cands)))) if cands else []


def _ordered(rng, keys, nodes, order):
    keys = list(keys)
    if order == "shuffled":
        rng.shuffle(keys)
    elif order == "sorted":
        try:
            keys.sort()
        except TypeError:
            keys.sort(key=repr)
    elif order == "reversed":
        keys.reverse()
    return keys


def reorder(rng, pos, order, mon=None):
    """The same position dict with its keys in another order."""
    if mon:
        mon.note(f"pos-order:{order}")
    return {k: pos[k] for k in _ordered(rng, pos, None, order)}


def _value(x, y, vkind):
    if vkind == "tuple":
        return (x, y)
    if vkind in ("list", "list-int"):
        return [x, y]
    return np.array([x, y], dtype={"array-f64": np.float64, "array-f32": np.float32, "array-int": np.int64}[vkind])


FAMILIES = ("general", "grid", "collinear", "regular-polygon", "symmetric", "coincident", "huge", "tiny")


def _base_xy(rng, keys, family, net):
    """Coordinates before scaling, {key: (x, y)}; returns (xy, exact) - exact: all values are small integers."""
    K = len(keys)
    if family == "grid":  # few distinct x and y values: many corners on a common ray from an edge's centroid
        side = int(np.ceil(np.sqrt(K))) + rng.randint(0, 1)
        cells = rng.sample([(i, j) for i in range(side) for j in range(side)], K)
        ox, oy = rng.randint(-3, 3), rng.randint(-3, 3)
        return {k: (ox + i, oy + j) for k, (i, j) in zip(keys, cells)}, True
    if family == "collinear":  # every edge has all its members on one line; centroids fall on members
        ts = rng.sample(range(-8, 9), K)
        dx, dy = rng.choice(((1, 0), (0, 1), (1, 1), (1, -1), (2, 1), (-1, 3)))
        ox, oy = rng.randint(-5, 5), rng.randint(-5, 5)
        return {k: (ox + t * dx, oy + t * dy) for k, t in zip(keys, ts)}, True
    if family == "regular-polygon":  # equal angular gaps around the common centre, optionally one key at the centre
        cx, cy = rng.randint(-4, 4), rng.randint(-4, 4)
        ks = list(keys)
        rng.shuffle(ks)
        xy = {}
        if K >= 4 and rng.random() < 0.5:
            xy[ks.pop()] = (cx, cy)
        m = len(ks)
        R = rng.choice((1, 2, 5))
        if m == 4:
            pts, exact = [(R, R), (-R, R), (-R, -R), (R, -R)], True
        else:
            ph = rng.choice((0.0, 0.5, 0.25)) * np.pi
            pts, exact = [(R * float(np.cos(ph + 2 * np.pi * i / m)), R * float(np.sin(ph + 2 * np.pi * i / m))) for i in range(m)], False
        for k, (x, y) in zip(ks, pts):
            xy[k] = (cx + x, cy + y)
        return xy, exact
    if family == "symmetric":  # pairs of keys mirror each other through a common centre; an odd key sits on it
        cx, cy = rng.randint(-4, 4), rng.randint(-4, 4)
        half = [(i, j) for i in range(0, 5) for j in range(-4, 5) if (i, j) > (0, 0)]
        ds = rng.sample(half, (K + 1) // 2)
        ks = list(keys)
        rng.shuffle(ks)
        xy = {}
        for q, k in enumerate(ks):
            d = ds[q // 2]
            if q == K - 1 and K % 2:
                xy[k] = (cx, cy)
            else:
                s = 1 if q % 2 == 0 else -1
                xy[k] = (cx + s * d[0], cy + s * d[1])
        return xy, True
    vals = rng.sample(range(-60, 400), 2 * K)
    xy = {k: (vals[2 * i], vals[2 * i + 1]) for i, k in enumerate(keys)}
    if family == "coincident" and net is not None:
        # two keys at exactly the same point, never two members of one edge (a polygon / line is identified by its
        # set of positions, so coincident members of one edge would make the expected vertex set ambiguous)
        mem = [set(m) for m in net.edges.members()]
        pairs = [(u, v) for i, u in enumerate(keys) for v in keys[i + 1:] if not any(u in m and v in m for m in mem)]
        if pairs:
            for u, v in rng.sample(pairs, min(len(pairs), rng.randint(1, 2))):
                xy[v] = xy[u]
        else:
            return xy, None  # no such pair: falls back to general position
    return xy, True


def rand_pos(rng, nodes, mon=None, extra=(), order=None, vkind=None, family="general", net=None):
    """Positions for `nodes` (+ `extra` keys that are no nodes); returns (pos, unit).

    family "general": all 2n coordinates pairwise distinct.  The other families are degenerate on purpose (integer
    grid, all points on one line, regular polygon around a centre, mirror pairs, coincident positions of keys that
    share no edge, huge / tiny magnitudes).  Except for "coincident", distinct keys still have distinct points.
    The dict's key order is `order` (not necessarily the order of H.nodes); values are tuples / lists / arrays of
    float64, float32 or int, with scales that are exact in that type.  `unit` is the scale: drawn points are matched
    to positions after division by it.
    """
    keys = list(nodes) + [x for x in extra if x not in nodes]
    vkind = vkind or rng.choice(VALUE_KINDS)
    order = order or rng.choice(ORDERS)
    xy, exact = _base_xy(rng, keys, family, net)
    if exact is None:
        family, exact = "general", True
    ints = vkind in ("array-int", "list-int")
    if family == "huge":
        scale = 2**30
    elif family == "tiny":
        scale = 2.0**-20
    elif family in ("general", "coincident"):
        scale = 1 if ints else rng.choice((1.0, 0.5, 0.125)) if vkind == "array-f32" else rng.choice((1.0, 0.5, 0.125, 0.01, 3.7))
    else:
        scale = rng.choice((1, 2, 3)) if ints else rng.choice((1.0, 0.5, 0.125, 3.0))
    if (not exact or scale != int(scale)) and ints:
        vkind = "list" if vkind == "list-int" else "array-f64"  # these coordinates are no integers
    if not exact and vkind == "array-f32":
        vkind = "array-f64"
    pos = {k: _value(xy[k][0] * scale, xy[k][1] * scale, vkind) for k in _ordered(rng, keys, nodes, order)}
    if mon:
        mon.note(f"pos-family:{family}")
        mon.note(f"pos-order:{order}")
        mon.note(f"pos-values:{vkind}")
        if len(keys) > len(nodes):
            mon.note("pos-extra-keys")
        if list(pos)[: len(nodes)] != list(nodes):
            mon.note("pos-key-order-differs-from-H.nodes")
    return pos, float(scale)


def expected(net, mo):
    """(multiset of two-node edges, multiset of polygon member sets) by brute force from members()."""
    mem = [frozenset(m) for m in net.edges.members(dtype=dict).values()]
    top = max(len(m) for m in mem)
    cap = top if mo is None else mo + 1
    if isinstance(net, xgi.SimplicialComplex):
        skel = {m for m in mem if len(m) <= cap}
        polys = Counter(m for m in skel if len(m) >= 3 and not any(m < o for o in skel))
        lines = Counter(m for m in set(mem) if len(m) == 2)
    else:
        lines = Counter(m for m in mem if len(m) == 2)
        polys = Counter(m for m in mem if 3 <= len(m) <= cap)
    return lines, polys


def _wrap(container, ids, values):
    if container == "list":
        return list(values)
    if container == "array":
        return np.array(values)
    return dict(zip(ids, values))


def _colors_or_floats(rng, k):
    if rng.random() < 0.5:
        return [rng.choice(COLOR_STRS) for _ in range(k)]
    return [round(rng.uniform(0.0, 9.0), 3) for _ in range(k)]


def node_style(rng, net, shape, mon):
    nodes = list(net.nodes)
    n = len(nodes)
    if shape == "scalar":
        kw = {"node_fc": rng.choice(COLORS), "node_ec": rng.choice(COLORS), "node_lw": rng.choice((0, 1, 2.5)),
              "node_size": rng.choice((3, 7, 12.5)), "node_shape": rng.choice("os^")}
        return {k: v for k, v in kw.items() if rng.random() < 0.7}
    if shape == "per-id":
        c = rng.choice(("list", "array", "dict"))
        mon.note(f"container:{c}")
        kw = {}
        if rng.random() < 0.8:
            kw["node_fc"] = _wrap(c, nodes, _colors_or_floats(rng, n))
        if rng.random() < 0.8:
            kw["node_size"] = _wrap(c, nodes, [rng.randint(1, 25) for _ in range(n)] if rng.random() < 0.75 else [rng.randint(1, 25)] * n)  # also: all values equal
        if rng.random() < 0.6:
            kw["node_lw"] = _wrap(c, nodes, [round(rng.uniform(0, 4), 2) for _ in range(n)] if rng.random() < 0.75 else [round(rng.uniform(0.5, 4), 2)] * n)
        if rng.random() < 0.4:
            kw["node_ec"] = [rng.choice(COLOR_STRS) for _ in range(n)]
        return kw
    kw = {}
    if rng.random() < 0.8:
        kw["node_fc"] = net.nodes.degree
    if rng.random() < 0.8:
        kw["node_size"] = net.nodes.degree
    if rng.random() < 0.6:
        kw["node_lw"] = net.nodes.degree
    return kw


def edge_style(rng, net, shape, mo, mon):
    """Style arguments of draw_hyperedges / draw_simplices.  Returns (kwargs, may_reject)."""
    is_sc = isinstance(net, xgi.SimplicialComplex)
    lines, polys = expected(net, mo)
    if is_sc:
        dy_ids, pl_ids = list(range(sum(lines.values()))), list(range(sum(polys.values())))
    else:
        mem = net.edges.members(dtype=dict)
        top = max(len(m) for m in mem.values())
        cap = top if mo is None else mo + 1
        dy_ids = [e for e, m in mem.items() if len(m) == 2]
        pl_ids = [e for e, m in mem.items() if 3 <= len(m) <= cap]
        all_ids = list(mem)
    if shape == "scalar":
        kw = {"dyad_color": rng.choice(COLORS), "dyad_lw": rng.choice((0.5, 1.5, 4)), "dyad_style": rng.choice(("solid", "dashed", ":")),
              "edge_fc": rng.choice(COLORS), "edge_ec": rng.choice(COLORS), "alpha": rng.choice((0.2, 1.0))}
        return {k: v for k, v in kw.items() if rng.random() < 0.6}, False
    if shape == "per-id":
        c = rng.choice(("list", "array", "dict"))
        if is_sc and c == "dict":
            c = rng.choice(("list", "array"))  # the drawn simplices have no user-visible IDs
        mon.note(f"container:{c}")
        kw = {}
        if dy_ids:
            if rng.random() < 0.7:
                if c == "dict" and rng.random() < 0.5:  # a dict over all edges: the code selects the dyads
                    kw["dyad_color"] = dict(zip(all_ids, _colors_or_floats(rng, len(all_ids))))
                else:
                    kw["dyad_color"] = _wrap(c, dy_ids, _colors_or_floats(rng, len(dy_ids)))
            if rng.random() < 0.7:
                kw["dyad_lw"] = _wrap(c, dy_ids, [round(rng.uniform(0.5, 6), 2) for _ in dy_ids] if rng.random() < 0.75 else [round(rng.uniform(0.5, 6), 2)] * len(dy_ids))
        if pl_ids:
            for arg in ("edge_fc", "edge_ec"):
                if rng.random() < 0.7:
                    if c == "dict" and rng.random() < 0.5:
                        kw[arg] = dict(zip(all_ids, _colors_or_floats(rng, len(all_ids))))
                    else:
                        kw[arg] = _wrap(c, pl_ids, _colors_or_floats(rng, len(pl_ids)))
        return kw, False
    # stat-valued
    kw = {}
    if is_sc and rng.random() < 0.5:
        return kw, False  # defaults: the code colours by the size stat of the drawn simplices itself
    if rng.random() < 0.7:
        kw["dyad_color"] = net.edges.size
    if dy_ids and rng.random() < 0.7:
        kw["dyad_lw"] = net.edges.size if rng.random() < 0.5 else net.edges.filterby("order", 1).size
    if rng.random() < 0.7:
        kw["edge_fc"] = rng.choice((net.edges.size, net.edges.order))
    if rng.random() < 0.7:
        kw["edge_ec"] = rng.choice((net.edges.size, net.edges.order))
    return kw, is_sc


def mo_class(net, mo):
    if mo is None:
        return "None"
    top = max(len(m) for m in net.edges.members()) - 1
    return "<max" if mo < top else ">=max"


def pick_mo(rng, net):
    top = max(len(m) for m in net.edges.members()) - 1
    r = rng.random()
    if r < 0.34:
        return None
    if r < 0.67 and top >= 2:
        return rng.randint(1, top - 1)
    return rng.choice((top, top, top + 2))


class Geo:
    """Reads the returned collections back into node IDs and reports.

    Keys: "<function>|<trigger>|<clause>".  The trigger of a polygon clause says whether max_order truncates;
    markers and lines do not depend on it.  A clause that a component function (draw_nodes, draw_hyperedges,
    draw_simplices) already failed for the same network, style shape and max_order is not reported again
    under `draw`, which only delegates to them.
    """

    def __init__(self, mon, net, pos, desc, fn, trunc, failed, unit=1.0):
        self.mon, self.net, self.pos, self.desc = mon, net, pos, desc
        self.fn, self.trunc, self.failed, self.unit = fn, trunc, failed, unit
        self.nodes = list(net.nodes)
        self.lut = {}  # point -> keys of pos at that point (more than one only in the "coincident" family)
        for v, p in (pos or {}).items():
            self.lut.setdefault(self.pk(p), []).append(v)

    def pk(self, p):
        return (round(float(p[0]) / self.unit, 6), round(float(p[1]) / self.unit, 6))

    def where(self, members):
        """The set of points of a set of nodes: lines and polygons are compared as sets of positions."""
        return frozenset(self.pk(self.pos[n]) for n in members)

    def names(self, counter):
        return sorted(((sorted(("=".join(repr(x) for x in self.lut.get(k, ["?"])) for k in pts)), c) for pts, c in counter.items()), key=repr)

    def wit(self, call):
        return f"{call}\n{self.desc}\npos={self.pos!r}"

    def fire(self, trig, clause, what, call):
        if self.fn == "draw" and clause in self.failed:
            self.mon.note(f"subsumed-under-component:{clause}")
            return False
        self.failed.add(clause)
        self.mon.fail(f"{self.fn}|{trig}|{clause}", what, self.wit(call))
        return False

    def unpack(self, res, shape, call):
        """Checks the documented return structure; returns the collections or None."""
        ok = isinstance(res, tuple) and len(res) == 2
        if ok and shape == 1:
            return (res[1],)
        if ok and isinstance(res[1], tuple) and len(res[1]) == shape:
            return res[1]
        self.fire("any", "return-structure-wrong", f"{self.fn} returned {res!r}", call)
        return None

    def pts(self, arr):
        """Point keys of drawn points; (None, point) when a point is no position of the dict."""
        out = []
        for p in arr:
            k = self.pk(p)
            if k not in self.lut:
                return None, p
            out.append(k)
        return out, None

    def nodes_ok(self, coll, call):
        self.mon.note("geometry:node-offsets")
        try:
            off = np.asarray(coll.get_offsets(), dtype=float)
        except Exception as exc:
            return self.fire("any", "no-node-collection", f"returned node collection {coll!r} has no offsets ({exc!r})", call)
        n = len(self.nodes)
        if off.shape != (n, 2):
            return self.fire("any", "marker-count-wrong", f"{off.shape[0] if off.ndim else 0} markers for {n} nodes", call)
        # a marker whose size or outline width is NaN / infinite is not rendered at all
        try:
            sz, lw = np.asarray(coll.get_sizes(), dtype=float), np.asarray(coll.get_linewidths(), dtype=float)
        except Exception:
            sz = lw = np.zeros(0)
        self.mon.note("geometry:marker-sizes-finite")
        if not (np.isfinite(sz).all() and np.isfinite(lw).all()):
            return self.fire("any", "marker-not-rendered-nonfinite-size", f"marker sizes {sz.tolist()} / outline widths {lw.tolist()} for nodes {self.nodes}", call)
        if self.pos is None:
            return True
        want = np.asarray([np.asarray(self.pos[v], dtype=float) for v in self.nodes])
        if not np.allclose(off, want, rtol=0, atol=1e-6 * self.unit):
            got, _ = self.pts(off)
            return self.fire("any", "markers-not-at-positions-in-node-order",
                             f"markers are at the positions of {[self.lut[k] for k in got] if got is not None else off.tolist()} but H.nodes is {self.nodes}", call)
        return True

    def lines_ok(self, coll, lines, call):
        self.mon.note("geometry:lines")
        try:
            segs = [np.asarray(s, dtype=float) for s in coll.get_segments()]
        except Exception as exc:
            return self.fire("any", "no-line-collection", f"returned dyad collection {coll!r} has no segments ({exc!r})", call)
        try:
            lw = np.asarray(coll.get_linewidths(), dtype=float)
        except Exception:
            lw = np.zeros(0)
        if not np.isfinite(lw).all():
            return self.fire("any", "line-not-rendered-nonfinite-width", f"line widths {lw.tolist()}", call)
        if self.pos is None:
            if len(segs) != sum(lines.values()):
                return self.fire("any", "line-multiset-wrong", f"{len(segs)} lines for {sum(lines.values())} two-node edges", call)
            return True
        got = Counter()
        for s in segs:
            if s.shape != (2, 2):
                return self.fire("any", "line-multiset-wrong", f"a line with {s.shape[0]} points: {s.tolist()}", call)
            ends, miss = self.pts(s)
            if ends is None:
                return self.fire("any", "line-endpoint-not-a-node-position", f"endpoint {miss} is no node's position", call)
            got[frozenset(ends)] += 1
        want = Counter()
        for m, c in lines.items():
            want[self.where(m)] += c
        if got != want:
            return self.fire("any", "line-multiset-wrong", f"lines join {self.names(got)} but the two-node edges are {_fmt(lines)}", call)
        return True

    def polys_ok(self, coll, polys, call):
        self.mon.note("geometry:polygons")
        try:
            paths = list(coll.get_paths())
        except Exception as exc:
            return self.fire(self.trunc, "no-patch-collection", f"returned edge collection {coll!r} has no paths ({exc!r})", call)
        got = Counter()
        sizes = Counter()
        for p in paths:
            v = np.asarray(p.vertices, dtype=float)
            if len(v) >= 2 and np.allclose(v[0], v[-1], rtol=0, atol=1e-9 * self.unit):
                v = v[:-1]  # closing vertex of a closed polygon (members of one edge never coincide)
            sizes[len(v)] += 1
            if self.pos is None:
                continue
            vs, miss = self.pts(v)
            if vs is None:
                return self.fire(self.trunc, "polygon-vertex-not-a-node-position", f"vertex {miss} is no node's position", call)
            got[frozenset(vs)] += 1
        if self.pos is None:
            want_sizes = Counter()
            for m, c in polys.items():
                want_sizes[len(m)] += c
            if sizes != want_sizes:
                return self.fire(self.trunc, "polygon-set-wrong", f"polygons with vertex counts {dict(sizes)} but expected {dict(want_sizes)}", call)
            return True
        want = Counter()
        for m, c in polys.items():
            want[self.where(m)] += c
        if got != want:
            return self.fire(self.trunc, "polygon-set-wrong", f"polygon vertex sets are the positions of {self.names(got)} but expected the members {_fmt(polys)}", call)
        return True


def _fmt(counter):
    return sorted(((sorted(m, key=repr), c) for m, c in counter.items()), key=repr)


def case_draw(mon, rng, idx):
    np.random.seed(rng.randrange(2**32))
    _random.seed(rng.randrange(2**32))
    is_sc = idx % 3 == 0
    big = rng.random() < 0.15
    net, nkind, feats = (gen_complex if is_sc else gen_hypergraph)(rng, need_big_edge=True, big=big, nkind=LABEL_KINDS[(idx // 3) % len(LABEL_KINDS)])
    if snap.inv(net) != []:
        mon.note("discarded:invalid-input")
        return
    cls = type(net).__name__
    mon.note(f"draw:{cls}")
    mon.note(f"draw-labels:{nkind}")
    for x in feats:
        mon.note(f"draw-has:{x}")
    desc = describe(net)
    nodes = list(net.nodes)
    pos, unit = rand_pos(rng, nodes, mon, extra=pick_extra(rng, nkind, nodes) if idx % 2 else (), order=ORDERS[(idx // 3) % 4],
                         vkind=VALUE_KINDS[(idx // 12) % len(VALUE_KINDS)], family=FAMILIES[idx % len(FAMILIES)], net=net)
    mon.note("draw:explicit-pos-variant")
    edge_fn = "draw_simplices" if is_sc else "draw_hyperedges"
    fig, ax = plt.subplots()
    try:
        for shape in STYLES:
            mo = pick_mo(rng, net)  # one max_order per style shape: the components and draw see the same one
            trunc = "max_order<max" if mo_class(net, mo) == "<max" else "max_order=None-or->=max"
            lines, polys = expected(net, mo)
            failed = set()  # clauses a component already failed in this iteration: the same clause under draw is the same defect
            use_pos = None if rng.random() < 0.08 else pos  # None: the default layout; only counts are observable then
            for fn in ("draw_nodes", edge_fn, "draw"):
                ax.clear()
                if use_pos is None:
                    mon.note("draw:pos=None")
                geo = Geo(mon, net, use_pos, desc, fn, trunc, failed, unit)
                kw = {}
                reject_ok = False
                if fn != "draw_nodes":
                    mon.note(f"max_order:{mo_class(net, mo)}")
                    if mo is not None or rng.random() < 0.3:
                        kw["max_order"] = mo
                    ekw, reject_ok = edge_style(rng, net, shape, mo, mon)
                    kw.update(ekw)
                if fn != edge_fn:
                    kw.update(node_style(rng, net, shape, mon))
                if rng.random() < 0.2:
                    kw["rescale_sizes"] = False
                if rng.random() < 0.8:
                    kw["ax"] = ax  # else: the current axes (the same ones)
                call = f"xgi.{fn}(net, pos, {', '.join(f'{k}={_short(v)}' for k, v in kw.items() if k != 'ax')})  # style shape: {shape}"
                mon.note(f"fn:{fn}")
                mon.note(f"style:{shape}")
                mon.ev()
                mon.nontrivial((fn, desc, repr(use_pos), call))
                try:
                    res = getattr(xgi, fn)(net, use_pos, **kw)
                except ValueError as exc:
                    if reject_ok and "must match the number of plotted elements" in str(exc):
                        mon.note("rejected:sc-edge-stat-length")
                        continue
                    raise
                if fn == "draw_nodes":
                    colls = geo.unpack(res, 1, call)
                    if colls:
                        geo.nodes_ok(colls[0], call)
                elif fn == "draw":
                    colls = geo.unpack(res, 3, call)
                    if colls:
                        geo.nodes_ok(colls[0], call)
                        geo.lines_ok(colls[1], lines, call)
                        geo.polys_ok(colls[2], polys, call)
                else:
                    colls = geo.unpack(res, 2, call)
                    if colls:
                        geo.lines_ok(colls[0], lines, call)
                        geo.polys_ok(colls[1], polys, call)
    finally:
        plt.close("all")
    mon.sample(f"draw: {desc} pos={ {k: tuple(np.asarray(v, dtype=float)) for k, v in pos.items()} }")


# ---------------------------------------------------------------------------------
# same-object sequences: draw / lay out, edit the network in place, draw / lay out again
# ---------------------------------------------------------------------------------
SEQ_EDITS = {
    "Hypergraph": ("swap-node", "relabel", "rewire", "add-edge", "remove-edge", "remove-node"),
    "SimplicialComplex": ("swap-node", "relabel", "add-simplex", "remove-simplex", "remove-node"),
}
FRESH = {
    "int": list(range(20, 60)), "gap": list(range(60, 120)), "str": [f"s{i}" for i in range(40)], "intfloat": [float(i) for i in range(20, 60)],
    "float": [i + 0.5 for i in range(20, 60)], "negint": list(range(-100, -60)), "npint": [np.int64(i) for i in range(40, 80)],
    "int+float": [float(i) for i in range(20, 60)], "bigint": [10**12 + 1000 + i for i in range(40)],
    "str+int": [f"s{i}" if i % 2 else 100 + i for i in range(40)],
}


def _fresh(rng, nkind, net, used):
    x = rng.choice([c for c in FRESH[nkind] if c not in used and c not in net.nodes])
    used.add(x)
    return x


def apply_edit(rng, net, edit, nkind, used):
    """One in-place edit through the public API; returns its description."""
    is_sc = isinstance(net, xgi.SimplicialComplex)
    nodes = list(net.nodes)
    if edit == "swap-node":  # the node set changes, the node count does not
        n = rng.choice(nodes)
        net.remove_node(n)
        new = _fresh(rng, nkind, net, used)
        rest = list(net.nodes)
        if rest and rng.random() < 0.6:
            mem = [new] + rng.sample(rest, min(len(rest), rng.randint(1, 2)))
            net.add_simplex(mem) if is_sc else net.add_edge(mem)
            return f"remove_node({n!r}); add {'simplex' if is_sc else 'edge'} {mem!r}"
        net.add_node(new)
        return f"remove_node({n!r}); add_node({new!r})"
    if edit == "relabel":
        xgi.convert_labels_to_integers(net, in_place=True)
        return "xgi.convert_labels_to_integers(net, in_place=True)"
    if edit == "rewire":  # node and edge ID sets stay as they are
        mem = net.edges.members(dtype=dict)
        e = rng.choice(list(mem))
        outside = [n for n in nodes if n not in mem[e]]
        if outside and (rng.random() < 0.5 or len(mem[e]) == 0):
            n = rng.choice(outside)
            net.add_node_to_edge(e, n)
            return f"add_node_to_edge({e!r}, {n!r})"
        if mem[e]:
            n = rng.choice(sorted(mem[e], key=repr))
            net.remove_node_from_edge(e, n, remove_empty=False)
            return f"remove_node_from_edge({e!r}, {n!r}, remove_empty=False)"
        return "no-op"
    if edit in ("add-edge", "add-simplex"):
        mem = rng.sample(nodes, min(len(nodes), rng.randint(2, 4)))
        if rng.random() < 0.4:
            mem.append(_fresh(rng, nkind, net, used))
        net.add_simplex(mem) if is_sc else net.add_edge(mem)
        return f"add {'simplex' if is_sc else 'edge'} {mem!r}"
    if edit in ("remove-edge", "remove-simplex"):
        e = rng.choice(list(net.edges))
        net.remove_simplex_id(e) if is_sc else net.remove_edge(e)
        return f"remove {'simplex' if is_sc else 'edge'} {e!r}"
    if edit == "remove-node":
        n = rng.choice(nodes)
        net.remove_node(n)
        return f"remove_node({n!r})"
    raise AssertionError(edit)


def _restore_precondition(rng, net, nkind, used):
    """Drawing is only demanded for networks with an edge of >= 2 nodes."""
    if any(len(m) >= 2 for m in net.edges.members()):
        return None
    is_sc = isinstance(net, xgi.SimplicialComplex)
    mem = list(net.nodes)[:2]
    while len(mem) < 2:
        mem.append(_fresh(rng, nkind, net, used))
    net.add_simplex(mem) if is_sc else net.add_edge(mem)
    return f"add {'simplex' if is_sc else 'edge'} {mem!r} (restores the precondition)"


def seq_stage(mon, rng, net, nkind, known, spare, ax, stage, hist, order, seen):
    """Everything observable on the *current* state of the one network object.  Returns False when the case must stop.

    Geometry / count clauses use the same keys as the one-shot draw cases (same mechanism); only what is specific
    to the sequence gets its own trigger: a draw call that raises after the edit although the same call returned
    before it, and a layout whose keys are not the current node set after the edit.
    """
    ctx = "" if stage == "initial" else "after-in-place-edit,"
    desc = describe(net) + "\nsame object, history:\n  " + "\n  ".join(hist)
    is_sc = isinstance(net, xgi.SimplicialComplex)
    edge_fn = "draw_simplices" if is_sc else "draw_hyperedges"
    nodes = list(net.nodes)
    for v in nodes:  # every label ever positioned keeps its position: removed nodes stay in the dict as extra keys
        if v not in known:
            known[v] = (spare.pop(), spare.pop())
    vkind = rng.choice(("tuple", "list", "array-f64", "array-int"))
    pos = {k: _value(*known[k], vkind) for k in _ordered(rng, known, nodes, order)}
    if len(pos) > len(nodes):
        mon.note("seq:explicit-pos-has-removed-nodes")
    mo = pick_mo(rng, net)
    trunc = "max_order<max" if mo_class(net, mo) == "<max" else "max_order=None-or->=max"
    lines, polys = expected(net, mo)
    for use_pos in (None, pos):
        failed = set()
        for fn in ("draw_nodes", edge_fn, "draw"):
            ax.clear()
            kw = {} if fn == "draw_nodes" or (mo is None and rng.random() < 0.7) else {"max_order": mo}
            if rng.random() < 0.8:
                kw["ax"] = ax
            call = f"xgi.{fn}(net, {'None' if use_pos is None else 'pos'}, {', '.join(f'{k}={v!r}' for k, v in kw.items() if k != 'ax')})  # {stage}"
            geo = Geo(mon, net, use_pos, desc, fn, trunc, failed)
            mon.note(f"fn:{fn}")
            mon.note(f"seq:{stage}:{'pos=None' if use_pos is None else 'explicit-pos'}")
            mon.ev()
            mon.nontrivial((fn, desc, repr(use_pos), call))
            if stage == "initial":
                res = getattr(xgi, fn)(net, use_pos, **kw)  # an exception here is the one-shot defect: crash key
            else:
                try:
                    res = getattr(xgi, fn)(net, use_pos, **kw)
                except Exception as exc:  # the same call on the same object returned before the edit
                    mon.fail(f"{fn}|same-object,{'pos=None' if use_pos is None else 'explicit-pos'},after-in-place-edit|raises-{type(exc).__name__}",
                             f"{call} raised {type(exc).__name__}: {exc}", geo.wit(call))
                    return False
            if fn == "draw_nodes":
                colls = geo.unpack(res, 1, call)
                if colls:
                    geo.nodes_ok(colls[0], call)
            elif fn == "draw":
                colls = geo.unpack(res, 3, call)
                if colls:
                    geo.nodes_ok(colls[0], call)
                    geo.lines_ok(colls[1], lines, call)
                    geo.polys_ok(colls[2], polys, call)
            else:
                colls = geo.unpack(res, 2, call)
                if colls:
                    geo.lines_ok(colls[0], lines, call)
                    geo.polys_ok(colls[1], polys, call)
    check_layouts(mon, rng, net, desc, ctx, seen)
    check_barycenters(mon, net, pos, "positions-of-all-labels-ever-seen", desc)
    return True


def case_sequence(mon, rng, idx):
    np.random.seed(rng.randrange(2**32))
    _random.seed(rng.randrange(2**32))
    is_sc = idx % 3 == 0
    j = idx // 3
    nkind = LABEL_KINDS[j % len(LABEL_KINDS)]
    net, nkind, _ = (gen_complex if is_sc else gen_hypergraph)(rng, need_big_edge=True, nkind=nkind)
    if snap.inv(net) != []:
        mon.note("discarded:invalid-input")
        return
    cls = type(net).__name__
    mon.note(f"seq:{cls}")
    mon.note(f"seq-labels:{nkind}")
    used = set(net.nodes)
    known = {}
    spare = [v * 0.5 for v in rng.sample(range(-200, 800), 120)]  # pairwise distinct coordinates for up to 60 labels
    hist = [f"<start> {describe(net)}"]
    edits = SEQ_EDITS[cls]
    fig, ax = plt.subplots()
    try:
        seen = set()
        seq_stage(mon, rng, net, nkind, known, spare, ax, "initial", hist, ORDERS[j % 4], seen)
        for r in range(2):
            edit = edits[(j + r) % len(edits)]
            before = (list(net.nodes), net.num_nodes)
            hist.append(apply_edit(rng, net, edit, nkind, used))
            fix = _restore_precondition(rng, net, nkind, used)
            if fix:
                hist.append(fix)
            if snap.inv(net) != []:
                mon.note("discarded:invalid-after-edit")
                return
            mon.note(f"edit:{edit}")
            if net.num_nodes == before[1] and set(net.nodes) != set(before[0]):
                mon.note("seq:node-set-changed-count-unchanged")
            if not seq_stage(mon, rng, net, nkind, known, spare, ax, "after-edit", hist, ORDERS[(j + r + 1) % 4], seen):
                return
    finally:
        plt.close("all")
    mon.sample("sequence: " + " ; ".join(hist))


def _short(v):
    if hasattr(v, "asdict") and not isinstance(v, dict):
        return f"<stat {getattr(v, 'name', type(v).__name__)}>"
    s = repr(v)
    return s if len(s) < 160 else s[:157] + "..."


def run_case(mon, kind, idx, rng):
    if kind == "layout":
        case_layout(mon, rng, idx)
    elif kind == "sequence":
        case_sequence(mon, rng, idx)
    else:
        case_draw(mon, rng, idx)
