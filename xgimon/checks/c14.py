"""C14 - graph-reducible algorithms agree with an independent graph library (DESIGN §2 C14).

Differential post-conditions: every graph-reducible function of xgi is run on a seeded
hypergraph and its return value is compared with networkx run on an expansion graph that
is built here, directly from `H.nodes` and `H.edges.members(dtype=dict)` (never through
xgi's own converters):

  node-edge bipartite graph -> connected_components / is_connected / number_connected_components /
                               largest_connected_component / node_connected_component
  clique expansion          -> single_source_shortest_path_length / shortest_path_length (BFS distances,
                               symmetric, zero diagonal, inf exactly across components),
                               clustering_coefficient (nx.clustering), to_graph
  pairwise intersections    -> to_line_graph(s, weights)
  incidence list            -> to_bipartite_graph(index=True) (direction for DiHypergraph)
  subset relation           -> to_encapsulation_dag: "all" and "immediate" exactly, "empirical" sandwiched

Besides fresh objects (kinds random / directed) the kind `sequence` asks the same questions repeatedly of one object
that is edited in place in between (keys "<function>|same-object-after-edit|value-stale-or-wrong" and
"<function>|second-call-without-edit|differs-from-first-call").
"""
import math
from itertools import combinations, islice

import networkx as nx

from .. import ops, snap
from ..env import xgi

PID = "C14"
ANCHORS = (
    "xgi/algorithms/connected.py",
    "xgi/algorithms/shortest_path.py",
    "xgi/algorithms/clustering.py",
    "xgi/convert/graph.py",
    "xgi/convert/line_graph.py",
    "xgi/convert/bipartite_graph.py",
    "xgi/convert/encapsulation_dag.py",
)
RULE = (
    "case = one seeded network built through add_node(s)/add_edge (<= 8 nodes, <= 10 edges, sizes 0-5; shapes sparse / dense / blocks / chain / nested / "
    "multi-edge; isolated nodes, singletons, int / gapped-int / str node labels, automatic / explicit edge IDs); kind 'random' = Hypergraph, all functions; "
    "kind 'directed' = DiHypergraph, to_bipartite_graph only. kind 'sequence': ONE network object (80% Hypergraph, 20% DiHypergraph) is queried with every function, queried again "
    "without an edit, then edited in place 2-4 times through the public API (add_node_to_edge / remove_node_from_edge(remove_empty=False) / remove_edge+add_edge(idx=same id) / "
    "double_edge_swap keep the node- and edge-ID sets; add/remove edge, add/remove node change them) and queried again after every edit against graphs built from the CURRENT members(). "
    "kind 'scale': n = (11,16,24,33,47,60,85,120,170,249,250,251,260,300,380,470,600)[idx % 17] nodes, up to 400 small edges, flavour (labels, edge IDs, dense, one big edge of up to 30 nodes) "
    "a deterministic function of idx; planted isolated nodes, a path of up to 40 nodes, triangles, wedge+triangle nodes, a hub of degree up to 30, singletons, a multi-edge, many components; "
    "n <= 60: everything as for small inputs; n > 60: node_connected_component / single-source distances from <= 6 chosen sources (end of the planted path, isolated node, far end of the largest component, hub, 2 random), "
    "the first two items of shortest_path_length, s in {1, 2, largest edge + 1}; plus a DiHypergraph of the same n for to_bipartite_graph. one evaluation = one xgi return value compared with the independent construction. "
    "distinct_nontrivial = distinct (class, node order, members) with at least one edge of size >= 2"
)
ASSUMPTIONS = [
    "oracle graphs are built from H.nodes and H.edges.members(dtype=dict) / dimembers(dtype=dict) only; networkx (connected_components, BFS, clustering) is trusted",
    "inputs have at least one node (is_connected of the null hypergraph raises, as in networkx); empty edges occur (p~0.08) except for to_encapsulation_dag and for s=0",
    "s ranges over 1..4 (plus 0 and 6 on inputs without empty edges); weights over None/'absolute'/'normalized'; subset_types over all/immediate/empirical",
    "to_encapsulation_dag(subset_types='empirical') is only required to satisfy immediate <= empirical <= all (its sequential filter is order dependent and not pinned by the docstring)",
    "weights=None: absence of a 'weight' attribute is not demanded; node/edge attributes of the returned graphs are not compared except 'bipartite' (0 node / 1 edge) and 'weight'",
    "clustering coefficients are compared with tolerance 1e-9, normalized line-graph weights with 1e-12; distances exactly",
    "start states that fail the C01/C02 structural invariant are discarded and counted; a sequence stops when an edit leaves such a state (none observed)",
    "scale kind: for n > 60 the all-pairs clauses (symmetry, infinity pattern) are only examined among the sampled sources; keys carry the size class (n>10 / n>60 / n>250) in the trigger class",
    "sequence kind: a return value may depend only on the current incidence structure, not on what was asked of the same object before; a sequence ends at the first monitor that fires",
]
TECHNIQUE = "runtime monitoring: differential post-conditions against networkx on independently built expansion graphs"
CASE_TIMEOUT = 60

SHAPES = ("sparse", "dense", "blocks", "chain", "nested", "multi")
WEIGHTS = (None, "absolute", "normalized")
SUBSET_TYPES = ("all", "immediate", "empirical")
INF = float("inf")


def plan(tier):
    if tier == "quick":
        return {"random": 4500, "directed": 1200, "sequence": 1000, "scale": 34}
    return {"random": 320000, "directed": 64000, "sequence": 64000, "scale": 1020}


def floors(tier):
    f = {  # minima per 1500 random + 300 directed cases (observed values are >= 1.25x these for every seed tried)
        "fn:connected_components": 1200, "fn:is_connected": 1200, "fn:number_connected_components": 1200,
        "fn:largest_connected_component": 1200, "fn:node_connected_component": 3000,
        "fn:single_source_shortest_path_length": 3000, "fn:shortest_path_length": 1200, "fn:clustering_coefficient": 1200,
        "fn:to_graph": 1200, "fn:to_line_graph": 8000, "fn:to_bipartite_graph:Hypergraph": 1200,
        "fn:to_bipartite_graph:DiHypergraph": 250, "fn:to_encapsulation_dag": 3000,
        "in:disconnected": 300, "in:connected": 200, "in:isolated-nodes": 200, "in:singleton-edges": 200, "in:multi-edges": 100,
        "in:nested-edges": 200, "in:empty-edge": 30, "in:labels:int": 200, "in:labels:gap": 200, "in:labels:str": 200,
        "in:explicit-ids": 300, "in:auto-ids": 300,
        "sp:inf-pairs": 1000, "sp:pairs-at-distance>=3": 200, "cc:nonzero-and-not-one": 100, "cc:one": 300,
        "line:links": 5000, "line:non-links": 3000, "line:normalized-weight<1": 300,
        "dag:links:all": 1000, "dag:links:immediate": 400, "dag:all-strictly-larger-than-immediate": 150,
        "dag:empirical-strictly-between": 20, "bip:directed:node-in-both-tail-and-head": 30,
        "in:n<=2": 25, "in:no-edges": 15, "line:s>largest-edge": 3000,
    }
    for sh in SHAPES:
        f[f"shape:{sh}"] = 100
    scale = plan(tier)["random"] // 1500
    f = {k: v * scale for k, v in f.items()}
    seq = {  # minima per 500 sequences (at most 0.5 x the smallest value observed over seeds 0..15)
        "seq:class:Hypergraph": 180, "seq:class:DiHypergraph": 45, "seq:second-call-evaluations": 500, "seq:evaluations-after-edit": 700,
        "seq:members-changed-with-same-id-sets": 400, "seq:components-changed-with-same-id-sets": 110, "seq:id-sets-changed": 220,
        "seq:edit:add_node_to_edge": 150, "seq:edit:remove_node_from_edge": 110, "seq:edit:replace_edge": 150, "seq:edit:double_edge_swap": 50,
        "seq:edit:add_edge": 70, "seq:edit:remove_edge": 70, "seq:edit:add_node": 22, "seq:edit:remove_node": 45,
    }
    sscale = plan(tier)["sequence"] // 500
    f.update({k: v * sscale for k, v in seq.items()})
    scl = {  # per pass over the 17 sizes of the scale kind; sizes and planted structure are deterministic functions of idx
        "scale:11<=n<=60": 6, "scale:61<=n<=250": 5, "scale:n>250": 6, "scale:n>250:planted-triangles": 70, "scale:n>250:planted-wedges": 50,
        "scale:61<=n<=250:planted-triangles": 25, "scale:11<=n<=60:planted-triangles": 6, "scale:pairs-at-distance>=10": 30, "scale:planted-big-edge>12": 3,
    }
    cscale = plan(tier)["scale"] // 17
    f.update({k: v * cscale for k, v in scl.items()})
    return f


# ---------------------------------------------------------------------------------
# input generation (public API only)
# ---------------------------------------------------------------------------------
def _members_list(rng, pool, shape):
    n = len(pool)
    edges = []
    if shape == "sparse":
        for _ in range(rng.randint(0, 4)):
            edges.append(ops.rand_members(rng, pool, 1, 3))
    elif shape == "dense":
        for _ in range(rng.randint(3, 8)):
            edges.append(ops.rand_members(rng, pool, 2, 5))
    elif shape == "blocks":
        p = pool[:]
        rng.shuffle(p)
        cuts = sorted(rng.sample(range(1, n), min(n - 1, rng.randint(1, 2))))
        blocks = [p[a:b] for a, b in zip([0] + cuts, cuts + [n])]
        for b in blocks:
            for _ in range(rng.randint(0, 3)):
                edges.append(ops.rand_members(rng, b, 1, 4))
    elif shape == "chain":
        p = pool[:]
        rng.shuffle(p)
        i = 0
        while i < n - 1 and len(edges) < 8:
            w = rng.randint(2, 3)
            edges.append(p[i:i + w])
            i += w - 1
            if rng.random() < 0.15:
                i += 1  # break the chain
        edges = [e for e in edges if e]
    elif shape == "nested":
        for _ in range(rng.randint(1, 3)):
            edges.append(ops.rand_members(rng, pool, 3, 5))
        for _ in range(rng.randint(2, 6)):
            base = rng.choice(edges)
            edges.append(rng.sample(base, rng.randint(1, max(1, len(base) - 1))))
    else:  # multi
        for _ in range(rng.randint(1, 4)):
            edges.append(ops.rand_members(rng, pool, 1, 4))
        for _ in range(rng.randint(1, 3)):
            e = list(rng.choice(edges))
            rng.shuffle(e)
            edges.append(e)
    # cross-cutting decorations
    if edges and rng.random() < 0.3:
        base = rng.choice(edges)
        edges.append(rng.sample(base, rng.randint(1, len(base))))
    if rng.random() < 0.3:
        edges.append([rng.choice(pool)])
    rng.shuffle(edges)
    return edges[:10]


def build_hypergraph(rng, mon):
    nkind, pool = ops.node_pool(rng)
    shape = rng.choice(SHAPES)
    edges = _members_list(rng, pool, shape)
    if rng.random() < 0.08:
        edges.insert(rng.randint(0, len(edges)), [])
        edges = edges[:10]
    explicit = rng.random() < 0.5
    ekind, epool = ops.eid_pool(rng, k=10)
    H = xgi.Hypergraph()
    steps = []
    r = rng.random()
    if r < 0.35:  # all pool nodes first, in pool order
        first = list(pool)
    elif r < 0.6:  # some nodes first, shuffled
        first = rng.sample(pool, rng.randint(1, len(pool)))
    else:
        first = []
    if first:
        H.add_nodes_from(first)
        steps.append(f"H.add_nodes_from({first!r})")
    for i, e in enumerate(edges):
        if explicit:
            H.add_edge(list(e), idx=epool[i])
            steps.append(f"H.add_edge({list(e)!r}, idx={epool[i]!r})")
        else:
            H.add_edge(list(e))
            steps.append(f"H.add_edge({list(e)!r})")
    if rng.random() < 0.25 or H.num_nodes == 0:
        extra = [n for n in pool if n not in H.nodes] or [pool[0]]
        extra = rng.sample(extra, rng.randint(1, len(extra)))
        H.add_nodes_from(extra)
        steps.append(f"H.add_nodes_from({extra!r})")
    mon.note(f"shape:{shape}")
    mon.note(f"in:labels:{nkind}")
    mon.note("in:explicit-ids" if explicit else "in:auto-ids")
    return H, "H = xgi.Hypergraph(); " + "; ".join(steps), {"pool": pool, "explicit": explicit, "epool": epool}


def build_dihypergraph(rng, mon):
    nkind, pool = ops.node_pool(rng)
    explicit = rng.random() < 0.5
    ekind, epool = ops.eid_pool(rng, k=10)
    D = xgi.DiHypergraph()
    steps = []
    if rng.random() < 0.5:
        first = rng.sample(pool, rng.randint(1, len(pool)))
        D.add_nodes_from(first)
        steps.append(f"D.add_nodes_from({first!r})")
    for i in range(rng.randint(0, 7)):
        t = ops.rand_members(rng, pool, 0, 3)
        h = ops.rand_members(rng, pool, 0, 3)
        if rng.random() < 0.25 and t:
            h = list(set(h) | {rng.choice(t)})  # a node in both tail and head
        if explicit:
            D.add_edge((t, h), idx=epool[i])
            steps.append(f"D.add_edge(({t!r}, {h!r}), idx={epool[i]!r})")
        else:
            D.add_edge((t, h))
            steps.append(f"D.add_edge(({t!r}, {h!r}))")
    if D.num_nodes == 0:
        D.add_node(pool[0])
        steps.append(f"D.add_node({pool[0]!r})")
    mon.note(f"in:labels:{nkind}")
    return D, "D = xgi.DiHypergraph(); " + "; ".join(steps), {"pool": pool, "explicit": explicit, "epool": epool}


# ---------------------------------------------------------------------------------
# independent constructions
# ---------------------------------------------------------------------------------
def bipartite_partition(nodes, members):
    B = nx.Graph()
    B.add_nodes_from(("n", n) for n in nodes)
    for e, ms in members.items():
        B.add_node(("e", e))
        for n in ms:
            B.add_edge(("n", n), ("e", e))
    out = set()
    for c in nx.connected_components(B):
        ns = frozenset(x for t, x in c if t == "n")
        if ns:
            out.add(ns)
    return out


def clique_expansion(nodes, members):
    G = nx.Graph()
    G.add_nodes_from(nodes)
    for ms in members.values():
        for u, v in combinations(list(ms), 2):
            G.add_edge(u, v)
    return G


def _srt(xs):
    return sorted(xs, key=repr)


def _same_num(a, b):
    try:
        return float(a) == b  # inf == inf
    except (TypeError, ValueError):
        return False


# ---------------------------------------------------------------------------------
# monitors
# ---------------------------------------------------------------------------------
PHASE_CLAUSE = {"same-object-after-edit": "value-stale-or-wrong", "second-call-without-edit": "differs-from-first-call"}


class Ctx:
    def __init__(self, mon, H, how, phase=None):
        self.mon, self.H, self.how, self.phase, self.fired = mon, H, how, phase, 0
        self.nodes = list(H.nodes)
        if snap.is_di(H):
            self.members = {e: (frozenset(t), frozenset(h)) for e, (t, h) in H.edges.dimembers(dtype=dict).items()}
            self.shown = {e: (_srt(t), _srt(h)) for e, (t, h) in self.members.items()}
        else:
            self.members = {e: frozenset(m) for e, m in H.edges.members(dtype=dict).items()}
            self.shown = {e: _srt(m) for e, m in self.members.items()}

    def fail(self, fn, trig, clause, what):
        self.fired += 1
        if self.phase:  # sequence kind: the object was queried before (and edited in place since, or not)
            key, what = f"{fn}|{self.phase}|{PHASE_CLAUSE[self.phase]}", f"[{self.phase}; {trig}: {clause}] {what}"
        else:
            key = f"{fn}|{trig}|{clause}"
        self.mon.fail(key, f"{fn}: {what}", f"import xgi; {self.how}\n# current nodes={self.nodes!r}\n# current members={self.shown!r}")
        return False


def check_components(c, part, trig, sample=None):
    mon, H = c.mon, c.H
    nset = set(c.nodes)
    # connected_components: a partition of the node set, equal to the bipartite components
    mon.note("fn:connected_components")
    mon.ev()
    comps = list(xgi.connected_components(H))
    blocks = []
    for b in comps:
        if not isinstance(b, (set, frozenset)):
            return c.fail("connected_components", trig, "component-not-a-set", f"yielded {type(b).__name__}")
        blocks.append(frozenset(b))
    union = set().union(*blocks) if blocks else set()
    if union != nset:
        return c.fail("connected_components", trig, "not-a-partition", f"union of components {_srt(union)} != node set {_srt(nset)}")
    if sum(len(b) for b in blocks) != len(nset) or any(not b for b in blocks):
        return c.fail("connected_components", trig, "not-a-partition", f"components overlap or are empty: {[_srt(b) for b in blocks]}")
    if set(blocks) != part:
        return c.fail("connected_components", trig, "differs-from-bipartite-components",
                      f"got {[_srt(b) for b in blocks]}, node-edge bipartite graph has {[_srt(b) for b in part]}")
    # is_connected
    mon.note("fn:is_connected")
    mon.ev()
    got = xgi.is_connected(H)
    if bool(got) != (len(part) == 1):
        c.fail("is_connected", trig, "inconsistent-with-partition", f"returned {got!r} but there are {len(part)} components")
    # number_connected_components
    mon.note("fn:number_connected_components")
    mon.ev()
    got = xgi.number_connected_components(H)
    if got != len(part):
        c.fail("number_connected_components", trig, "inconsistent-with-partition", f"returned {got!r} but there are {len(part)} components")
    # largest_connected_component: a component of maximal size
    mon.note("fn:largest_connected_component")
    mon.ev()
    got = xgi.largest_connected_component(H)
    if frozenset(got) not in part:
        c.fail("largest_connected_component", trig, "not-a-component", f"returned {_srt(got)}; components are {[_srt(b) for b in part]}")
    elif len(got) != max(len(b) for b in part):
        c.fail("largest_connected_component", trig, "not-of-maximal-size", f"returned a component of size {len(got)}; maximal size is {max(len(b) for b in part)}")
    # node_connected_component
    where = {n: b for b in part for n in b}
    for n in (c.nodes if sample is None else sample):
        mon.note("fn:node_connected_component")
        mon.ev()
        got = xgi.node_connected_component(H, n)
        if frozenset(got) != where[n]:
            c.fail("node_connected_component", trig, "inconsistent-with-partition", f"component of {n!r} is {_srt(got)}, expected {_srt(where[n])}")
            break
    return True


def check_shortest_paths(c, G, part, trig, sources=None):
    """sources=None: every node as a source and the full matrix; otherwise (large inputs) only the given sources and the
    first two items of the shortest_path_length generator (the hand-rolled Dijkstra is quadratic per source)."""
    mon, H = c.mon, c.H
    where = {n: b for b in part for n in b}
    nset = set(c.nodes)
    class _Exp(dict):  # BFS distances in the clique expansion, computed per source on demand
        def __missing__(self, u):
            d = nx.single_source_shortest_path_length(G, u)
            self[u] = {v: d.get(v, INF) for v in c.nodes}
            return self[u]

    exp = _Exp()

    def compare(fn, u, got, full=None):
        if not isinstance(got, dict) or set(got) != nset:
            return c.fail(fn, trig, "keys-not-the-node-set", f"distances from {u!r} have keys {_srt(got) if isinstance(got, dict) else type(got).__name__}, nodes are {_srt(nset)}")
        for v in c.nodes:
            g, e = got[v], exp[u][v]
            if _same_num(g, e):
                continue
            if u == v:
                clause = "diagonal-not-zero"
            elif where[u] is not where[v]:
                clause = "finite-across-components"
            elif isinstance(g, float) and math.isinf(g):
                clause = "infinite-within-component"
            elif full is not None and v in full and isinstance(full[v], dict) and full[v].get(u) != g:
                clause = "asymmetric"
            else:
                clause = "differs-from-bfs-distance"
            return c.fail(fn, trig, clause, f"d({u!r},{v!r}) = {g!r}, BFS distance in the clique expansion is {e!r}")
        return True

    results = {}
    for u in (c.nodes if sources is None else sources):
        mon.note("fn:single_source_shortest_path_length")
        mon.ev()
        got = results[u] = xgi.single_source_shortest_path_length(H, u)
        if not compare("single_source_shortest_path_length", u, got):
            return False  # shortest_path_length is built on it
    mon.note("fn:shortest_path_length")
    mon.ev()
    if sources is not None:
        pairs = list(islice(xgi.shortest_path_length(H), 2))
        srcs = [p[0] for p in pairs]
        if len(srcs) != min(2, len(c.nodes)) or len(set(srcs)) != len(srcs) or not set(srcs) <= nset:
            return c.fail("shortest_path_length", trig, "sources-not-the-node-set", f"first sources {srcs!r} are not distinct nodes")
        full = dict(pairs)
        for u in srcs:
            if not compare("shortest_path_length", u, full[u], full):
                return False
        for u in sources:  # symmetry / infinity pattern among the sampled sources
            du = results[u]
            for v in sources:
                if exp[v][u] != du[v]:
                    return c.fail("single_source_shortest_path_length", trig, "asymmetric", f"d({u!r},{v!r})={du[v]!r} but BFS d({v!r},{u!r})={exp[v][u]!r}")
            far = [x for x in du.values() if not math.isinf(x)]
            mon.note("sp:inf-pairs", len(du) - len(far))
            mon.note("sp:pairs-at-distance>=3", sum(1 for x in far if x >= 3))
            mon.note("scale:pairs-at-distance>=10", sum(1 for x in far if x >= 10))
        return True
    pairs = list(xgi.shortest_path_length(H))
    srcs = [p[0] for p in pairs]
    if sorted(map(repr, srcs)) != sorted(map(repr, c.nodes)) or set(srcs) != nset:
        return c.fail("shortest_path_length", trig, "sources-not-the-node-set", f"sources {srcs!r}, nodes {c.nodes!r}")
    full = dict(pairs)
    for u in c.nodes:
        if not compare("shortest_path_length", u, full[u], full):
            return False
    # symmetry, diagonal and infinity pattern, stated on the returned matrix itself
    for u in c.nodes:
        for v in c.nodes:
            a, b = full[u][v], full[v][u]
            if a != b:
                return c.fail("shortest_path_length", trig, "asymmetric", f"d({u!r},{v!r})={a!r} but d({v!r},{u!r})={b!r}")
            if math.isinf(a) != (where[u] is not where[v]):
                return c.fail("shortest_path_length", trig, "finite-across-components" if not math.isinf(a) else "infinite-within-component", f"d({u!r},{v!r})={a!r}")
            if math.isinf(a):
                mon.note("sp:inf-pairs")
            elif a >= 3:
                mon.note("sp:pairs-at-distance>=3")
    return True


def check_clustering(c, G, trig):
    mon, H = c.mon, c.H
    mon.note("fn:clustering_coefficient")
    mon.ev()
    got = xgi.clustering_coefficient(H)
    exp = nx.clustering(G)
    if not isinstance(got, dict) or set(got) != set(c.nodes):
        return c.fail("clustering_coefficient", trig, "keys-not-the-node-set", f"keys {_srt(got) if isinstance(got, dict) else type(got).__name__}, nodes {_srt(c.nodes)}")
    for n in c.nodes:
        g, e = got[n], float(exp[n])
        try:
            ok = abs(float(g) - e) <= 1e-9
        except (TypeError, ValueError):
            ok = False
        if not ok:
            return c.fail("clustering_coefficient", trig, "differs-from-graph-clustering", f"c({n!r}) = {g!r}, nx.clustering of the pairwise projection gives {e!r} (degree {G.degree(n)})")
        if 0 < e < 1:
            mon.note("cc:nonzero-and-not-one")
        elif e == 1:
            mon.note("cc:one")
    return True


def check_to_graph(c, G, trig):
    mon, H = c.mon, c.H
    mon.note("fn:to_graph")
    mon.ev()
    P = xgi.to_graph(H)
    if P.is_directed() or P.is_multigraph():
        return c.fail("to_graph", trig, "not-a-simple-undirected-graph", f"returned {type(P).__name__}")
    if set(P.nodes) != set(c.nodes) or P.number_of_nodes() != len(c.nodes):
        return c.fail("to_graph", trig, "vertices-wrong", f"vertices {_srt(P.nodes)}, nodes {_srt(c.nodes)}")
    got = {frozenset(e) for e in P.edges}
    exp = {frozenset(e) for e in G.edges}
    if any(len(e) == 1 for e in got):
        return c.fail("to_graph", trig, "self-loop", f"self loops {[_srt(e) for e in got if len(e) == 1]}")
    if got - exp:
        return c.fail("to_graph", trig, "link-extra", f"links without co-membership: {[_srt(e) for e in got - exp]}")
    if exp - got:
        return c.fail("to_graph", trig, "link-missing", f"co-member pairs not linked: {[_srt(e) for e in exp - got]}")
    return True


def check_line_graph(c, rng, has_empty, svals=None):
    mon, H = c.mon, c.H
    mem = c.members
    eids = list(mem)
    if svals is None:
        svals = [1, 2, 3, 4]
        if not has_empty and rng.random() < 0.3:
            svals += [0, 6]
    maxsize = max((len(m) for m in mem.values()), default=0)
    for s in svals:
        for w in WEIGHTS:
            opt = f"s={s},weights={w.lower() if w else None}"
            if s > maxsize:
                mon.note("line:s>largest-edge")
            mon.note("fn:to_line_graph")
            mon.ev()
            L = xgi.to_line_graph(H, s=s, weights=w)
            if L.is_directed() or L.is_multigraph():
                return c.fail("to_line_graph", opt, "not-a-simple-undirected-graph", f"returned {type(L).__name__}")
            if set(L.nodes) != set(eids) or L.number_of_nodes() != len(eids):
                return c.fail("to_line_graph", opt, "vertices-wrong", f"vertices {_srt(L.nodes)}, edge IDs {_srt(eids)}")
            got = {frozenset(e) for e in L.edges}
            if any(len(e) == 1 for e in got):
                return c.fail("to_line_graph", opt, "self-loop", f"self loops {[_srt(e) for e in got if len(e) == 1]}")
            for e, f in combinations(eids, 2):
                k = len(mem[e] & mem[f])
                linked = frozenset((e, f)) in got
                if k >= s and not linked:
                    return c.fail("to_line_graph", opt, "link-missing", f"{e!r},{f!r} share {k} >= {s} nodes but are not linked")
                if k < s and linked:
                    return c.fail("to_line_graph", opt, "link-extra", f"{e!r},{f!r} share only {k} < {s} nodes but are linked")
                mon.note("line:links" if linked else "line:non-links")
                if linked and w is not None:
                    data = L.get_edge_data(e, f)
                    if "weight" not in data:
                        return c.fail("to_line_graph", opt, "weight-missing", f"link {e!r},{f!r} has no weight")
                    exp = k if w == "absolute" else k / min(len(mem[e]), len(mem[f]))
                    try:
                        ok = abs(float(data["weight"]) - exp) <= 1e-12
                    except (TypeError, ValueError):
                        ok = False
                    if not ok:
                        return c.fail("to_line_graph", opt, "weight-wrong", f"weight of {e!r},{f!r} is {data['weight']!r}, expected {exp!r} (|e|={len(mem[e])}, |f|={len(mem[f])}, |e&f|={k})")
                    if w == "normalized" and exp < 1:
                        mon.note("line:normalized-weight<1")
    return True


def check_bipartite(c, net, cls):
    """to_bipartite_graph(index=True) for a Hypergraph or a DiHypergraph."""
    mon = c.mon
    mon.note(f"fn:to_bipartite_graph:{cls}")
    mon.ev()
    out = xgi.to_bipartite_graph(net, index=True)
    if not (isinstance(out, tuple) and len(out) == 3):
        return c.fail("to_bipartite_graph", cls, "index=True-not-a-triple", f"returned {type(out).__name__}")
    B, itn, ite = out
    directed = cls == "DiHypergraph"
    if B.is_directed() != directed or B.is_multigraph():
        return c.fail("to_bipartite_graph", cls, "graph-class-wrong", f"returned {type(B).__name__}")
    nodes, eids = list(net.nodes), list(net.edges)
    if sorted(map(repr, itn.values())) != sorted(map(repr, nodes)) or set(itn.values()) != set(nodes):
        return c.fail("to_bipartite_graph", cls, "node-index-map-not-a-bijection", f"index->node map {itn!r}, nodes {nodes!r}")
    if sorted(map(repr, ite.values())) != sorted(map(repr, eids)) or set(ite.values()) != set(eids):
        return c.fail("to_bipartite_graph", cls, "edge-index-map-not-a-bijection", f"index->edge map {ite!r}, edge IDs {eids!r}")
    if set(itn) & set(ite) or set(B.nodes) != set(itn) | set(ite) or B.number_of_nodes() != len(nodes) + len(eids):
        return c.fail("to_bipartite_graph", cls, "vertices-wrong", f"vertices {_srt(B.nodes)}, node indices {_srt(itn)}, edge indices {_srt(ite)}")
    for i, d in B.nodes(data=True):
        if d.get("bipartite") != (0 if i in itn else 1):
            return c.fail("to_bipartite_graph", cls, "bipartite-attribute-wrong", f"vertex {i!r} ({'node' if i in itn else 'edge'}) has attributes {d!r}")
    if directed:
        dm = net.edges.dimembers(dtype=dict)
        exp = set()
        for e, (t, h) in dm.items():
            exp |= {("n", v, "e", e) for v in t}
            exp |= {("e", e, "n", v) for v in h}
            if set(t) & set(h):
                mon.note("bip:directed:node-in-both-tail-and-head")
        got = set()
        for i, j in B.edges:
            if i in itn and j in ite:
                got.add(("n", itn[i], "e", ite[j]))
            elif i in ite and j in itn:
                got.add(("e", ite[i], "n", itn[j]))
            else:
                return c.fail("to_bipartite_graph", cls, "link-within-one-side", f"link {i!r}->{j!r} joins two vertices of the same kind")
        if got != exp:
            und = lambda links: {(x[1], x[3]) if x[0] == "n" else (x[3], x[1]) for x in links}  # noqa: E731  (node, edge) incidences
            clause = "direction-wrong" if und(got) == und(exp) else "links-wrong"
            return c.fail("to_bipartite_graph", cls, clause, f"extra {_srt(got - exp)}, missing {_srt(exp - got)} (tail: node->edge, head: edge->node)")
    else:
        mem = net.edges.members(dtype=dict)
        exp = {(v, e) for e, ms in mem.items() for v in ms}
        got = set()
        for i, j in B.edges:
            if i in itn and j in ite:
                got.add((itn[i], ite[j]))
            elif i in ite and j in itn:
                got.add((itn[j], ite[i]))
            else:
                return c.fail("to_bipartite_graph", cls, "link-within-one-side", f"link {i!r}-{j!r} joins two vertices of the same kind")
        if got != exp:
            return c.fail("to_bipartite_graph", cls, "links-wrong", f"(node, edge) extra {_srt(got - exp)}, missing {_srt(exp - got)}")
    # index=False returns the same graph
    mon.ev()
    B2 = xgi.to_bipartite_graph(net)
    if type(B2) is not type(B) or set(B2.nodes) != set(B.nodes) or set(B2.edges) != set(B.edges):
        return c.fail("to_bipartite_graph", cls, "index=False-differs-from-index=True", f"vertices {_srt(B2.nodes)} links {_srt(B2.edges)} vs {_srt(B.nodes)} {_srt(B.edges)}")
    return True


def check_encapsulation(c):
    mon, H = c.mon, c.H
    mem = c.members
    eids = list(mem)
    exp_all = {(e, f) for e in eids for f in eids if e != f and len(mem[e]) > len(mem[f]) and mem[f] < mem[e]}
    exp_imm = {(e, f) for e, f in exp_all if len(mem[e]) - len(mem[f]) == 1}
    got = {}
    for st in SUBSET_TYPES:
        opt = f"subset_types={st}"
        mon.note("fn:to_encapsulation_dag")
        mon.ev()
        D = xgi.to_encapsulation_dag(H, subset_types=st)
        if not D.is_directed() or D.is_multigraph():
            return c.fail("to_encapsulation_dag", opt, "not-a-digraph", f"returned {type(D).__name__}")
        if set(D.nodes) != set(eids) or D.number_of_nodes() != len(eids):
            return c.fail("to_encapsulation_dag", opt, "vertices-wrong", f"vertices {_srt(D.nodes)}, edge IDs {_srt(eids)}")
        got[st] = set(D.edges)
        if st in ("all", "immediate"):
            exp = exp_all if st == "all" else exp_imm
            if got[st] - exp:
                return c.fail("to_encapsulation_dag", opt, "link-extra", f"links {_srt(got[st] - exp)} are not (larger -> strict subset{' of size one less' if st == 'immediate' else ''}) relations")
            if exp - got[st]:
                return c.fail("to_encapsulation_dag", opt, "link-missing", f"relations {_srt(exp - got[st])} are not linked")
        else:
            if got[st] - exp_all:
                return c.fail("to_encapsulation_dag", opt, "not-within-all", f"links {_srt(got[st] - exp_all)} are not subset relations")
            if exp_imm - got[st]:
                return c.fail("to_encapsulation_dag", opt, "immediate-relation-dropped", f"immediate relations {_srt(exp_imm - got[st])} are missing")
    mon.note("dag:links:all", len(exp_all))
    mon.note("dag:links:immediate", len(exp_imm))
    if len(exp_all) > len(exp_imm):
        mon.note("dag:all-strictly-larger-than-immediate")
    if len(exp_imm) < len(got["empirical"]) < len(exp_all):
        mon.note("dag:empirical-strictly-between")
    return True


# ---------------------------------------------------------------------------------
def evaluate(mon, net, how, rng, phase=None, fresh=True, hints=()):
    """Every function of the property on the CURRENT state of `net`; returns the number of monitors that fired."""
    c = Ctx(mon, net, how, phase)
    if snap.is_di(net):
        check_bipartite(c, net, "DiHypergraph")
        if fresh and any(t or h for t, h in c.members.values()):
            mon.nontrivial(("D", tuple(c.nodes), tuple(sorted(((repr(e), _srt(t), _srt(h)) for e, (t, h) in c.members.items())))))
        return c.fired
    H = net
    mem = c.members
    part = bipartite_partition(c.nodes, mem)
    G = clique_expansion(c.nodes, mem)
    has_empty = any(len(m) == 0 for m in mem.values())
    trig = "edgeless" if G.number_of_edges() == 0 else ("connected" if len(part) == 1 else "disconnected")
    n = len(c.nodes)
    if n > 10:  # size class: part of the trigger class of a key (size-dependent code paths)
        trig += ",n>250" if n > 250 else (",n>60" if n > 60 else ",n>10")
    sample = svals = None
    if n > SAMPLED_ABOVE:  # large inputs: a few sources instead of all pairs, s in {1, 2, larger than every edge}
        iso = [x for x in c.nodes if G.degree(x) == 0]
        big = max(part, key=len)
        ecc = nx.single_source_shortest_path_length(G, _srt(big)[0])
        sample = list(dict.fromkeys(list(hints) + iso[:1] + [max(ecc, key=ecc.get), max(c.nodes, key=G.degree)] + rng.sample(c.nodes, 2)))
        svals = [1, 2, max((len(m) for m in mem.values()), default=0) + 1]
    if fresh:  # input classes actually produced
        if n <= 2:
            mon.note("in:n<=2")
        if not mem:
            mon.note("in:no-edges")
        mon.note("in:connected" if len(part) == 1 else "in:disconnected")
        covered = set().union(*mem.values()) if mem else set()
        if set(c.nodes) - covered:
            mon.note("in:isolated-nodes")
        if any(len(m) == 1 for m in mem.values()):
            mon.note("in:singleton-edges")
        if len(set(mem.values())) < len(mem):
            mon.note("in:multi-edges")
        if any(a < b for a in mem.values() for b in mem.values()):
            mon.note("in:nested-edges")
        if has_empty:
            mon.note("in:empty-edge")
    check_components(c, part, trig, sample)
    check_shortest_paths(c, G, part, trig, sample)
    check_clustering(c, G, trig)
    check_to_graph(c, G, trig)
    check_line_graph(c, rng, has_empty, svals)
    check_bipartite(c, H, "Hypergraph")
    if not has_empty:
        check_encapsulation(c)
    if fresh and any(len(m) >= 2 for m in mem.values()):
        mon.nontrivial(("H", tuple(map(repr, c.nodes)), tuple(sorted((repr(e), tuple(_srt(m))) for e, m in mem.items()))))
    return c.fired


# ---------------------------------------------------------------------------------
# sequences on ONE network object: evaluate, edit in place, evaluate again
# ---------------------------------------------------------------------------------
ID_PRESERVING = ("add_node_to_edge", "remove_node_from_edge", "replace_edge", "double_edge_swap")
ID_CHANGING = ("add_edge", "remove_edge", "add_node", "remove_node")


def _propose_edit(rng, net, info):
    """One in-place edit through the public API: (name, text, thunk) or None.  All results stay inside the statement's
    input space (multi-edges, singletons, empty edges, isolated nodes are allowed; at least one node is kept)."""
    di = snap.is_di(net)
    pool, explicit, epool = info["pool"], info["explicit"], info["epool"]
    nodes, eids = list(net.nodes), list(net.edges)
    mem = net.edges.members(dtype=dict)
    v = "D" if di else "H"
    for _ in range(12):
        name = rng.choice(ID_PRESERVING) if rng.random() < 0.7 else rng.choice(ID_CHANGING)
        if name == "add_node_to_edge" and eids:
            e, n = rng.choice(eids), rng.choice(nodes)
            if di:
                d = rng.choice(("in", "out"))
                return name, f"D.add_node_to_edge({e!r}, {n!r}, {d!r})", (lambda: net.add_node_to_edge(e, n, d))
            return name, f"H.add_node_to_edge({e!r}, {n!r})", (lambda: net.add_node_to_edge(e, n))
        if name == "remove_node_from_edge" and eids and not di:
            e = rng.choice(eids)
            if not mem[e]:
                continue
            n = rng.choice(_srt(mem[e]))
            if len(mem[e]) >= 2 and rng.random() < 0.4:
                return name, f"H.remove_node_from_edge({e!r}, {n!r})", (lambda: net.remove_node_from_edge(e, n))
            return name, f"H.remove_node_from_edge({e!r}, {n!r}, remove_empty=False)", (lambda: net.remove_node_from_edge(e, n, remove_empty=False))
        if name == "replace_edge" and eids:
            e = rng.choice(eids)
            if di:
                new = (ops.rand_members(rng, nodes, 0, 3), ops.rand_members(rng, nodes, 0, 3))
            else:
                new = ops.rand_members(rng, nodes, 1, min(5, len(nodes)))

            def thunk():
                net.remove_edge(e)
                net.add_edge(new if di else list(new), idx=e)
            return name, f"{v}.remove_edge({e!r}); {v}.add_edge({new!r}, idx={e!r})", thunk
        if name == "double_edge_swap" and len(eids) >= 2 and not di:
            e1, e2 = rng.sample(eids, 2)
            c1, c2 = _srt(set(mem[e1]) - set(mem[e2])), _srt(set(mem[e2]) - set(mem[e1]))
            if not c1 or not c2:
                continue
            n1, n2 = rng.choice(c1), rng.choice(c2)
            return name, f"H.double_edge_swap({n1!r}, {n2!r}, {e1!r}, {e2!r})", (lambda: net.double_edge_swap(n1, n2, e1, e2))
        if name == "add_edge" and len(eids) < 10:
            new = (ops.rand_members(rng, pool, 0, 3), ops.rand_members(rng, pool, 0, 3)) if di else ops.rand_members(rng, pool, 1, 4)
            if explicit:
                free = [x for x in epool if x not in eids]
                if not free:
                    continue
                i = rng.choice(free)
                return name, f"{v}.add_edge({new!r}, idx={i!r})", (lambda: net.add_edge(new, idx=i))
            return name, f"{v}.add_edge({new!r})", (lambda: net.add_edge(new))
        if name == "remove_edge" and eids:
            e = rng.choice(eids)
            return name, f"{v}.remove_edge({e!r})", (lambda: net.remove_edge(e))
        if name == "add_node":
            cand = [n for n in pool if n not in nodes]
            if not cand:
                continue
            n = rng.choice(cand)
            return name, f"{v}.add_node({n!r})", (lambda: net.add_node(n))
        if name == "remove_node" and len(nodes) >= 2 and not di:
            n = rng.choice(nodes)
            strong = rng.random() < 0.3
            return name, f"H.remove_node({n!r}, strong={strong})", (lambda: net.remove_node(n, strong=strong))
    return None


def _structure(net):
    if snap.is_di(net):
        return {e: (frozenset(t), frozenset(h)) for e, (t, h) in net.edges.dimembers(dtype=dict).items()}
    return {e: frozenset(m) for e, m in net.edges.members(dtype=dict).items()}


def run_sequence(mon, rng):
    di = rng.random() < 0.2
    net, how, info = (build_dihypergraph if di else build_hypergraph)(rng, mon)
    if snap.inv(net):
        mon.note("discarded-invalid-input")
        return
    cls = "DiHypergraph" if di else "Hypergraph"
    mon.note(f"seq:class:{cls}")
    called = "<all functions called on D>" if di else "<all functions called on H>"
    if evaluate(mon, net, how, rng):
        return
    mon.note("seq:second-call-evaluations")
    if evaluate(mon, net, how + f"\n{called}", rng, phase="second-call-without-edit", fresh=False):
        return
    for step in range(rng.randint(2, 4)):
        ed = _propose_edit(rng, net, info)
        if ed is None:
            mon.note("seq:no-admissible-edit")
            break
        name, text, thunk = ed
        before = _structure(net)
        ids_before = (frozenset(net.nodes), frozenset(before))
        part_before = None if di else bipartite_partition(list(net.nodes), before)
        thunk()
        how = how + f"\n{called}; {text}"
        if snap.inv(net) or net.num_nodes == 0:
            mon.note("seq:invalid-state-after-edit")  # not C14's business (C01/C02/C05): stop here
            return
        after = _structure(net)
        mon.note(f"seq:edit:{name}")
        if ids_before == (frozenset(net.nodes), frozenset(after)):
            if after != before:
                mon.note("seq:members-changed-with-same-id-sets")
                if not di and bipartite_partition(list(net.nodes), after) != part_before:
                    mon.note("seq:components-changed-with-same-id-sets")
        else:
            mon.note("seq:id-sets-changed")
        mon.note("seq:evaluations-after-edit")
        if evaluate(mon, net, how, rng, phase="same-object-after-edit", fresh=False):
            return
        if rng.random() < 0.4:
            mon.note("seq:second-call-evaluations")
            if evaluate(mon, net, how + f"\n{called}", rng, phase="second-call-without-edit", fresh=False):
                return
    mon.nontrivial(("seq", how))
    mon.sample(how)


# ---------------------------------------------------------------------------------
# the size regime: medium (11-60 nodes, everything evaluated) and large (61-600 nodes, sampled sources)
# ---------------------------------------------------------------------------------
SAMPLED_ABOVE = 60
SCALE_SIZES = (11, 16, 24, 33, 47, 60, 85, 120, 170, 249, 250, 251, 260, 300, 380, 470, 600)  # 17 sizes: n = SCALE_SIZES[idx % 17]
MAX_SCALE_EDGES = 400


def build_scaled(rng, idx):
    """A sparse hypergraph whose size and flavour are deterministic functions of idx (label kind idx % 3, explicit edge
    IDs (idx // 3) % 2, dense variant idx % 4 == 3 for n <= 60, one big edge idx % 3 == 0); planted in every case:
    isolated nodes, a long path, triangles (3-edge / three 2-edges / nested), wedge+triangle nodes (0 < cc < 1), a hub,
    singletons, a multi-edge, many small components.  Returns (H, description, planted counts)."""
    n = SCALE_SIZES[idx % len(SCALE_SIZES)]
    lk = ("int", "gap", "str")[idx % 3]
    labels = list(range(n)) if lk == "int" else (rng.sample(range(-n, 6 * n), n) if lk == "gap" else [f"v{i}" for i in range(n)])
    rng.shuffle(labels)
    free = labels[:]
    edges = []
    planted = {"triangles": 0, "wedges": 0, "path-nodes": 0, "hub-degree": 0, "isolated": 0, "big-edge>12": 0}

    def take(k):
        if len(free) < k:
            return None
        out = free[:k]
        del free[:k]
        return out

    iso = take(max(1, n // 20)) or []
    planted["isolated"] = len(iso)
    path = take(max(4, min(40, n // 5))) or []
    i = 0
    while i < len(path) - 1:
        w = 3 if rng.random() < 0.25 and i + 2 < len(path) else 2
        edges.append(path[i:i + w])
        i += w - 1
    planted["path-nodes"] = len(path)
    planted["hints"] = path[:1]  # one end of the long path: a source with large distances
    for t in range(max(1, n // 30)):
        tri = take(3)
        if not tri:
            break
        form = t % 3
        if form == 0:
            edges.append(tri)
        elif form == 1:
            edges += [[tri[0], tri[1]], [tri[1], tri[2]], [tri[0], tri[2]]]
        else:
            edges += [tri, [tri[0], tri[2]]]
        planted["triangles"] += 1
    for _ in range(max(1, n // 40)):
        wd = take(4)
        if not wd:
            break
        edges += [[wd[0], wd[1], wd[2]], [wd[0], wd[3]]]  # cc(wd[0]) = 1/3
        planted["wedges"] += 1
    rest = free[:]
    hub = take(1)
    if hub and len(rest) > 3:
        deg = min(30, max(3, n // 8), len(rest) - 1)
        for x in rng.sample([r for r in rest if r != hub[0]], deg):
            edges.append([hub[0], x])
        planted["hub-degree"] = deg
    dense = n <= 60 and idx % 4 == 3
    if len(rest) >= 2:
        m_r = min(int(len(rest) * (1.5 if dense else 0.45)), MAX_SCALE_EDGES - len(edges) - 4)
        for _ in range(max(0, m_r)):
            edges.append(ops.rand_members(rng, rest, 2, 4))
        if idx % 3 == 0:  # one big edge with nested sub-edges (immediate, small, medium)
            big = rng.sample(rest, min(len(rest), min(30, max(6, n // 6))))
            edges += [big, big[:-1], big[:2], big[1:len(big) // 2 + 1]]
            planted["big-edge>12"] = int(len(big) > 12)
    for x in rng.sample(labels, 2):
        edges.append([x])
    edges.append(list(rng.choice(edges)))  # a multi-edge
    rng.shuffle(edges)
    explicit = (idx // 3) % 2 == 1
    H = xgi.Hypergraph()
    H.add_nodes_from(labels)
    if explicit:
        ids = [f"e{j}" for j in range(len(edges))] if lk == "str" else rng.sample(range(0, 5 * len(edges)), len(edges))
        for e, j in zip(edges, ids):
            H.add_edge(list(e), idx=j)
    else:
        for e in edges:
            H.add_edge(list(e))
    hints = planted.pop("hints")
    desc = f"n={n} m={len(edges)} labels={lk} ids={'explicit' if explicit else 'auto'} dense={dense} planted={planted}"
    planted["hints"] = hints
    return H, desc, planted


def build_scaled_di(rng, idx):
    n = SCALE_SIZES[idx % len(SCALE_SIZES)]
    labels = list(range(n)) if idx % 2 else [f"v{i}" for i in range(n)]
    rng.shuffle(labels)
    D = xgi.DiHypergraph()
    D.add_nodes_from(labels)
    for _ in range(min(300, n // 2 + 3)):
        D.add_edge((ops.rand_members(rng, labels, 0, 3), ops.rand_members(rng, labels, 0, 3)))
    return D


def run_scale(mon, idx, rng):
    H, desc, planted = build_scaled(rng, idx)
    how = (f"# {desc}\n# rebuild: from xgimon.checks import c14; from xgimon.cli import case_rng; "
           f"H = c14.build_scaled(case_rng('C14', {mon.seed}, 'scale', {idx}), {idx})[0]   (or: VERIF_SEED={mon.seed} ./check C14 --case scale:{idx})")
    if snap.inv(H):
        mon.note("discarded-invalid-input")
        return
    n = H.num_nodes
    cls = "n>250" if n > 250 else ("61<=n<=250" if n > SAMPLED_ABOVE else "11<=n<=60")
    mon.note(f"scale:{cls}")
    mon.note(f"scale:{cls}:planted-triangles", planted["triangles"])
    mon.note(f"scale:{cls}:planted-wedges", planted["wedges"])
    mon.note("scale:planted-big-edge>12", planted["big-edge>12"])
    mon.note(f"scale:{cls}:edges", H.num_edges)
    evaluate(mon, H, how, rng, hints=planted["hints"])
    D = build_scaled_di(rng, idx)
    if not snap.inv(D):
        evaluate(mon, D, how.replace("build_scaled(", "build_scaled_di(").replace(")[0]", ")") + "  # built after H from the same rng", rng)
    mon.sample(how)


def run_case(mon, kind, idx, rng):
    if kind == "scale":
        return run_scale(mon, idx, rng)
    if kind == "sequence":
        return run_sequence(mon, rng)
    net, how, _ = (build_dihypergraph if kind == "directed" else build_hypergraph)(rng, mon)
    if snap.inv(net):
        mon.note("discarded-invalid-input")
        return
    evaluate(mon, net, how, rng)
    mon.sample(how)
