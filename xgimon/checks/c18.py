"""C18 - frozen networks cannot be structurally modified (DESIGN §2 C18).

Differential probing, frozen vs unfrozen twin: for a network N, U = N.copy() and
F = N.copy(); F.freeze(). Every public method of the class (enumerated by introspection)
and the library's in-place functions are called with the same arguments on both. If the
call changes the structure of U (nodes, edges, members / tail+head), the same call on F
must raise the library's error and leave F completely unchanged; if it does not change
U it must not change F either.
"""
import copy as _copy
import inspect
import random as _random

import numpy as _np

from .. import ops, snap
from ..env import xgi
from . import common

PID = "C18"
ANCHORS = ("xgi/core/hypergraph.py", "xgi/core/dihypergraph.py", "xgi/core/simplicialcomplex.py", "xgi/exception.py", "xgi/core/globalviews.py")
TECHNIQUE = "runtime monitoring: differential probing of every public method on a frozen network and its unfrozen twin"
RULE = (
    "case = (class, public method or in-place library function discovered by introspection, seeded network, argument recipe aimed at changing structure); "
    "one evaluation = one twin comparison or one freeze-state assertion. distinct_nontrivial = distinct (class, callable, arguments, network) where the "
    "call changed the structure of the unfrozen twin"
)
ASSUMPTIONS = [
    'close() is also probed on complexes that are not downward closed (made with the inherited public random_edge_shuffle; twins are deep copies because copy() closes a complex)',
    "structure = node set, edge set, members (tail/head); attribute setters are not structural and may succeed on a frozen network",
    "random_edge_shuffle is run with the global RNG re-seeded identically on both twins",
    "a public method for which no argument recipe exists and that needs arguments is counted as unprobed (never a violation)",
    "subhypergraph is probed on Hypergraph and SimplicialComplex only (it rejects directed input)",
]
CLASSES = ("Hypergraph", "DiHypergraph", "SimplicialComplex")
LIB_INPLACE = ("convert_labels_to_integers", "largest_connected_hypergraph")
XGIError = xgi.exception.XGIError


def public_methods(cls_name):
    cls = getattr(xgi, cls_name)
    out = []
    for n in sorted(dir(cls)):
        if n.startswith("_") or n in ("freeze",):
            continue
        if isinstance(inspect.getattr_static(cls, n), property):
            continue
        if callable(getattr(cls, n)):
            out.append(n)
    return out


GEN_NAME = {"convert_labels_to_integers": "relabel", "largest_connected_hypergraph": "lcc"}


def plan(tier):
    k = 250 if tier == "quick" else 30000
    p = {}
    for c in CLASSES:
        for m in public_methods(c):
            p[f"{c}.{m}"] = k
        for f in LIB_INPLACE:
            if not (c == "DiHypergraph" and f == "largest_connected_hypergraph"):
                p[f"{c}.xgi:{f}"] = k
        p[f"{c}.<state>"] = k
        p[f"{c}.<create_using>"] = k
    return p


def create_using_calls(cls, rng):
    """(name, thunk(target)) for the library functions that fill the network passed as `create_using`."""
    import numpy as np
    import pandas as pd

    edges = [[1, 2, 3], [3, 4]]
    calls = []
    if cls == "Hypergraph":
        calls = [
            ("empty_hypergraph", lambda t: xgi.empty_hypergraph(create_using=t)),
            ("trivial_hypergraph", lambda t: xgi.trivial_hypergraph(3, create_using=t)),
            ("from_hyperedge_list", lambda t: xgi.from_hyperedge_list(edges, create_using=t)),
            ("from_hyperedge_dict", lambda t: xgi.from_hyperedge_dict({"x": [1, 2]}, create_using=t)),
            ("from_incidence_matrix", lambda t: xgi.from_incidence_matrix(np.array([[1, 0], [1, 1]]), create_using=t)),
            ("from_bipartite_pandas_dataframe", lambda t: xgi.from_bipartite_pandas_dataframe(pd.DataFrame([[1, 0], [2, 0]]), create_using=t)),
            ("to_hypergraph", lambda t: xgi.to_hypergraph(edges, create_using=t)),
        ]
    elif cls == "DiHypergraph":
        calls = [
            ("empty_dihypergraph", lambda t: xgi.empty_dihypergraph(create_using=t)),
            ("to_dihypergraph", lambda t: xgi.to_dihypergraph([([1, 2], [3])], create_using=t)),
            ("from_hyperedge_list", lambda t: xgi.from_hyperedge_list([([1], [2])], create_using=t)),
        ]
    else:
        calls = [
            ("empty_simplicial_complex", lambda t: xgi.empty_simplicial_complex(create_using=t)),
            ("from_simplex_dict", lambda t: xgi.from_simplex_dict({"s": [1, 2, 3]}, create_using=t)),
            ("to_simplicial_complex", lambda t: xgi.to_simplicial_complex(edges, create_using=t)),
            ("from_hyperedge_list", lambda t: xgi.from_hyperedge_list(edges, create_using=t)),
        ]
    return calls


def floors(tier):
    return {"twin-comparisons": 8000, "changed-unfrozen-twin": 3000, "frozen-raised-XGIError": 3000, "mutators-discovered>=40": 1, "unprobed<=3": 1,
            "assert:is_frozen": 300, "assert:subhypergraph-frozen": 200, "assert:frozen-copy-editable": 300, "subhypergraph:empty-node-selection": 30, "close:input-not-downward-closed": 20}


def make_net(rng, cls):
    gen = ops.GENS[cls](rng, hostile=False, avoid=frozenset({"none-member", "none-node", "empty-members", "missing-id", "dup-id"}), ekind="int")
    net = ops.new_net(cls)
    for _ in range(rng.randint(3, 9)):
        common.run_op(gen.gen(net), net)
    # make sure there is something to remove / swap / merge
    ns = gen.npool
    if cls == "DiHypergraph":
        net.add_edge((ns[:2], ns[1:3]))
        net.add_edge((ns[2:3], ns[:1]))
    elif cls == "SimplicialComplex":
        net.add_simplex(ns[:3])
        net.add_simplex(ns[2:4])
    else:
        net.add_edge(ns[:3])
        net.add_edge(ns[:3])
        net.add_edge(ns[2:4])
    net.add_node(ns[-1])
    return net, gen


def op_for(gen, net, cls, m, rng):
    """An op calling method `m`; KeyError when there is no recipe."""
    if m.startswith("xgi:"):
        return getattr(gen, "g_" + GEN_NAME[m[4:]])()
    g = getattr(gen, "g_" + m, None)
    if cls == "SimplicialComplex" and m in ("add_edge", "add_edges_from", "add_weighted_edges_from", "remove_edge", "remove_edges_from"):
        g = getattr(gen, "g_alias_" + m)
    if cls == "SimplicialComplex" and m in ("add_node_to_edge", "remove_node_from_edge", "double_edge_swap", "random_edge_shuffle", "merge_duplicate_edges", "clear_edges", "update"):
        g = getattr(ops.HGen, "g_" + m).__get__(gen)  # inherited methods: the Hypergraph recipe
    if g is not None:
        gen.observe(net)
        for _ in range(20):
            op = g()
            if op is not None:
                return op
    if m in ("copy", "dual"):
        return ops.Op(m)
    if m == "has_simplex":
        return ops.Op(m, (list(net.nodes)[:2],))
    f = getattr(net, m)
    req = [p for p in inspect.signature(f).parameters.values() if p.default is inspect._empty and p.kind not in (p.VAR_POSITIONAL, p.VAR_KEYWORD)]
    if req:
        raise KeyError(m)
    return ops.Op(m)


def _small_complex(rng, pool):
    """A small complex over (part of) the pool, built simplex by simplex (never through a bulk format)."""
    S = xgi.SimplicialComplex()
    for _ in range(3):
        S.add_simplex(ops.rand_members(rng, list(pool), 1, 3))
    return S


def run_case(mon, kind, idx, rng):
    cls, m = kind.split(".", 1)
    N, gen = make_net(rng, cls)
    if snap.inv(N):
        mon.note("discarded-invalid-start")
        return

    def fire(key, what, witness):
        mon.fail(key, f"{cls}: {what}", witness)

    if m == "<create_using>":
        # library functions that fill the network handed over as create_using are in-place functions of that network
        for name, thunk in create_using_calls(cls, rng):
            U, F = N.copy(), N.copy()
            F.freeze()
            s0, full0 = snap.structure(U), snap.snap(F)
            try:
                thunk(U)
                out_u = "returned"
            except Exception as exc:
                out_u = f"raised:{type(exc).__name__}"
            try:
                thunk(F)
                out_f, val_f = "returned", None
            except Exception as exc:
                out_f, val_f = f"raised:{type(exc).__name__}", exc
            mon.ev()
            mon.note("twin-comparisons")
            mon.note(f"probed:create_using:{name}")
            changed_u = snap.structure(U) != s0
            witness = f"network: {snap.pretty(N)}\ncall: xgi.{name}(..., create_using=<the network>)\nunfrozen twin: {out_u}, structure changed={changed_u}\nfrozen twin: {out_f} -> {snap.pretty(F)}"
            if changed_u:
                mon.note("changed-unfrozen-twin")
                mon.note(f"mutator:create_using:{name}")
                if out_f == "returned" or not isinstance(val_f, XGIError):
                    fire(f"{name}(create_using)|frozen|structural-edit-not-rejected", f"xgi.{name}(create_using=F) refills an unfrozen network but on the frozen one it {out_f}", witness)
                    return
                mon.note("frozen-raised-XGIError")
            if snap.snap(F) != full0 or not F.is_frozen:
                fire(f"{name}(create_using)|frozen|frozen-network-changed", f"xgi.{name}(create_using=F) changed a frozen network ({out_f})", witness)
                return
        return
    if m == "<state>":
        F = N.copy()
        mon.ev()
        mon.note("assert:is_frozen")
        if N.is_frozen or F.is_frozen:
            fire(f"{cls}.is_frozen|unfrozen|reports-frozen", "is_frozen is True on a network that was never frozen", snap.pretty(N))
            return
        F.freeze()
        if not F.is_frozen or N.is_frozen:
            fire(f"{cls}.is_frozen|after-freeze|wrong", f"after freeze(): F.is_frozen={F.is_frozen}, source.is_frozen={N.is_frozen}", snap.pretty(N))
            return
        C = F.copy()
        mon.ev()
        mon.note("assert:frozen-copy-editable")
        if C.is_frozen or snap.snap(C, order=False) != snap.snap(F, order=False):
            fire(f"{cls}.copy|frozen-source|copy-frozen-or-unequal", f"copy of a frozen network: is_frozen={C.is_frozen}, equal={snap.snap(C, order=False) == snap.snap(F, order=False)}", snap.pretty(F))
            return
        try:
            C.add_node("c18-new")
            if cls == "SimplicialComplex":
                C.add_simplex(["c18-new", "c18-b"])
            elif cls == "DiHypergraph":
                C.add_edge((["c18-new"], ["c18-b"]))
            else:
                C.add_edge(["c18-new", "c18-b"])
        except Exception as exc:
            fire(f"{cls}.copy|frozen-source|copy-not-editable", f"copy of a frozen network rejects an edit: {type(exc).__name__}: {exc}", snap.pretty(F))
            return
        if snap.snap(F, order=False) != snap.snap(N, order=False):
            fire(f"{cls}.copy|frozen-source|edit-of-copy-visible", "editing the copy of a frozen network changed the frozen network", snap.pretty(F))
            return
        if cls != "DiHypergraph":
            ns, es = list(N.nodes), list(N.edges)
            r = rng.random()
            if r < 0.15:
                sel_nodes = []  # empty selection
            elif r < 0.25:
                sel_nodes = ["<absent-1>", "<absent-2>"]  # nothing of the selection exists
            elif r < 0.75:
                sel_nodes = rng.sample(ns, rng.randint(1, len(ns)))
            else:
                sel_nodes = None
            r = rng.random()
            sel_edges = [] if r < 0.15 else (rng.sample(es, rng.randint(0, len(es))) if r < 0.65 else None)
            if rng.random() < 0.2 and es:
                sel_edges = N.edges.filterby("size", 99)  # an empty view
            mon.note("subhypergraph:empty-node-selection" if sel_nodes is not None and not [n for n in sel_nodes if n in N.nodes] else "subhypergraph:other-selection")
            S = xgi.subhypergraph(N, nodes=sel_nodes, edges=sel_edges, keep_isolates=rng.random() < 0.5)
            mon.ev()
            mon.note("assert:subhypergraph-frozen")
            if not S.is_frozen:
                fire(f"subhypergraph|{cls}|result-not-frozen", "subhypergraph returned a network that is not frozen", snap.pretty(S))
                return
            before = snap.snap(S)
            for probe in (lambda: S.add_node("zz-new"), lambda: (S.add_simplex if cls == "SimplicialComplex" else S.add_edge)(["zz-a", "zz-b"]), lambda: S.clear()):
                try:
                    probe()
                    raised = None
                except Exception as exc:
                    raised = exc
                if not isinstance(raised, XGIError) or snap.snap(S) != before:
                    fire(f"subhypergraph|{cls}|result-editable", f"the network returned by subhypergraph accepted a structural edit (raised={raised!r})", snap.pretty(S))
                    return
        return

    if cls == "SimplicialComplex" and m == "dual" and max(N.degree().values()) > 6:
        # the dual of a complex is built as a complex (a node of degree d becomes a d-simplex with 2^d faces):
        # keep the input small enough for the call to finish
        N = _small_complex(rng, gen.npool[:5])
    twin = lambda net: net.copy()  # noqa: E731
    if cls == "SimplicialComplex" and m == "close" and rng.random() < 0.7:
        # close() only edits a complex that is not downward closed; the inherited public rewiring methods produce such complexes
        # (copy() would close them again, a deep copy does not)
        _random.seed(rng.randint(0, 10 ** 6))
        for _ in range(6):
            try:
                N.random_edge_shuffle()
            except Exception:
                break
            if "missing-face" in snap.inv_simplicial(N):
                mon.note("close:input-not-downward-closed")
                twin = _copy.deepcopy
                break
    try:
        op = op_for(gen, N, cls, m, rng)
    except KeyError:
        mon.note(f"unprobed:{cls}.{m}")
        return
    U, F = twin(N), twin(N)
    F.freeze()
    s0 = snap.structure(U)
    full0 = snap.snap(F)
    seed = rng.randint(0, 10 ** 6)
    _random.seed(seed)
    _np.random.seed(seed)
    out_u, val_u, _ = common.run_op(op, U)
    _random.seed(seed)
    _np.random.seed(seed)
    out_f, val_f, _ = common.run_op(op, F)
    mon.ev()
    mon.note("twin-comparisons")
    mon.note(f"probed:{cls}.{m}")
    try:
        changed_u = snap.structure(U) != s0
    except Exception:
        changed_u = True
    try:
        full1 = snap.snap(F)
    except Exception as exc:
        full1 = f"<unobservable {type(exc).__name__}>"
    witness = f"network: {snap.pretty(N)}\ncall: {op!r}\nunfrozen twin: {out_u}, structure changed={changed_u}\nfrozen twin: {out_f} -> {snap.pretty(F)}"
    if changed_u:
        mon.note("changed-unfrozen-twin")
        mon.note(f"mutator:{cls}.{m}")
        mon.nontrivial((cls, m, repr(op), repr(full0)))
        if out_f == "returned":
            fire(f"{cls}.{m}|frozen|structural-edit-not-rejected", f"{op!r} changes the structure of an unfrozen network but did not raise on the frozen one (frozen twin {'changed' if full1 != full0 else 'unchanged'})", witness)
            return
        if not isinstance(val_f, XGIError):
            fire(f"{cls}.{m}|frozen|wrong-error-type", f"{op!r} on a frozen network raised {type(val_f).__name__} instead of XGIError", witness)
            return
        mon.note("frozen-raised-XGIError")
    # a rejected structural edit leaves the frozen network completely unchanged; a call that is not structural on
    # the unfrozen twin (attribute setters, read-only methods) must at least leave the frozen structure alone
    try:
        struct_changed = snap.structure(F) != s0
    except Exception:
        struct_changed = True
    if struct_changed or (changed_u and full1 != full0):
        fire(f"{cls}.{m}|frozen|frozen-network-changed", f"{op!r} changed a frozen network ({out_f})", witness)
        return
    mon.sample(f"{cls}: {op!r} unfrozen:{out_u}/changed={changed_u} frozen:{out_f}", cap=12)


def extra_coverage(mon):
    muts = sorted(k[8:] for k in mon.counters if k.startswith("mutator:"))
    probed = sorted(k[7:] for k in mon.counters if k.startswith("probed:"))
    unprobed = sorted(k[9:] for k in mon.counters if k.startswith("unprobed:"))
    if len(muts) >= 40:
        mon.counters["mutators-discovered>=40"] = 1
    if len(unprobed) <= 3:
        mon.counters["unprobed<=3"] = 1
    return {"mutators_discovered_by_probing": muts, "callables_probed": len(probed), "callables_unprobed": unprobed}
