"""C12 - matrix representations encode the network exactly (DESIGN §2 C12).

Post-condition monitor: every function of xgi/linalg/hypergraph_matrix.py and
xgi/linalg/laplacian_matrix.py is called with every option combination on a seeded
hypergraph; the returned array (sparse -> toarray()) is read *through the returned index
maps* and compared with a direct construction from `list(H.nodes)` and
`H.edges.members(dtype=dict)`:

  incidence      I[v, e] = 1 iff v in e, e restricted to the requested order
  adjacency      symmetric, zero diagonal; c(u, v) = #edges (of the order) containing both;
                 entry = c if weighted else 1, when c >= s, else 0
  degree         K[v] = #edges (of the order) containing v
  intersection   P[e, f] = |e & f|
  clique motif   c(u, v) over all orders, zero diagonal
  tensor         T[i_0..i_d] = 1 (1/d! when normalized) iff {i_0..i_d} is an edge of order d
  laplacian      L_d = d K_d - A_d (/ d when rescaled): zero row sums, symmetric, PSD
  multiorder     sum_d w_d L_d / mean(K_d) over the orders that occur: zero row sums,
                 symmetric, PSD when all w_d >= 0
  normalized     Zhou et al.  I - Dv^-1/2 H W De^-1 H^T Dv^-1/2,  Dv(v) = sum_{e ni v} w(e),
                 De(e) = |e|: symmetric, PSD

plus sparse == dense (array and index maps) for every combination and index=False ==
index=True.  Key = "<function>|<option / trigger class>|<clause>".

Known finding, classified exactly: for weighted=True with a non-unit weight the result is compared
with Zhou's matrix AND with the matrix that precisely the known defect produces (Dv = unweighted
degree, W and De as in the textbook).  Equal to Zhou -> fine (PSD demanded); equal to the known-defect
matrix -> key "...|weighted=True,non-unit-weights|not-textbook-or-not-PSD"; equal to neither ->
"...|neither-textbook-nor-known-defect" (a VIOLATION even while the known finding is open).

Kind "scale": a handful of large hypergraphs whose sizes are a function of idx only and cross the narrow-dtype boundaries
(127/128, 255/256, a few hundred): two edges of 330-340 members sharing 270, nested edges of 127..257 and 300 members, a hub of
degree > 300, 260 and 130 parallel edges, pairs with multiplicity 127..257, hubs of degree 127..257.  Same definitions, accumulated
edge by edge into int64 / float64 arrays; every function except adjacency_tensor (n^(d+1) memory); key trigger starts with "scale,".

Kind "stale": the whole battery on a network, then 1-3 in-place edits through the public API that
keep the node-ID set and the edge-ID set (add_node_to_edge, remove_node_from_edge, a changed weight,
remove_edge + add_edge of other members under the same ID), then the whole battery again against the
CURRENT members; failures that only appear after the edit carry the trigger tag "after-in-place-edit".
"""
from itertools import permutations
from math import factorial

import numpy as np
from scipy.sparse import issparse

from .. import ops, snap
from ..env import xgi
from ..monitor import short

XGIError = xgi.exception.XGIError

PID = "C12"
ANCHORS = ("xgi/linalg/hypergraph_matrix.py", "xgi/linalg/laplacian_matrix.py")
TECHNIQUE = "runtime monitoring: post-condition monitor against brute-force construction from members()"
RULE = (
    "case = one seeded hypergraph (<= 8 nodes, <= 10 edges of size 1-5; node labels int / gapped+negative / str / float / mixed str+number; "
    "edge IDs automatic / gapped / permuted / str; multi-edges, singletons, isolated nodes added before or after the edges, optional edge "
    "'weight' attributes) or one forced degenerate shape (no nodes, nodes only, singletons only, uniform, one edge, multi-edges only) put through "
    "the whole battery: incidence order{None,0..4} x sparse; adjacency order{None,0..3} x s{1,2,3} x weighted x sparse; degree x order; "
    "intersection profile x order x sparse; clique motif x sparse; tensor order{0..3} x normalized; laplacian order{1..4} x rescale x sparse; "
    "3 multiorder (orders, weights) lists x rescale x sparse; normalized laplacian x weighted x sparse; index=False on a seeded third of the calls. "
    "edge weights: none / unit / positive ints+floats / some 0 and 0.0 / partly missing (default 1) / numpy scalars. "
    "kind stale = battery, 1-3 in-place edits keeping both ID sets, battery again on the same object. "
    "one evaluation = one returned array (and its maps) compared with the brute-force construction. "
    "distinct_nontrivial = distinct (function, options, network structure) with at least one node and one edge"
)
ASSUMPTIONS = [
    "the brute-force side reads the network only through list(H.nodes) and H.edges.members(dtype=dict); edge weights are the ones the generator set itself",
    "float results are compared with atol 1e-9 (entries are O(10), n <= 8); PSD means lambda_min((M+M^T)/2) >= -1e-9 * max(1, max|M|); integer results exactly",
    "adjacency with weighted=True and s > 1: entry = shared-edge count when the count is >= s, else 0 (i, j are 'connected' only when they share >= s edges)",
    "documented degenerate returns are accepted: (0, 0) array with empty maps from incidence_matrix / intersection_profile when there is no node or no edge "
    "of the requested order; an *empty* node index map next to an all-zero (n, n) / (n,) / (n,)*(d+1) result when no edge of the requested order exists "
    "(any row assignment is then consistent); otherwise the map must be a bijection range(n) -> nodes",
    "Laplacians are driven with orders >= 1 only (order 0 with rescale_per_node divides by zero; the textbook L_d is defined for d >= 1)",
    "normalized_hypergraph_laplacian: non-negative weights (0 and 0.0 included) on inputs where Zhou's matrix is defined: no empty edge, every node of positive weighted degree "
    "(when an in-place weight change makes a weighted degree zero the call is made, a raise or a return is counted, nothing is asserted); with isolated nodes the documented XGIError is expected and counted",
    "the known finding is recognised only when the result equals, within 1e-9, the matrix computed with the unweighted vertex degree; any other deviation in the same input class has its own key",
    "empty edges (order -1) occur in ~6% of the hypergraphs for all functions except the normalized Laplacian",
    "the `weight` callback of incidence_matrix is not part of the statement and is left at its default",
    "kind scale: adjacency_tensor is not driven (memory n^(d+1)); |e & f| for all pairs is X^T X in int64 on the oracle's own incidence array, cross-checked against set intersections on 3000 seeded pairs; "
    "tolerances are relative to the largest expected entry (1e-9 entries, 1e-7 row sums / lambda_min); OpenBLAS is set to one thread for speed only",
    "argument types: order, s and the elements of orders are passed as Python int (about 5/8 of the calls), np.int64, np.int32, np.intp or (for 0 / 1) Python bool; "
    "multiorder weights also as np.float64 / np.float32 / np.int64 / bool; the flags sparse / weighted / rescale_per_node / normalized as np.bool_ in 8% of the calls; the oracle uses the plain values. "
    "A failure whose result differs from the same call with plain Python arguments gets the trigger tag 'numpy-or-bool-argument'",
    "adjacency_tensor with a NumPy-integer order raises TypeError('Expected int as r') on the unchanged tree whenever an edge of that order exists (itertools.permutations refuses numpy integers); "
    "the docstring says `order : int`, so this loud refusal is counted as a rejection (narrowly: that function, that message, a numpy order) and the call is repeated with a Python int",
]
CASE_TIMEOUT = 120

ORDERS = (None, 0, 1, 2, 3)
LABEL_KINDS = ("int", "gap", "str", "float", "mixed")
DEGENERATE = ("no-nodes", "nodes-only", "singletons-only", "uniform", "one-edge", "multi-only", "all-isolated-but-one-edge")
FUNCS = (
    "incidence_matrix", "adjacency_matrix", "degree_matrix", "intersection_profile", "clique_motif_matrix",
    "adjacency_tensor", "laplacian", "multiorder_laplacian", "normalized_hypergraph_laplacian",
)


def plan(tier):
    if tier == "quick":
        return {"random": 250, "degenerate": 70, "stale": 52, "scale": 6}
    return {"random": 40000, "degenerate": 8000, "stale": 6000, "scale": 96}


def floors(tier):
    q = tier == "quick"
    f = {f"fn:{n}": (400 if q else 50000) for n in FUNCS}
    f["fn:clique_motif_matrix"] = 300 if q else 50000
    f["fn:normalized_hypergraph_laplacian"] = 200 if q else 30000
    f.update({
        "sparse==dense": 4000 if q else 500000,
        "index=False": 1500 if q else 200000,
        "psd-checked": 1500 if q else 200000,
        "row-sums-checked": 1500 if q else 200000,
        "degenerate:no-edge-of-order": 1000,
        "shape:no-nodes": 5, "shape:nodes-only": 5, "shape:uniform": 20, "shape:isolated-nodes": 25, "shape:multi-edges": 40, "shape:singletons": 40,
        "normalized:weighted=True,unit-weights": 30, "normalized:weighted=True,non-unit-weights": 30, "normalized:weighted=False": 60,
        "normalized:rejected-isolates": 20,
        "adjacency:s>1-and-count>=s": 30,
        "normalized:weighted=True,zero-weight-present": 25, "normalized:weighted=True,numpy-scalar-weights": 15,
        "stale:completed": 26, "stale:members-changed": 18,
        "scale:completed": 3, "scale:edge-size>=256": 1, "scale:intersection>=256": 1, "scale:degree>=256": 2, "scale:multiplicity>=256": 1,
        "scale:degree>=128": 2, "scale:multiplicity>=128": 1, "scale:intersection>=128": 1,
        **{f"scale:fn:{n}": 4 for n in FUNCS if n != "adjacency_tensor"}, "scale:fn:intersection_profile": 20, "scale:fn:adjacency_matrix": 100,
        "argtype:order:numpy.int64": 3000, "argtype:order:numpy.int32": 1500, "argtype:order:builtins.bool": 600,
        "argtype:s:numpy.int64": 2000, "argtype:s:numpy.int32": 1000, "argtype:s:builtins.bool": 300,
        "argtype:orders:numpy.int64": 800, "argtype:orders:numpy.int32": 400, "argtype:orders:builtins.bool": 100,
        "argtype:weights:numpy.float64": 800, "argtype:weights:numpy.int64": 200, "argtype:sparse:numpy.bool": 1000,
        **{f"stale:first-edit:{m}": 5 for m in MUTATIONS},
    })
    f.update({f"labels:{k}": 15 for k in LABEL_KINDS})
    return f


# ---------------------------------------------------------------------------------
# workload
# ---------------------------------------------------------------------------------
def _node_pool(rng, kind):
    k = rng.randint(3, 8)
    if kind in ("int", "gap", "str"):
        return ops.node_pool(rng, kind, k)[1]
    if kind == "float":
        return rng.sample([0.5, 1.5, -2.25, 3.0, 10.0, 7.125, -0.5, 2.0, 100.5], k)
    return rng.sample([0, 3, -4, 2.5, "a", "b", "n10", "n2", 17, "x"], k)  # mixed


WEIGHT_KINDS = ("none", "unit", "non-unit", "zero-some", "partial", "numpy", "non-unit", "zero-some")
MUTATIONS = ("add_node_to_edge", "remove_node_from_edge", "set-weight", "readd-same-id")
KNOWN_CLAUSE = "not-textbook-or-not-PSD"
FLAGS = ("sparse", "weighted", "rescale_per_node", "normalized")


def draw_weights(rng, wk, edges):
    """One attribute dict per edge.  Weights are non-negative (int / float / numpy scalars, 0 and 0.0 included, missing = 1);
    every node that belongs to an edge keeps a positive weighted degree, so Zhou's matrix stays defined."""
    out = []
    for _ in edges:
        a, r = {}, rng.random()
        if wk == "unit" and r < 0.7:
            a["weight"] = rng.choice((1, 1.0, np.float64(1.0)))
        elif wk == "non-unit":
            a["weight"] = rng.choice((2, 5, 0.5, 3.75, 1, 10))
        elif wk == "partial" and r < 0.5:
            a["weight"] = rng.choice((2, 0.25, 7, 1.5))
        elif wk == "numpy" and r < 0.75:
            a["weight"] = rng.choice((np.float64(2.5), np.int64(3), np.float32(0.5), np.float64(0.0), np.int64(1), np.int64(0)))
        elif wk == "zero-some":
            if r < 0.35:
                a["weight"] = rng.choice((0, 0.0))
            elif r < 0.75:
                a["weight"] = rng.choice((2, 0.5, 1, 3.0))
        out.append(a)
    if wk in ("zero-some", "numpy") and edges:
        w = lambda j: out[j].get("weight", 1)
        deg = lambda v: sum(w(j) for j, e in enumerate(edges) if v in e)
        if wk == "zero-some" and all(w(j) != 0 for j in range(len(edges))):
            # make sure a zero weight is present whenever one edge can carry it
            cand = [j for j, e in enumerate(edges) if e and all(deg(v) - w(j) > 0 for v in e)]
            if cand:
                out[rng.choice(cand)]["weight"] = rng.choice((0, 0.0))
        for v in {v for e in edges for v in e}:
            if deg(v) <= 0:
                j = rng.choice([j for j, e in enumerate(edges) if v in e])
                if rng.random() < 0.5:
                    out[j].pop("weight")
                else:
                    out[j]["weight"] = rng.choice((2, 0.5))
    return out


def build(rng, kind, idx):
    """-> (H, weights {eid: w}, description, label kind).  Built with add_node(s) / add_edge only (DESIGN §1.4 gotchas).

    Label kind, weight class and (for kind "degenerate") the forced shape cycle with idx so that the coverage floors
    are met for every seed; everything else is drawn from rng."""
    lk = LABEL_KINDS[idx % len(LABEL_KINDS)]
    pool = _node_pool(rng, lk)
    H = xgi.Hypergraph()
    shape = "random"
    if kind == "degenerate":
        shape = DEGENERATE[(idx // len(LABEL_KINDS)) % len(DEGENERATE)]
    edges = []
    if shape == "random":
        m = rng.randint(1, 10)
        for _ in range(m):
            if edges and rng.random() < 0.2:
                edges.append(list(rng.choice(edges)))  # multi-edge
            else:
                edges.append(ops.rand_members(rng, pool, 1, rng.choice((2, 3, 3, 4, 5))))
        if rng.random() < 0.06:
            edges.insert(rng.randrange(len(edges) + 1), [])
    elif shape == "singletons-only":
        edges = [[rng.choice(pool)] for _ in range(rng.randint(1, 5))]
    elif shape == "uniform":
        d = rng.randint(1, min(4, len(pool)))
        edges = [rng.sample(pool, d) for _ in range(rng.randint(1, 6))]
    elif shape in ("one-edge", "all-isolated-but-one-edge"):
        edges = [ops.rand_members(rng, pool, 1, 4)]
    elif shape == "multi-only":
        e = ops.rand_members(rng, pool, 2, 4)
        edges = [list(e) for _ in range(rng.randint(2, 4))]
    # isolated / pre-ordered nodes
    pre = post = []
    if shape in ("nodes-only", "all-isolated-but-one-edge"):
        pre = rng.sample(pool, rng.randint(1, len(pool)))
    elif shape != "no-nodes":
        r = rng.random()
        if r < 0.3:
            pre = rng.sample(pool, rng.randint(1, len(pool)))
        elif r < 0.5:
            post = rng.sample(pool, rng.randint(1, len(pool)))
    if shape == "no-nodes":
        edges = []
    if pre:
        H.add_nodes_from(pre)
    # edge ids: all automatic or all explicit (never mixed: C04 territory)
    ek = rng.choice(("auto", "auto", "gap", "perm", "str"))
    ids = [None] * len(edges) if ek == "auto" else ops.eid_pool(rng, ek, 10)[1][: len(edges)]
    # weights for the normalised Laplacian
    wk = WEIGHT_KINDS[(idx // len(LABEL_KINDS)) % len(WEIGHT_KINDS)]
    weights = {}
    for e, i, attr in zip(edges, ids, draw_weights(rng, wk, edges)):
        if i is None:
            before = set(H.edges)
            H.add_edge(list(e), **attr)
            (i,) = set(H.edges) - before
        else:
            H.add_edge(list(e), idx=i, **attr)
        weights[i] = attr.get("weight", 1)
    if post:
        H.add_nodes_from(post)
    return H, weights, f"shape={shape} labels={lk} eids={ek} weights={wk}", lk


# ---------------------------------------------------------------------------------
# brute force
# ---------------------------------------------------------------------------------
class Truth:
    def __init__(self, H):
        self.nodes = list(H.nodes)
        self.mem = {e: frozenset(m) for e, m in H.edges.members(dtype=dict).items()}
        self.n = len(self.nodes)

    def edges(self, order):
        return [e for e, m in self.mem.items() if order is None or len(m) - 1 == order]

    def shared(self, order):
        c = {}
        for e in self.edges(order):
            for u in self.mem[e]:
                for v in self.mem[e]:
                    if u != v:
                        c[(u, v)] = c.get((u, v), 0) + 1
        return c

    def degree(self, order):
        k = {v: 0 for v in self.nodes}
        for e in self.edges(order):
            for v in self.mem[e]:
                k[v] += 1
        return k

    def laplacian(self, order, rescale):
        k, c = self.degree(order), self.shared(order)
        div = order if rescale else 1
        out = {(u, v): -x / div for (u, v), x in c.items()}
        for v in self.nodes:
            out[(v, v)] = order * k[v] / div
        return out

    def multiorder(self, orders, ws, rescale):
        out = {}
        for d, w in zip(orders, ws):
            k = self.degree(d)
            if not any(k.values()):
                continue
            mean = sum(k.values()) / self.n
            for key, x in self.laplacian(d, rescale).items():
                out[key] = out.get(key, 0.0) + w * x / mean
        return out

    def weighted_degree(self, weights):
        dv = {v: 0.0 for v in self.nodes}
        for e, m in self.mem.items():
            for v in m:
                dv[v] += float(weights[e])
        return dv

    def normalized(self, weights, unweighted_dv=False):
        """Zhou et al.; with unweighted_dv=True the matrix the *known* defect produces: Dv counts the edges of a node while
        W and De are as in the textbook."""
        dv = self.weighted_degree({e: 1 for e in self.mem} if unweighted_dv else weights)
        out = {(v, v): 1.0 for v in self.nodes}
        for e, m in self.mem.items():
            for u in m:
                for v in m:
                    out[(u, v)] = out.get((u, v), 0.0) - float(weights[e]) / len(m) / (dv[u] * dv[v]) ** 0.5
        return out


def dense(M):
    return M.toarray() if issparse(M) else np.asarray(M)


def bijection(d, n, targets):
    """d maps range(n) one-to-one onto `targets`."""
    try:
        return isinstance(d, dict) and set(d.keys()) == set(range(n)) and len(set(d.values())) == n and set(d.values()) == set(targets) and len(targets) == n
    except TypeError:
        return False


def node_square(M, rowdict, truth, exp, tol, integer_zero_ok=True):
    """Compare an (n, n) node-indexed array with exp[(u, v)] (missing = 0).  -> None | (clause, text)."""
    n = truth.n
    if M.shape != (n, n):
        return "shape-wrong", f"shape {M.shape}, expected {(n, n)}"
    nz = any(abs(x) > tol for x in exp.values())
    if rowdict == {} and n > 0:
        if nz:
            return "index-map-wrong", "empty index map although the expected matrix is not zero"
        if np.any(np.abs(M) > tol) or np.any(np.isnan(M)):
            return "entries-wrong", f"expected the zero matrix, got\n{M}"
        return None
    if not bijection(rowdict, n, truth.nodes):
        return "index-map-wrong", f"index map {rowdict} is not a bijection onto the nodes {truth.nodes}"
    E = np.zeros((n, n))
    pos = {v: i for i, v in rowdict.items()}
    for (u, v), x in exp.items():
        E[pos[u], pos[v]] = x
    if np.any(np.isnan(M)) or not np.allclose(M, E, rtol=0, atol=tol):
        i, j = np.unravel_index(np.argmax(np.nan_to_num(np.abs(M - E), nan=np.inf)), M.shape)
        return "entries-wrong", f"entry ({rowdict[i]!r}, {rowdict[j]!r}) is {M[i, j]}, expected {E[i, j]}\ngot\n{M}\nexpected\n{E}"
    return None


def results_equal(r1, r2):
    if len(r1) != len(r2):
        return False
    a, b = dense(r1[0]), dense(r2[0])
    return a.shape == b.shape and np.allclose(a, b, rtol=0, atol=1e-12, equal_nan=True) and tuple(r1[1:]) == tuple(r2[1:])


def lam_min(M):
    if M.shape[0] == 0:
        return 0.0
    if not np.all(np.isfinite(M)):
        return float("-inf")
    return float(np.linalg.eigvalsh((M + M.T) / 2).min())


def psd(M):
    return lam_min(M) >= -1e-9 * max(1.0, float(np.abs(M).max()) if M.size else 1.0)


# ---------------------------------------------------------------------------------
# the battery
# ---------------------------------------------------------------------------------
class Battery:
    def __init__(self, mon, rng, H, weights, desc, tag=None, untagged=()):
        self.mon, self.rng, self.H, self.weights, self.desc, self.tag = mon, rng, H, weights, desc, tag
        self.untagged = set(untagged)  # functions that already failed before the edit: same mechanism, same key
        self.t = Truth(H)
        self.struct = (tuple(map(repr, self.t.nodes)), tuple((repr(e), tuple(sorted(map(repr, m)))) for e, m in self.t.mem.items()))
        self.failed = set()
        self.failed_other = set()
        self.last = None
        self.nfail = 0  # failures since the last sparse/dense comparison: consequences of one failure are not reported again
        self.call_failed = False

    def witness(self, call):
        return f"{call}\non {snap.pretty(self.H)}\n({self.desc})"

    def fire(self, fn, trig, clause, call, text):
        if self.last is not None and clause != KNOWN_CLAUSE:
            # did the numpy / bool argument matter?  same call with plain Python arguments: a different result = another mechanism
            f, kw, r, typed = self.last
            self.last = None
            try:
                differs = not results_equal(r, f(self.H, **kw, index=True))
            except Exception:
                differs = True
            if differs:
                trig = f"{trig},numpy-or-bool-argument"
                text = f"{text}\n(arguments passed as {typed}; plain Python arguments give a different result)"
        if self.tag and clause != KNOWN_CLAUSE and fn not in self.untagged:  # the known defect is the same mechanism before and after an edit
            trig = f"{trig},{self.tag}"
        key = f"{fn}|{trig}|{clause}"
        self.nfail += 1
        self.call_failed = True
        self.failed.add(fn)
        if clause != KNOWN_CLAUSE:
            self.failed_other.add(fn)
        self.mon.fail(key, f"{call}: {text}", self.witness(call))

    # -- argument types ---------------------------------------------------------------
    def cast_int(self, x):
        """An integer option as Python int (5/8 or 5/9), np.int64 / np.int32 / np.intp, or Python bool when it is 0 or 1."""
        if x is None or isinstance(x, bool):
            return x
        pool = [int] * 5 + [np.int64, np.int32, np.intp] + ([bool] if x in (0, 1) else [])
        return self.rng.choice(pool)(x)

    def cast_weight(self, x):
        r = self.rng.random()
        if r < 0.6:
            return x
        if r < 0.85:
            return np.float64(x)
        if isinstance(x, int):
            return np.int64(x) if r < 0.95 or x not in (0, 1) else bool(x)
        return np.float32(x) if float(np.float32(x)) == x else np.float64(x)

    def invoke(self, f, **kw):
        """f(H, **kw, index=True) with the integer-like options (order, s, elements of orders / weights) and, now and then, the
        flags passed as numpy scalars or Python bool.  The oracle keeps using the plain values in `kw`."""
        ckw, typed = {}, []
        for k, v in kw.items():
            if k in ("order", "s"):
                c = self.cast_int(v)
            elif k == "orders":
                c = [self.cast_int(x) for x in v]
            elif k == "weights":
                c = [self.cast_weight(x) for x in v]
            elif k in FLAGS and self.rng.random() < 0.08:
                c = np.bool_(v)
            else:
                c = v
            ckw[k] = c
            for a, b in zip(c if isinstance(c, list) else [c], v if isinstance(v, list) else [v]):
                if type(a) is not type(b):
                    typed.append(f"{k}:{type(a).__module__}.{type(a).__name__}")
        try:
            r = f(self.H, **ckw, index=True)
        except TypeError as exc:
            # observed on the unchanged tree: adjacency_tensor hands order + 1 to itertools.permutations, which refuses numpy integers
            if f is xgi.adjacency_tensor and isinstance(ckw.get("order"), np.integer) and "Expected int as r" in str(exc):
                self.mon.note("rejected:adjacency_tensor:numpy-integer-order(TypeError)")
                ckw["order"] = kw["order"]
                typed = [t for t in typed if not t.startswith("order:")]
                r = f(self.H, **ckw, index=True)
            else:
                raise
        self.call_failed = False
        for t in typed:
            self.mon.note("argtype:" + t)
        self.last = (f, kw, r, sorted(set(typed))) if typed else None
        return r

    def seen(self, fn, opts):
        self.mon.ev()
        self.mon.note(f"fn:{fn}")
        if self.t.n and self.t.mem:
            self.mon.nontrivial((fn, opts, self.struct))

    def degen(self, order):
        """trigger suffix for degenerate inputs (a different mechanism than the main path)."""
        if self.t.n == 0:
            self.mon.note("degenerate:no-nodes")
            return "degenerate:no-nodes"
        if not self.t.mem:
            self.mon.note("degenerate:nodes-only")
            return "degenerate:no-edge-of-order"
        if not self.t.edges(order):
            self.mon.note("degenerate:no-edge-of-order")
            return "degenerate:no-edge-of-order"
        return None

    def same(self, fn, trig, call, rs, rd):
        """sparse result tuple rs == dense result tuple rd (arrays and maps)."""
        self.last = None
        nfail, self.nfail = self.nfail, 0
        if nfail:
            return
        self.mon.note("sparse==dense")
        self.mon.ev()
        a, b = dense(rs[0]), dense(rd[0])
        if a.shape != b.shape or not np.allclose(a, b, rtol=0, atol=1e-9, equal_nan=True):
            self.fire(fn, trig, "sparse!=dense", call, f"sparse result\n{a}\ndense result\n{b}")
        elif tuple(rs[1:]) != tuple(rd[1:]):
            self.fire(fn, trig, "sparse!=dense", call, f"index maps differ: {rs[1:]} vs {rd[1:]}")

    def noindex(self, fn, trig, call, f, kw, ref):
        """index=False returns the same array as index=True (seeded third of the calls)."""
        self.last = None
        if self.rng.random() > 1 / 3 or self.call_failed:
            return
        self.mon.note("index=False")
        self.mon.ev()
        got = f(self.H, **kw, index=False)
        if isinstance(got, tuple):
            self.fire(fn, trig, "index=False-differs", call, "index=False returned a tuple")
            return
        a, b = dense(got), dense(ref)
        if issparse(got) != issparse(ref) or a.shape != b.shape or not np.allclose(a, b, rtol=0, atol=1e-12, equal_nan=True):
            self.fire(fn, trig, "index=False-differs", call, f"index=False gives\n{a}\nindex=True gave\n{b}")

    # -- incidence / intersection profile ------------------------------------------
    def incidence(self):
        fn = "incidence_matrix"
        for order in ORDERS + (4,):
            res = {}
            E = self.t.edges(order)
            trig = self.degen(order) or ("order=None" if order is None else "order=int")
            for sp in (True, False):
                call = f"incidence_matrix(H, order={order}, sparse={sp}, index=True)"
                r = self.invoke(xgi.incidence_matrix, order=order, sparse=sp)
                res[sp] = r
                self.seen(fn, (order, sp))
                M, rd, cd = dense(r[0]), r[1], r[2]
                if issparse(r[0]) != sp:
                    self.fire(fn, trig, "sparse-flag-ignored", call, f"returned {type(r[0]).__name__}")
                elif (not E or not self.t.n) and M.shape == (0, 0) and rd == {} and cd == {}:
                    self.mon.note("accepted:(0,0)-incidence")
                elif M.shape != (self.t.n, len(E)):
                    self.fire(fn, trig, "shape-wrong", call, f"shape {M.shape}, expected {(self.t.n, len(E))}")
                elif not bijection(rd, self.t.n, self.t.nodes) or not bijection(cd, len(E), E):
                    self.fire(fn, trig, "index-map-wrong", call, f"maps {rd} / {cd} are not bijections onto nodes {self.t.nodes} / edges {E}")
                else:
                    X = np.array([[1 if rd[i] in self.t.mem[cd[j]] else 0 for j in range(len(E))] for i in range(self.t.n)]).reshape(self.t.n, len(E))
                    if not np.array_equal(M, X):
                        self.fire(fn, trig, "entries-wrong", call, f"got\n{M}\nexpected\n{X}\nrows {rd} cols {cd}")
                self.noindex(fn, trig, call, xgi.incidence_matrix, dict(order=order, sparse=sp), r[0])
            self.same(fn, trig, f"incidence_matrix(H, order={order})", res[True], res[False])

    def intersection(self):
        fn = "intersection_profile"
        for order in ORDERS:
            res = {}
            E = self.t.edges(order)
            trig = self.degen(order) or ("order=None" if order is None else "order=int")
            for sp in (True, False):
                call = f"intersection_profile(H, order={order}, sparse={sp}, index=True)"
                r = self.invoke(xgi.intersection_profile, order=order, sparse=sp)
                res[sp] = r
                self.seen(fn, (order, sp))
                M, cd = dense(r[0]), r[1]
                m = len(E)
                if (not E or not self.t.n) and M.shape == (0, 0) and cd == {}:
                    self.mon.note("accepted:(0,0)-intersection")
                elif M.shape != (m, m):
                    self.fire(fn, trig, "shape-wrong", call, f"shape {M.shape}, expected {(m, m)}")
                elif not bijection(cd, m, E):
                    self.fire(fn, trig, "index-map-wrong", call, f"map {cd} is not a bijection onto edges {E}")
                else:
                    X = np.array([[len(self.t.mem[cd[i]] & self.t.mem[cd[j]]) for j in range(m)] for i in range(m)]).reshape(m, m)
                    if not np.array_equal(M, X):
                        self.fire(fn, trig, "entries-wrong", call, f"got\n{M}\nexpected |e & f|\n{X}\nindex {cd}")
                self.noindex(fn, trig, call, xgi.intersection_profile, dict(order=order, sparse=sp), r[0])
            self.same(fn, trig, f"intersection_profile(H, order={order})", res[True], res[False])

    # -- adjacency / clique motif ----------------------------------------------------
    def adjacency(self):
        fn = "adjacency_matrix"
        for order in ORDERS:
            c = self.t.shared(order)
            dg = self.degen(order)
            for s in (1, 2, 3):
                for w in (False, True):
                    trig = dg or f"weighted={w}"
                    exp = {k: (x if w else 1) for k, x in c.items() if x >= s}
                    if s > 1 and exp:
                        self.mon.note("adjacency:s>1-and-count>=s")
                    res = {}
                    for sp in (True, False):
                        kw = dict(order=order, sparse=sp, s=s, weighted=w)
                        call = f"adjacency_matrix(H, order={order}, sparse={sp}, s={s}, weighted={w}, index=True)"
                        r = self.invoke(xgi.adjacency_matrix, **kw)
                        res[sp] = r
                        self.seen(fn, (order, s, w, sp))
                        M = dense(r[0])
                        self._adj_clauses(fn, trig, call, M, r[1], exp)
                        self.noindex(fn, trig, call, xgi.adjacency_matrix, kw, r[0])
                    self.same(fn, trig, f"adjacency_matrix(H, order={order}, s={s}, weighted={w})", res[True], res[False])

    def _adj_clauses(self, fn, trig, call, M, rd, exp):
        if M.ndim == 2 and M.shape[0] == M.shape[1] and not np.array_equal(M, M.T):
            self.fire(fn, trig, "not-symmetric", call, f"got\n{M}")
        elif M.ndim == 2 and M.shape[0] == M.shape[1] and np.any(np.diag(M) != 0):
            self.fire(fn, trig, "nonzero-diagonal", call, f"got\n{M}")
        else:
            bad = node_square(M, rd, self.t, exp, 0)
            if bad:
                self.fire(fn, trig, bad[0], call, bad[1])

    def clique_motif(self):
        fn = "clique_motif_matrix"
        c = self.t.shared(None)
        trig = self.degen(None) or "any"
        res = {}
        for sp in (True, False):
            call = f"clique_motif_matrix(H, sparse={sp}, index=True)"
            r = self.invoke(xgi.clique_motif_matrix, sparse=sp)
            res[sp] = r
            self.seen(fn, (sp,))
            self._adj_clauses(fn, trig, call, dense(r[0]), r[1], c)
            self.noindex(fn, trig, call, xgi.clique_motif_matrix, dict(sparse=sp), r[0])
        self.same(fn, trig, "clique_motif_matrix(H)", res[True], res[False])

    # -- degree ----------------------------------------------------------------------
    def degree(self):
        fn = "degree_matrix"
        for order in ORDERS:
            trig = self.degen(order) or ("order=None" if order is None else "order=int")
            call = f"degree_matrix(H, order={order}, index=True)"
            K, rd = self.invoke(xgi.degree_matrix, order=order)
            self.seen(fn, (order,))
            K = np.asarray(K)
            k = self.t.degree(order)
            if K.shape != (self.t.n,):
                self.fire(fn, trig, "shape-wrong", call, f"shape {K.shape}, expected {(self.t.n,)}")
            elif rd == {} and self.t.n:
                if any(k.values()) or np.any(K != 0):
                    self.fire(fn, trig, "index-map-wrong" if any(k.values()) else "entries-wrong", call, f"empty map, K={K}, expected degrees {k}")
            elif not bijection(rd, self.t.n, self.t.nodes):
                self.fire(fn, trig, "index-map-wrong", call, f"map {rd} is not a bijection onto {self.t.nodes}")
            elif [K[i] for i in range(self.t.n)] != [k[rd[i]] for i in range(self.t.n)]:
                self.fire(fn, trig, "entries-wrong", call, f"K={K} with map {rd}, expected degrees {k}")
            self.noindex(fn, trig, call, xgi.degree_matrix, dict(order=order), K)

    # -- tensor ----------------------------------------------------------------------
    def tensor(self):
        fn = "adjacency_tensor"
        n = self.t.n
        for order in (0, 1, 2, 3):
            E = self.t.edges(order)
            dg = self.degen(order)
            for norm in (True, False):
                trig = dg or f"normalized={norm}"
                call = f"adjacency_tensor(H, order={order}, normalized={norm}, index=True)"
                B, rd = self.invoke(xgi.adjacency_tensor, order=order, normalized=norm)
                self.seen(fn, (order, norm))
                B = np.asarray(B)
                val = 1 / factorial(order) if norm else 1
                if B.shape != (n,) * (order + 1):
                    self.fire(fn, trig, "shape-wrong", call, f"shape {B.shape}, expected {(n,) * (order + 1)}")
                elif rd == {} and n:
                    if E:
                        self.fire(fn, trig, "index-map-wrong", call, "empty index map although edges of the order exist")
                    elif np.any(B != 0):
                        self.fire(fn, trig, "entries-wrong", call, "expected the zero tensor")
                elif not bijection(rd, n, self.t.nodes):
                    self.fire(fn, trig, "index-map-wrong", call, f"map {rd} is not a bijection onto {self.t.nodes}")
                else:
                    X = np.zeros((n,) * (order + 1))
                    pos = {v: i for i, v in rd.items()}
                    for e in E:
                        for p in permutations([pos[v] for v in self.t.mem[e]]):
                            X[p] = val
                    if not np.allclose(B, X, rtol=0, atol=1e-12):
                        idx = np.unravel_index(np.argmax(np.abs(B - X)), B.shape)
                        self.fire(fn, trig, "entries-wrong", call, f"entry {tuple(rd[i] for i in idx)} is {B[idx]}, expected {X[idx]}")
                self.noindex(fn, trig, call, lambda H, index, **kw: xgi.adjacency_tensor(H, order, index=index, **kw), dict(normalized=norm), B)

    # -- Laplacians ------------------------------------------------------------------
    def _lap_clauses(self, fn, trig, call, M, rd, exp, rows, nonneg, tol=1e-9):
        bad = node_square(M, rd, self.t, exp, tol)
        if bad:
            self.fire(fn, trig, bad[0], call, bad[1])
            return
        if not np.allclose(M, M.T, rtol=0, atol=tol):
            self.fire(fn, trig, "not-symmetric", call, f"got\n{M}")
            return
        if rows:
            self.mon.note("row-sums-checked")
            if M.size and np.abs(M.sum(axis=1)).max() > 1e-9 * max(1.0, np.abs(M).max()):
                self.fire(fn, trig, "row-sums-nonzero", call, f"row sums {M.sum(axis=1)}")
                return
        if nonneg:
            self.mon.note("psd-checked")
            if not psd(M):
                self.fire(fn, trig, "not-PSD", call, f"lambda_min = {lam_min(M)}\n{M}")

    def laplacian(self):
        fn = "laplacian"
        for order in (1, 2, 3, 4):
            dg = self.degen(order)
            for resc in (False, True):
                trig = dg or f"rescale_per_node={resc}"
                exp = self.t.laplacian(order, resc)
                res = {}
                for sp in (True, False):
                    kw = dict(order=order, sparse=sp, rescale_per_node=resc)
                    call = f"laplacian(H, order={order}, sparse={sp}, rescale_per_node={resc}, index=True)"
                    r = self.invoke(xgi.laplacian, **kw)
                    res[sp] = r
                    self.seen(fn, (order, resc, sp))
                    self._lap_clauses(fn, trig, call, dense(r[0]), r[1], exp, True, True)
                    self.noindex(fn, trig, call, xgi.laplacian, kw, r[0])
                self.same(fn, trig, f"laplacian(H, order={order}, rescale_per_node={resc})", res[True], res[False])

    def multiorder(self):
        fn = "multiorder_laplacian"
        rng = self.rng
        present = sorted({len(m) - 1 for m in self.t.mem.values() if len(m) > 1})
        for j in range(3):
            k = rng.randint(0, 4) if j else rng.randint(1, 3)
            orders = [rng.choice(present) if present and rng.random() < 0.6 else rng.randint(1, 4) for _ in range(k)]
            neg = j == 2 and rng.random() < 0.5
            ws = [rng.choice((0, 1, 1, 2, 0.5, 3.25)) for _ in orders]
            if neg and ws:
                ws[rng.randrange(len(ws))] = -rng.choice((1, 0.5, 2))
            nonneg = all(w >= 0 for w in ws)
            dg = "degenerate:no-nodes" if self.t.n == 0 else None
            for resc in (False, True):
                trig = dg or f"rescale_per_node={resc}"
                exp = self.t.multiorder(orders, ws, resc) if self.t.n else {}
                res = {}
                for sp in (True, False):
                    kw = dict(sparse=sp, rescale_per_node=resc)
                    call = f"multiorder_laplacian(H, {orders}, {ws}, sparse={sp}, rescale_per_node={resc}, index=True)"
                    r = self.invoke(xgi.multiorder_laplacian, orders=list(orders), weights=list(ws), **kw)
                    res[sp] = r
                    self.seen(fn, (tuple(orders), tuple(ws), resc, sp))
                    self.mon.note("multiorder:weights>=0" if nonneg else "multiorder:negative-weight")
                    self._lap_clauses(fn, trig, call, dense(r[0]), r[1], exp, True, nonneg)
                    self.noindex(fn, trig, call, lambda H, index, **kw2: xgi.multiorder_laplacian(H, list(orders), list(ws), index=index, **kw2), kw, r[0])
                self.same(fn, trig, f"multiorder_laplacian(H, {orders}, {ws}, rescale_per_node={resc})", res[True], res[False])
        try:
            xgi.multiorder_laplacian(self.H, [1, 2], [1.0])
            self.mon.note("accepted:multiorder-length-mismatch")
        except ValueError:
            self.mon.note("rejected:multiorder-length-mismatch")

    def normalized(self):
        fn = "normalized_hypergraph_laplacian"
        if any(len(m) == 0 for m in self.t.mem.values()):
            self.mon.note("normalized:skipped-empty-edge")
            return
        member = set().union(*self.t.mem.values()) if self.t.mem else set()
        isolates = [v for v in self.t.nodes if v not in member]
        if isolates:
            for w in (False, True):
                for sp in (True, False):
                    try:
                        xgi.normalized_hypergraph_laplacian(self.H, weighted=w, sparse=sp, index=True)
                        self.mon.note("normalized:returned-despite-isolates")
                    except XGIError:
                        self.mon.note("normalized:rejected-isolates")
            return
        nonunit = any(x != 1 for x in self.weights.values())
        haszero = any(x == 0 for x in self.weights.values())
        undefined = any(d <= 0 for d in self.t.weighted_degree(self.weights).values())
        for w in (False, True):
            if w and undefined:
                # a node of zero weighted degree: Zhou's matrix is undefined, nothing is asserted
                for sp in (True, False):
                    try:
                        xgi.normalized_hypergraph_laplacian(self.H, weighted=True, sparse=sp, index=True)
                        self.mon.note("normalized:zero-weighted-degree:returned(not asserted)")
                    except XGIError:
                        self.mon.note("normalized:zero-weighted-degree:rejected")
                continue
            cls = "weighted=False" if not w else ("weighted=True,non-unit-weights" if nonunit else "weighted=True,unit-weights")
            trig = "degenerate:no-nodes" if self.t.n == 0 else cls
            self.mon.note(f"normalized:{cls}")
            if w and haszero:
                self.mon.note("normalized:weighted=True,zero-weight-present")
            if w and any(isinstance(x, np.generic) for x in self.weights.values()):
                self.mon.note("normalized:weighted=True,numpy-scalar-weights")
            exp = self.t.normalized(self.weights if w else {e: 1 for e in self.t.mem})
            known = self.t.normalized(self.weights, unweighted_dv=True) if w and nonunit else None
            res = {}
            for sp in (True, False):
                kw = dict(weighted=w, sparse=sp)
                call = f"normalized_hypergraph_laplacian(H, weighted={w}, sparse={sp}, index=True)"
                r = self.invoke(xgi.normalized_hypergraph_laplacian, **kw)
                res[sp] = r
                self.seen(fn, (w, sp, tuple(sorted(map(repr, self.weights.items()))) if w else ()))
                M = dense(r[0])
                if w and nonunit and self.t.n:
                    # exact classification: Zhou's matrix -> fine (then PSD is demanded like everywhere else);
                    # exactly the matrix of the known defect (unweighted Dv) -> the known key; anything else -> another key
                    bad = node_square(M, r[1], self.t, exp, 1e-9)
                    if bad and bad[0] in ("shape-wrong", "index-map-wrong"):
                        self.fire(fn, trig, bad[0], call, bad[1])
                    elif not np.allclose(M, M.T, rtol=0, atol=1e-9, equal_nan=True):
                        self.fire(fn, trig, "not-symmetric", call, f"got\n{M}")
                    elif not bad:
                        self.mon.note("normalized:non-unit:equals-textbook")
                        self.mon.note("psd-checked")
                        if not psd(M):
                            self.fire(fn, trig, "not-PSD", call, f"lambda_min = {lam_min(M)}\n{M}")
                    elif node_square(M, r[1], self.t, known, 1e-9) is None:
                        self.mon.note("normalized:non-unit:equals-known-defect")
                        self.fire(fn, trig, KNOWN_CLAUSE, call,
                                  f"the result is exactly I - Dv^-1/2 H W De^-1 H^T Dv^-1/2 with the UNWEIGHTED vertex degree; lambda_min = {lam_min(M)}; "
                                  f"weights {self.weights}; " + bad[1])
                    else:
                        self.fire(fn, trig, "neither-textbook-nor-known-defect", call,
                                  f"weights {self.weights}; the result is neither Zhou's matrix nor the matrix of the known unweighted-degree defect; lambda_min = {lam_min(M)}; " + bad[1])
                else:
                    self._lap_clauses(fn, trig, call, M, r[1], exp, False, True)
                self.noindex(fn, trig, call, xgi.normalized_hypergraph_laplacian, kw, r[0])
            self.same(fn, trig, f"normalized_hypergraph_laplacian(H, weighted={w})", res[True], res[False])

    def run(self):
        for part in (self.incidence, self.adjacency, self.degree, self.intersection, self.clique_motif, self.tensor,
                     self.laplacian, self.multiorder, self.normalized):
            self.nfail = 0
            part()


def mutate(rng, H, weights, first):
    """1-3 in-place edits through the public API that keep the node-ID set and the edge-ID set; -> list of descriptions."""
    done = []
    start = MUTATIONS.index(first)
    for step in range(rng.randint(1, 3)):
        nodes = list(H.nodes)
        mem = {e: set(m) for e, m in H.edges.members(dtype=dict).items()}
        order = [MUTATIONS[(start + j) % 4] for j in range(4)] if step == 0 else rng.sample(MUTATIONS, 4)
        for mut in order:
            if mut == "add_node_to_edge":
                cand = [(e, v) for e, m in mem.items() for v in nodes if v not in m]
                if cand:
                    e, v = rng.choice(cand)
                    H.add_node_to_edge(e, v)
                    done.append(f"H.add_node_to_edge({e!r}, {v!r})")
            elif mut == "remove_node_from_edge":
                cand = [(e, v) for e, m in mem.items() if len(m) >= 2 for v in m]
                if cand:
                    e, v = rng.choice(cand)
                    H.remove_node_from_edge(e, v)
                    done.append(f"H.remove_node_from_edge({e!r}, {v!r})")
            elif mut == "set-weight":
                if mem:
                    e = rng.choice(list(mem))
                    w = rng.choice([x for x in (0, 0.0, 2, 0.5, 1, np.float64(4.0), 7) if x != weights[e]])
                    H.set_edge_attributes({e: w}, name="weight")
                    weights[e] = w
                    done.append(f"H.set_edge_attributes({{{e!r}: {w!r}}}, name='weight')")
            else:
                if mem and len(nodes) >= 2:
                    e = rng.choice(list(mem))
                    new = None
                    for _ in range(5):
                        c = ops.rand_members(rng, nodes, 1, 4)
                        if set(c) != mem[e]:
                            new = c
                            break
                    if new is not None:
                        attr = {"weight": rng.choice((2, 0.5, 0, 3.0))} if rng.random() < 0.5 else {}
                        H.remove_edge(e)
                        H.add_edge(list(new), idx=e, **attr)
                        weights.pop(e)
                        weights[e] = attr.get("weight", 1)
                        done.append(f"H.remove_edge({e!r}); H.add_edge({new!r}, idx={e!r}, **{attr!r})")
            if len(done) > step:
                done[-1] = (mut, done[-1])
                break
        if len(done) <= step:
            break
    return done


def run_stale(mon, idx, rng):
    """Same-object staleness: whole battery, in-place edits that keep both ID sets, whole battery again against the CURRENT members."""
    H, weights, desc, lk = build(rng, "stale", idx)
    if snap.inv(H) or not H.num_edges:
        mon.note("discarded:invalid-start-state")
        return
    mon.note(f"labels:{lk}")
    b1 = Battery(mon, rng, H, weights, desc)
    b1.run()
    ids = (set(H.nodes), set(H.edges))
    before = Truth(H)
    edits = mutate(rng, H, weights, MUTATIONS[idx % 4])
    if not edits:
        mon.note("stale:no-edit-applicable")
        return
    if snap.inv(H) or (set(H.nodes), set(H.edges)) != ids or set(weights) != ids[1]:
        mon.note("stale:discarded-after-edit")
        return
    after = Truth(H)
    mon.note("stale:first-edit:" + edits[0][0])
    edits = [text for _, text in edits]
    if before.mem != after.mem:
        mon.note("stale:members-changed")
    b2 = Battery(mon, rng, H, weights, desc + "; computed once, then edited in place: " + "; ".join(edits), tag="after-in-place-edit", untagged=b1.failed_other)
    b2.run()
    mon.note("stale:completed")
    if not b1.failed and not b2.failed:
        mon.sample(f"stale: {desc}; edits {edits}; now {snap.pretty(H)}")


# ---------------------------------------------------------------------------------
# kind "scale": sizes that cross narrow-dtype boundaries (127/128, 255/256, a few hundred)
# ---------------------------------------------------------------------------------
SCALE_SHAPES = ("two-huge-edges", "nested-boundary-edges", "hub-300", "parallel-260-and-130", "boundary-multiplicities", "boundary-degree-hubs")
SCALE_S = (1, 2, 127, 128, 129, 130, 131, 255, 256, 257, 260, 261)


def build_scale(rng, idx):
    """Sizes are a function of idx only (shape = idx % 6, growth = idx // 6); rng shuffles insertion orders and picks labels."""
    shape, v = SCALE_SHAPES[idx % len(SCALE_SHAPES)], idx // len(SCALE_SHAPES)
    lk = ("int", "str", "gap")[idx % 3]
    N = 460 + 4 * v
    labels = {"int": list(range(N)), "str": [f"n{i}" for i in range(N)], "gap": [7 * i - 300 for i in range(N)]}[lk]
    rng.shuffle(labels)
    edges, weights = [], None
    if shape == "two-huge-edges":
        a, b, ov = 330 + 3 * v, 340 + 2 * v, 270 + v
        edges = [labels[:a], labels[a - ov: a - ov + b], labels[:3], labels[1:3], labels[a - 1: a + 2]]
    elif shape == "nested-boundary-edges":
        edges = [labels[:k] for k in (127, 128, 129, 255, 256, 257, 300 + 5 * v)] + [labels[250:262], labels[255:257]]
    elif shape == "hub-300":
        hub = labels[0]
        edges = [[hub, x] for x in labels[1: 301 + 2 * v]] + [[hub, labels[1]]] * 130 + [[hub, labels[2], labels[3]]] * 3
        weights = "non-unit"
    elif shape == "parallel-260-and-130":
        a, b, c = labels[:3]
        edges = [[a, b]] * (260 + v) + [[a, b, c]] * (130 + v) + [[c, labels[3]], [labels[3], labels[4], labels[5]]]
    elif shape == "boundary-multiplicities":
        edges = []
        for j, mult in enumerate((127, 128, 129, 255, 256, 257)):
            edges += [[labels[2 * j], labels[2 * j + 1]]] * mult
        edges += [[labels[0], labels[2], labels[4]]] * (3 + v)
    else:  # boundary-degree-hubs: stars of exactly these degrees over one common pool of leaves
        degs = (127, 128, 129, 256, 257 + v)
        hubs, leaves = labels[: len(degs)], labels[len(degs): len(degs) + 300 + v]
        for hub, deg in zip(hubs, degs):
            edges += [[hub, x] for x in leaves[:deg]]
        edges += [[leaves[0], leaves[128], leaves[257]]]
        weights = "zero-some"
    rng.shuffle(edges)
    H = xgi.Hypergraph()
    used = list(dict.fromkeys(x for e in edges for x in e))
    if idx % 2:
        pre = list(used)
        rng.shuffle(pre)
        H.add_nodes_from(pre)
    ids = list(range(len(edges))) if idx % 4 < 2 else [f"e{j}" for j in rng.sample(range(len(edges)), len(edges))]
    w = {}
    for j, (e, i) in enumerate(zip(edges, ids)):
        attr = {}
        if weights == "non-unit" and j % 3 == 0:
            attr["weight"] = (2, 0.5, 5, np.float64(1.5))[j % 4]
        elif weights == "zero-some" and j % 5 == 0 and len(e) == 2 and j > 0:
            attr["weight"] = (0, 0.0, 3)[j % 3]
        H.add_edge(list(e), idx=i, **attr)
        w[i] = attr.get("weight", 1)
    return H, w, f"scale shape={shape} idx={idx} labels={lk} nodes={len(used)} edges={len(edges)} sizes={sorted({len(e) for e in edges})}", shape


class Scale:
    """The same definitions as Truth, vectorised: everything is accumulated from members() into int64 / float64 arrays."""

    def __init__(self, mon, rng, H, weights, desc):
        self.mon, self.rng, self.H, self.w, self.desc = mon, rng, H, weights, desc
        self.nodes = list(H.nodes)
        self.mem = {e: frozenset(m) for e, m in H.edges.members(dtype=dict).items()}
        self.eids = list(self.mem)
        self.n, self.m = len(self.nodes), len(self.eids)
        self.pos = {v: i for i, v in enumerate(self.nodes)}
        self.epos = {e: j for j, e in enumerate(self.eids)}
        self.ix = {e: np.array(sorted(self.pos[v] for v in self.mem[e]), dtype=np.int64) for e in self.eids}
        self.X = np.zeros((self.n, self.m), dtype=np.int64)
        for e, ix in self.ix.items():
            self.X[ix, self.epos[e]] = 1
        self.orders = sorted({len(m) - 1 for m in self.mem.values()})
        self._C = {}
        self.failed = False
        self.nf = {}  # failures per function since its last sparse/dense comparison (a failed member is not compared again)

    def of(self, order):
        return [e for e in self.eids if order is None or len(self.mem[e]) - 1 == order]

    def shared(self, order):
        """C[u, v] = number of edges (of the order) containing both, u != v; accumulated edge by edge (grouped by member set)."""
        if order not in self._C:
            C = np.zeros((self.n, self.n), dtype=np.int64)
            groups = {}
            for e in self.of(order):
                groups[self.mem[e]] = groups.get(self.mem[e], 0) + 1
            for ms, mult in groups.items():
                ix = np.array([self.pos[v] for v in ms], dtype=np.int64)
                C[np.ix_(ix, ix)] += mult
            np.fill_diagonal(C, 0)
            self._C[order] = C
        return self._C[order]

    def degree(self, order):
        K = np.zeros(self.n, dtype=np.int64)
        for e in self.of(order):
            K[self.ix[e]] += 1
        return K

    def laplacian(self, order, rescale):
        L = (order * np.diag(self.degree(order)) - self.shared(order)).astype(float)
        return L / order if rescale else L

    def normalized(self, weights, unweighted_dv=False):
        dv = np.zeros(self.n)
        A = np.zeros((self.n, self.n))
        for e in self.eids:
            ix = self.ix[e]
            dv[ix] += 1.0 if unweighted_dv else float(weights[e])
            A[np.ix_(ix, ix)] += float(weights[e]) / len(ix)
        d = 1 / np.sqrt(dv)
        return np.eye(self.n) - d[:, None] * A * d[None, :]

    # -- plumbing ------------------------------------------------------------------
    def fire(self, fn, trig, clause, call, text):
        self.failed = True
        self.nf[fn] = self.nf.get(fn, 0) + 1
        self.mon.fail(f"{fn}|scale,{trig}|{clause}", f"{call}: {short(text, 400)}", f"{call}\non a hypergraph built as: {self.desc}")

    def perm(self, d, targets, index):
        """Index array that reorders the oracle's rows into the returned order, or None (map is not a bijection onto targets)."""
        if not bijection(d, len(targets), targets):
            return None
        return np.array([index[d[i]] for i in range(len(targets))], dtype=np.int64)

    def square(self, fn, trig, call, M, rd, E, tol):
        if M.shape != (self.n, self.n):
            return self.fire(fn, trig, "shape-wrong", call, f"shape {M.shape}, expected {(self.n, self.n)}") or True
        p = self.perm(rd, self.nodes, self.pos)
        if p is None:
            return self.fire(fn, trig, "index-map-wrong", call, "index map is not a bijection onto the nodes") or True
        E = E[np.ix_(p, p)]
        if not np.all(np.isfinite(M)) or not np.allclose(M, E, rtol=0, atol=tol):
            i, j = np.unravel_index(np.argmax(np.nan_to_num(np.abs(M - E), nan=np.inf)), M.shape)
            return self.fire(fn, trig, "entries-wrong", call, f"entry ({rd[i]!r}, {rd[j]!r}) is {M[i, j]}, expected {E[i, j]} (max |expected| = {np.abs(E).max()})") or True
        return False

    def pair(self, fn, trig, call, res):
        if self.nf.pop(fn, 0):
            return
        self.mon.ev()
        self.mon.note("sparse==dense")
        a, b = dense(res[True][0]), dense(res[False][0])
        if a.shape != b.shape or not np.allclose(a, b, rtol=0, atol=1e-9, equal_nan=True) or tuple(res[True][1:]) != tuple(res[False][1:]):
            self.fire(fn, trig, "sparse!=dense", call, f"max |sparse - dense| = {np.abs(a - b).max() if a.shape == b.shape else 'shape'}")

    def lap(self, fn, trig, call, M, rd, E, rows, nonneg):
        scale = max(1.0, float(np.abs(E).max()))
        if self.square(fn, trig, call, M, rd, E, 1e-9 * scale):
            return
        if not np.allclose(M, M.T, rtol=0, atol=1e-9 * scale):
            return self.fire(fn, trig, "not-symmetric", call, "not symmetric")
        if rows:
            self.mon.note("row-sums-checked")
            if np.abs(M.sum(axis=1)).max() > 1e-7 * scale:
                return self.fire(fn, trig, "row-sums-nonzero", call, f"max |row sum| = {np.abs(M.sum(axis=1)).max()}")
        if nonneg:
            self.mon.note("psd-checked")
            lm = lam_min(M)
            if lm < -1e-7 * scale:
                self.fire(fn, trig, "not-PSD", call, f"lambda_min = {lm}")

    def seen(self, fn):
        self.mon.ev()
        self.mon.note(f"fn:{fn}")
        self.mon.note(f"scale:fn:{fn}")

    # -- the battery ---------------------------------------------------------------
    def run(self):
        H, mon = self.H, self.mon
        small = [o for o in self.orders if o <= 3]
        big = [o for o in self.orders if o > 3]
        orders = [None] + small[:2] + big[:2] + [max(self.orders) + 1]
        # |e & f| for all pairs: sum_v X[v, e] X[v, f] in int64, cross-checked against set intersections on a seeded sample of pairs
        P = self.X.T @ self.X
        for _ in range(min(3000, self.m * self.m)):
            i, j = self.rng.randrange(self.m), self.rng.randrange(self.m)
            assert P[i, j] == len(self.mem[self.eids[i]] & self.mem[self.eids[j]]), "oracle self-check failed"
        for order in orders:
            E = self.of(order)
            trig = "order=None" if order is None else "order=int"
            res, resP = {}, {}
            for sp in (True, False):
                call = f"incidence_matrix(H, order={order}, sparse={sp}, index=True)"
                r = res[sp] = xgi.incidence_matrix(H, order=order, sparse=sp, index=True)
                self.seen("incidence_matrix")
                M = dense(r[0])
                if not E and M.shape == (0, 0) and r[1] == {} and r[2] == {}:
                    pass
                elif M.shape != (self.n, len(E)):
                    self.fire("incidence_matrix", trig, "shape-wrong", call, f"shape {M.shape}, expected {(self.n, len(E))}")
                else:
                    pr, pc = self.perm(r[1], self.nodes, self.pos), self.perm(r[2], E, self.epos)
                    if pr is None or pc is None:
                        self.fire("incidence_matrix", trig, "index-map-wrong", call, "maps are not bijections onto nodes / edges of the order")
                    elif not np.array_equal(M, self.X[np.ix_(pr, pc)]):
                        self.fire("incidence_matrix", trig, "entries-wrong", call, f"{int((M != self.X[np.ix_(pr, pc)]).sum())} entries differ")
                call = f"intersection_profile(H, order={order}, sparse={sp}, index=True)"
                r = resP[sp] = xgi.intersection_profile(H, order=order, sparse=sp, index=True)
                self.seen("intersection_profile")
                M = dense(r[0])
                if not E and M.shape == (0, 0) and r[1] == {}:
                    pass
                elif M.shape != (len(E), len(E)):
                    self.fire("intersection_profile", trig, "shape-wrong", call, f"shape {M.shape}, expected {(len(E), len(E))}")
                else:
                    pc = self.perm(r[1], E, self.epos)
                    if pc is None:
                        self.fire("intersection_profile", trig, "index-map-wrong", call, "map is not a bijection onto the edges of the order")
                    elif not np.array_equal(M, P[np.ix_(pc, pc)]):
                        X = P[np.ix_(pc, pc)]
                        i, j = np.unravel_index(np.argmax(np.abs(M - X)), M.shape)
                        self.fire("intersection_profile", trig, "entries-wrong", call, f"entry ({r[1][i]!r}, {r[1][j]!r}) is {M[i, j]}, expected |e & f| = {X[i, j]}")
            self.pair("incidence_matrix", trig, f"incidence_matrix(H, order={order})", res)
            self.pair("intersection_profile", trig, f"intersection_profile(H, order={order})", resP)
            if not E:
                continue
            # degree
            K, rd = xgi.degree_matrix(H, order=order, index=True)
            self.seen("degree_matrix")
            p = self.perm(rd, self.nodes, self.pos)
            if p is None or np.asarray(K).shape != (self.n,):
                self.fire("degree_matrix", trig, "index-map-wrong", f"degree_matrix(H, order={order}, index=True)", "shape or index map wrong")
            elif not np.array_equal(np.asarray(K), self.degree(order)[p]):
                self.fire("degree_matrix", trig, "entries-wrong", f"degree_matrix(H, order={order}, index=True)", f"max degree returned {np.max(K)}, expected {self.degree(order).max()}")
            # adjacency
            C = self.shared(order)
            cmax = int(C.max())
            for s_ in [x for x in SCALE_S if x <= cmax + 1]:
                for w in (False, True):
                    Eadj = np.where(C >= s_, C if w else 1, 0)
                    res = {}
                    for sp in (True, False):
                        call = f"adjacency_matrix(H, order={order}, sparse={sp}, s={s_}, weighted={w}, index=True)"
                        r = res[sp] = xgi.adjacency_matrix(H, order=order, sparse=sp, s=s_, weighted=w, index=True)
                        self.seen("adjacency_matrix")
                        M = dense(r[0])
                        if M.shape == (self.n, self.n) and not np.array_equal(M, M.T):
                            self.fire("adjacency_matrix", f"weighted={w}", "not-symmetric", call, "not symmetric")
                        elif M.shape == (self.n, self.n) and np.any(np.diag(M) != 0):
                            self.fire("adjacency_matrix", f"weighted={w}", "nonzero-diagonal", call, "non-zero diagonal")
                        else:
                            self.square("adjacency_matrix", f"weighted={w}", call, M, r[1], Eadj, 0)
                    self.pair("adjacency_matrix", f"weighted={w}", f"adjacency_matrix(H, order={order}, s={s_}, weighted={w})", res)
        # clique motif
        res = {}
        for sp in (True, False):
            r = res[sp] = xgi.clique_motif_matrix(H, sparse=sp, index=True)
            self.seen("clique_motif_matrix")
            self.square("clique_motif_matrix", "any", f"clique_motif_matrix(H, sparse={sp}, index=True)", dense(r[0]), r[1], self.shared(None), 0)
        self.pair("clique_motif_matrix", "any", "clique_motif_matrix(H)", res)
        # Laplacians
        lorders = [o for o in (small + big[:2]) if o >= 1][:4] + [max(self.orders) + 1]
        for order in lorders:
            for resc in (False, True):
                E = self.laplacian(order, resc)
                res = {}
                for sp in (True, False):
                    call = f"laplacian(H, order={order}, sparse={sp}, rescale_per_node={resc}, index=True)"
                    r = res[sp] = xgi.laplacian(H, order=order, sparse=sp, rescale_per_node=resc, index=True)
                    self.seen("laplacian")
                    if r[1] == {} and not self.of(order):
                        if np.any(dense(r[0]) != 0) or dense(r[0]).shape != (self.n, self.n):
                            self.fire("laplacian", "degenerate:no-edge-of-order", "entries-wrong", call, "expected the zero matrix")
                    else:
                        self.lap("laplacian", f"rescale_per_node={resc}", call, dense(r[0]), r[1], E, True, True)
                self.pair("laplacian", f"rescale_per_node={resc}", f"laplacian(H, order={order}, rescale_per_node={resc})", res)
        present = [o for o in lorders if self.of(o)]
        for orders_, ws in ((present, [1, 0.5, 2, 1.5][: len(present)]), (present[:1] + [max(self.orders) + 1], [2.0, 1.0]), (present[::-1], [np.float64(0.25), 0, 3, 1][: len(present)])):
            for resc in (False, True):
                E = np.zeros((self.n, self.n))
                for d, w in zip(orders_, ws):
                    K = self.degree(d)
                    if K.any():
                        E += float(w) * self.laplacian(d, resc) / K.mean()
                res = {}
                for sp in (True, False):
                    call = f"multiorder_laplacian(H, {orders_}, {ws}, sparse={sp}, rescale_per_node={resc}, index=True)"
                    r = res[sp] = xgi.multiorder_laplacian(H, list(orders_), list(ws), sparse=sp, rescale_per_node=resc, index=True)
                    self.seen("multiorder_laplacian")
                    self.lap("multiorder_laplacian", f"rescale_per_node={resc}", call, dense(r[0]), r[1], E, True, True)
                self.pair("multiorder_laplacian", f"rescale_per_node={resc}", f"multiorder_laplacian(H, {orders_}, {ws}, rescale_per_node={resc})", res)
        # normalized Laplacian (no isolated node and no empty edge by construction)
        nonunit = any(x != 1 for x in self.w.values())
        for w in (False, True):
            wts = self.w if w else {e: 1 for e in self.eids}
            cls = "weighted=False" if not w else ("weighted=True,non-unit-weights" if nonunit else "weighted=True,unit-weights")
            E = self.normalized(wts)
            res = {}
            for sp in (True, False):
                call = f"normalized_hypergraph_laplacian(H, weighted={w}, sparse={sp}, index=True)"
                r = res[sp] = xgi.normalized_hypergraph_laplacian(H, weighted=w, sparse=sp, index=True)
                self.seen("normalized_hypergraph_laplacian")
                M = dense(r[0])
                if w and nonunit:
                    p = self.perm(r[1], self.nodes, self.pos)
                    if M.shape != (self.n, self.n) or p is None:
                        self.fire("normalized_hypergraph_laplacian", cls, "index-map-wrong", call, "shape or index map wrong")
                    elif not np.allclose(M, M.T, rtol=0, atol=1e-9):
                        self.fire("normalized_hypergraph_laplacian", cls, "not-symmetric", call, "not symmetric")
                    elif np.allclose(M, E[np.ix_(p, p)], rtol=0, atol=1e-9):
                        self.mon.note("psd-checked")
                        if lam_min(M) < -1e-7:
                            self.fire("normalized_hypergraph_laplacian", cls, "not-PSD", call, f"lambda_min = {lam_min(M)}")
                    elif np.allclose(M, self.normalized(wts, unweighted_dv=True)[np.ix_(p, p)], rtol=0, atol=1e-9):
                        # exactly the known defect: the known key, WITHOUT the scale tag (same mechanism at every size)
                        self.mon.fail(f"normalized_hypergraph_laplacian|{cls}|{KNOWN_CLAUSE}", f"{call}: the result is exactly the matrix built with the UNWEIGHTED vertex degree; lambda_min = {lam_min(M)}",
                                      f"{call}\non a hypergraph built as: {self.desc}")
                    else:
                        self.fire("normalized_hypergraph_laplacian", cls, "neither-textbook-nor-known-defect", call, f"max |got - Zhou| = {np.abs(M - E[np.ix_(p, p)]).max()}")
                else:
                    self.lap("normalized_hypergraph_laplacian", cls, call, M, r[1], E, False, True)
            self.pair("normalized_hypergraph_laplacian", cls, f"normalized_hypergraph_laplacian(H, weighted={w})", res)


_BLAS_SINGLE = None


def single_thread_blas():
    """Performance only (no decision depends on it): with the default thread count one eigvalsh of a 460 x 460 matrix takes seconds
    on a loaded 16-core box (thread oversubscription) and 10 ms with one thread.  threadpoolctl is not installed, so the bundled
    OpenBLAS is told directly."""
    global _BLAS_SINGLE
    if _BLAS_SINGLE is None:
        import ctypes

        _BLAS_SINGLE = []
        try:
            with open("/proc/self/maps") as f:
                paths = {line.split()[-1] for line in f if "openblas" in line and ".so" in line}
            for path in paths:
                lib = ctypes.CDLL(path)
                for name in ("openblas_set_num_threads", "openblas_set_num_threads64_", "scipy_openblas_set_num_threads", "scipy_openblas_set_num_threads64_"):
                    try:
                        getattr(lib, name)(1)
                        _BLAS_SINGLE.append(name)
                    except AttributeError:
                        pass
        except Exception:
            pass
    return _BLAS_SINGLE


def run_scale(mon, idx, rng):
    single_thread_blas()
    H, weights, desc, shape = build_scale(rng, idx)
    sc = Scale(mon, rng, H, weights, desc)
    # cheap structural sanity instead of snap.inv (which is quadratic in attribute reads): two-way incidence from the views
    ms = H.nodes.memberships()
    if set(ms) != set(sc.nodes) or any((e in ms[v]) != (v in m) for e, m in sc.mem.items() for v in list(m)[:3]) or sum(map(len, ms.values())) != sum(map(len, sc.mem.values())):
        mon.note("discarded:invalid-start-state")
        return
    mon.note(f"scale:shape:{shape}")
    P_max = max(len(m) for m in sc.mem.values())
    pairs = {}
    for m in sc.mem.values():
        pairs[m] = pairs.get(m, 0) + 1
    big = sorted(sc.mem.values(), key=len)[-2:]
    inter = len(big[0] & big[-1]) if len(big) == 2 else P_max
    for name, val in (("edge-size", P_max), ("intersection", inter), ("degree", int(sc.degree(None).max())), ("multiplicity", max(pairs.values()))):
        for bound in (128, 256):
            if val >= bound:
                mon.note(f"scale:{name}>={bound}")
    mon.nontrivial(("scale", desc))
    sc.run()
    mon.note("scale:completed")
    if not sc.failed:
        mon.sample(desc)


def run_case(mon, kind, idx, rng):
    if kind == "stale":
        return run_stale(mon, idx, rng)
    if kind == "scale":
        return run_scale(mon, idx, rng)
    H, weights, desc, lk = build(rng, kind, idx)
    bad = snap.inv(H)
    if bad:
        mon.note("discarded:invalid-start-state")
        return
    t = Truth(H)
    mon.note(f"labels:{lk}")
    mon.note("shape:no-nodes" if not t.n else "shape:nodes-only" if not t.mem else "shape:nodes-and-edges")
    if t.mem and len({len(m) for m in t.mem.values()}) == 1:
        mon.note("shape:uniform")
    member = set().union(*t.mem.values()) if t.mem else set()
    if any(v not in member for v in t.nodes):
        mon.note("shape:isolated-nodes")
    if len(set(t.mem.values())) < len(t.mem):
        mon.note("shape:multi-edges")
    if any(len(m) == 1 for m in t.mem.values()):
        mon.note("shape:singletons")
    if any(len(m) == 0 for m in t.mem.values()):
        mon.note("shape:empty-edge")
    b = Battery(mon, rng, H, weights, desc)
    b.run()
    if not b.failed:
        mon.sample(f"{desc}: {snap.pretty(H)}")
