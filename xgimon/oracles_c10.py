"""Shared pieces of the round-trip monitors C10 (in-memory converters) and C11 (files).

* `gen_net`   seeded networks of the three classes, built call by call through the public API
              (add_node / add_edge / add_simplex / net[...] = ...): isolated nodes, empty edges,
              multi-edges, explicit and automatic IDs, node / edge / network attributes.
* `obs`       observation of a network through the public views only
              (`edges.members(dtype=dict)` / `edges.dimembers(dtype=dict)`, `nodes.memberships()` /
              `nodes.dimemberships()`, `nodes[n]`, `edges[e]`, network attributes).
* `expected`  the observation a round trip has to reproduce (labels mapped by the documented casts).
* `diff`      clause-by-clause comparison; never looks at node / edge order.

Nothing in here calls a converter: the oracle side is plain Python over the views.
"""
from . import snap
from .env import xgi

CLASSES = ("Hypergraph", "DiHypergraph", "SimplicialComplex")

NODE_KINDS = ("int", "gap", "str", "digits", "latin", "odd")
EID_KINDS = ("auto", "int", "gap", "perm", "str", "str+auto", "digits", "latin", "odd")

_STR_NODES = ["a", "b", "c", "d", "e", "n1", "n10", "n2", "x", "yy", "Zq", "v_7"]
_STR_EIDS = ["e0", "e1", "e2", "f", "g", "h", "e10", "zz", "q", "r", "E_3", "k9"]

# non-ASCII labels, every character representable in latin-1 and cp1252 (and utf-8)
_LATIN_NODES = ["é", "ü", "ñ", "Zürich", "Åse", "çx", "Ölm", "naïve", "ß1", "a"]
_LATIN_EIDS = ["è0", "ö1", "Ñ2", "kø", "ûe", "Ärger", "í7", "â", "ý9", "Þ", "ðx", "e"]
# labels containing the default comment token; only used where a reader is given another `comments`
_HASH_NODES = ["#a", "b#", "c#1", "x#y", "#", "##z", "q"]

# string labels a text format could trip over: inner blanks / tabs / no-break space, number look-alikes that are not canonical ints, the
# delimiters and comment tokens of the text formats, quotes, one-character and empty labels.  No leading/trailing whitespace (the readers
# strip lines), every character representable in latin-1 / cp1252.  Text cases filter the pool by what their delimiter/comment token allows.
_ODD_NODES = ["New York", "a b c", "tab\tin", "x\u00a0y", "007", "1e3", "1.0", "+5", "-0", "a,b", "a;b", "a|b", "a::b", "a:b", "it's", '"q"',
              "100%", "%", "-", ".", "_", "0", "", "#1", "b#", "a//b", "São Paulo"]
_ODD_EIDS = ["e 1", "New Edge", "1.5", "e,2", "e;3", "e|4", "k'", "0x1f", "--", "E\t9", "e::5", "%e", "e#", "01", "Ünit 7", "'", "e//"]

# identifier-like, and none of them is a parameter name of add_node / add_edge / add_simplex
ATTR_NAMES = ("color", "w", "tag", "weight", "label", "size_")
NET_ATTR_NAMES = ("name", "source", "year", "meta")
# attribute names that are only ever applied through the attribute-dict API (set_*_attributes with a dict of dicts, net.nodes[n][k] = v,
# net[k] = v), never as keyword arguments: parameter names of the functions involved, non-identifiers, HIF / JSON field names
PARAM_NAMES = ("node", "members", "idx", "edge", "attr", "self", "data", "nodes", "edges", "name", "values")
FIELD_NAMES = ("my key", "a-b", "", "weight", "attrs", "incidences", "network-type", "metadata", "node-data", "edge-dict", "hypergraph-data", "type", "direction", "1", "ü")
# what the unchanged tree cannot carry (established by probing every name x place x class x representation): from_hif_dict creates isolated nodes
# with add_node(n, **attrs) and empty edges with add_edge(members, idx, **attrs); from_hypergraph_dict creates *every* node with add_node(n, **attrs)
NODE_KW = frozenset({"node", "self"})
EDGE_KW = frozenset({"members", "idx", "self"})
JSON_VALUES = (
    "red", "blue", "", "ü x", 1, 2, -3, 0, 10**12, 0.5, 1.0, -2.25, 1e-3, True, False, None,
    [1, 2], [], ["a", [1, None]], {"k": 1}, {"a": {"b": [1, None, 2.5]}}, {},
)
EXTRA_VALUES = (("t", 1), frozenset({1, 2}))  # only for the in-memory converters


def ident(x):
    return x


# -------------------------------------------------------------------------------------
# generation
# -------------------------------------------------------------------------------------
def node_pool(rng, kind, k, ok=None):
    """ok: predicate a label must satisfy (only the "odd" family is filtered; when nothing is left the plain str family is used)."""
    if kind == "odd":
        cands = [x for x in _ODD_NODES if ok is None or ok(x)] or _STR_NODES
        return rng.sample(cands, min(k, len(cands)))
    if kind == "int":
        lo = rng.choice((0, 0, 1))
        return list(range(lo, lo + k))
    if kind == "gap":
        return rng.sample(range(-6, 60), k)
    if kind == "str":
        return rng.sample(_STR_NODES, k)
    if kind == "latin":
        return rng.sample(_LATIN_NODES, k)
    if kind == "hash":
        return rng.sample(_HASH_NODES, k)
    return [str(i) for i in rng.sample(range(-4, 40), k)]  # digits


def eid_plan(rng, kind, m, ok=None):
    """List of (at most) m explicit IDs (None = automatic)."""
    if kind == "odd":  # all explicit
        cands = [x for x in _ODD_EIDS if ok is None or ok(x)] or _STR_EIDS
        return rng.sample(cands, min(m, len(cands)))
    if kind == "auto":
        return [None] * m
    if kind == "int":  # explicit 0..: includes idx=0 and mixing with automatic IDs
        ids = list(range(m))
        return [i if rng.random() < 0.7 else None for i in ids] if rng.random() < 0.5 else ids
    if kind == "gap":
        ids = rng.sample(range(-3, 40), m)
        return [i if rng.random() < 0.8 else None for i in ids]
    if kind == "perm":
        ids = list(range(m))
        rng.shuffle(ids)
        return ids
    if kind == "str":
        return rng.sample(_STR_EIDS, m)
    if kind == "str+auto":
        return [i if rng.random() < 0.6 else None for i in rng.sample(_STR_EIDS, m)]
    if kind == "latin":
        return rng.sample(_LATIN_EIDS, m)
    return [str(i) for i in rng.sample(range(-4, 40), m)]  # digits: all explicit


def rand_attrs(rng, json_only, p=0.45, maxn=2, names=ATTR_NAMES):
    if rng.random() > p:
        return {}
    vals = JSON_VALUES if json_only else JSON_VALUES + EXTRA_VALUES
    return {rng.choice(names): rng.choice(vals) for _ in range(rng.randint(1, maxn))}


def hif_unsupported(net):
    """Does `net` hold an attribute the HIF reader of the unchanged tree cannot take (see NODE_KW / EDGE_KW)?"""
    for n in net.nodes:
        if NODE_KW & set(net.nodes[n]) and len(net.nodes.memberships(n)) == 0:
            return True
    for e in net.edges:
        if EDGE_KW & set(net.edges[e]) and len(net.edges.members(e)) == 0:
            return True
    return False


def stddict_unsupported(net):
    """... the standard-dict reader cannot take: any node attribute named like a parameter of add_node."""
    return any(NODE_KW & set(net.nodes[n]) for n in net.nodes)


def _wild_attrs(rng, net, hist, feats, avoid_node_names):
    """1-3 attributes with unusual names, through the attribute-dict API; the (name, place) combinations HIF cannot carry are not generated."""
    vals = [v for v in JSON_VALUES if not isinstance(v, (list, dict))]
    for _ in range(rng.randint(1, 3)):
        name = rng.choice(PARAM_NAMES + PARAM_NAMES + FIELD_NAMES)
        v = rng.choice(vals)
        where = rng.choice(("node", "node", "edge", "edge", "net"))
        if where == "node" and len(net.nodes):
            if name in avoid_node_names:
                continue
            cands = list(net.nodes)
            if name in NODE_KW:
                cands = [n for n in cands if len(net.nodes.memberships(n))]
            if not cands:
                continue
            n = rng.choice(cands)
            if rng.random() < 0.5:
                net.set_node_attributes({n: {name: v}})
                hist.append(f"set_node_attributes({{{n!r}: {{{name!r}: {v!r}}}}})")
            else:
                net.nodes[n][name] = v
                hist.append(f"net.nodes[{n!r}][{name!r}] = {v!r}")
            feats.add("wild-attr-names")
            if name in NODE_KW:
                feats.add("node-attr-named-like-add_node-parameter")
        elif where == "edge" and len(net.edges):
            cands = list(net.edges)
            if name in EDGE_KW:
                cands = [e for e in cands if len(net.edges.members(e))]
            if not cands:
                continue
            e = rng.choice(cands)
            if rng.random() < 0.5:
                net.set_edge_attributes({e: {name: v}})
                hist.append(f"set_edge_attributes({{{e!r}: {{{name!r}: {v!r}}}}})")
            else:
                net.edges[e][name] = v
                hist.append(f"net.edges[{e!r}][{name!r}] = {v!r}")
            feats.add("wild-attr-names")
            if name in EDGE_KW:
                feats.add("edge-attr-named-like-add_edge-parameter")
        elif where == "net":
            net[name] = v
            hist.append(f"net[{name!r}] = {v!r}")
            feats.add("wild-attr-names")


def gen_net(rng, cls, json_only=False, empties=True, min_edges=0, max_edges=7, nkind=None, ekind=None, attrs=True, isolates=True, label_ok=None,
            avoid_node_names=frozenset()):
    """-> (network, info).  info: nkind, ekind, feature tags, and the construction history (strings).
    label_ok: predicate for the labels of the "odd" families (what the representation at hand can carry)."""
    nkind = nkind or rng.choice(NODE_KINDS)
    ekind = ekind or rng.choice(EID_KINDS)
    pool = node_pool(rng, nkind, rng.randint(1, 7), label_ok)
    m = rng.randint(min_edges, max_edges)
    m = min(m, len(_STR_EIDS))
    ids = eid_plan(rng, ekind, m, label_ok)
    m = len(ids)
    net = getattr(xgi, cls)()
    hist = [f"{cls}()"]
    feats = set()
    if attrs:
        for k, v in rand_attrs(rng, json_only, p=0.5, names=NET_ATTR_NAMES).items():
            net[k] = v
            hist.append(f"net[{k!r}] = {v!r}")
            feats.add("net-attrs")
    n_iso = rng.choice((0, 0, 1, 2)) if isolates else 0
    steps = [("edge", i) for i in range(m)] + [("node", None)] * n_iso
    rng.shuffle(steps)
    prev = []
    for what, i in steps:
        if what == "node":
            n = rng.choice(pool)
            a = rand_attrs(rng, json_only) if attrs else {}
            net.add_node(n, **a)
            hist.append(f"add_node({n!r}, **{a!r})")
            if a:
                feats.add("node-attrs")
            continue
        a = rand_attrs(rng, json_only) if attrs else {}
        if a:
            feats.add("edge-attrs")
        idx = ids[i]
        if idx is not None:
            feats.add("explicit-id")
        if cls == "DiHypergraph":
            if prev and rng.random() < 0.15:
                mem = rng.choice(prev)
                feats.add("multi-edge")
            else:
                r = rng.random()
                if empties and r < 0.1:
                    mem = ([], [])
                    feats.add("empty-edge")
                else:
                    t = rng.sample(pool, min(len(pool), rng.randint(0, 3)))
                    rest = [x for x in pool if x not in t] if rng.random() < 0.8 else pool
                    h = rng.sample(rest, min(len(rest), rng.randint(0 if t else 1, 3)))
                    if not t and not h:
                        t = [pool[0]]
                    mem = (t, h)
            prev.append(mem)
            net.add_edge(mem, idx=idx, **a)
            hist.append(f"add_edge({mem!r}, idx={idx!r}, **{a!r})")
        else:
            if prev and cls == "Hypergraph" and rng.random() < 0.15:
                mem = rng.choice(prev)
                feats.add("multi-edge")
            elif empties and cls == "Hypergraph" and rng.random() < 0.1:
                mem = []
                feats.add("empty-edge")
            else:
                mem = rng.sample(pool, min(len(pool), rng.randint(1, 4)))
            prev.append(mem)
            if cls == "Hypergraph":
                net.add_edge(list(mem), idx=idx, **a)
                hist.append(f"add_edge({mem!r}, idx={idx!r}, **{a!r})")
            else:
                net.add_simplex(list(mem), idx=idx, **a)
                hist.append(f"add_simplex({mem!r}, idx={idx!r}, **{a!r})")
    if attrs and len(net.nodes) and rng.random() < 0.4:
        n = rng.choice(list(net.nodes))
        a = rand_attrs(rng, json_only, p=1.0)
        net.set_node_attributes({n: a})
        hist.append(f"set_node_attributes({{{n!r}: {a!r}}})")
        feats.add("node-attrs")
    if attrs and rng.random() < 0.35:
        _wild_attrs(rng, net, hist, feats, avoid_node_names)
    if any(len(net.nodes.memberships(n)) == 0 for n in net.nodes):
        feats.add("isolated-node")
    return net, {"nkind": nkind, "ekind": ekind, "feats": feats, "hist": hist, "cls": cls}


def rebuild(net):
    """A fresh object equal to `net`, built call by call through the public API (never converted, written or cached before).  None if that fails."""
    from copy import deepcopy

    new = type(net)()
    for k, v in net._net_attr.items():
        new[k] = deepcopy(v)
    for n in net.nodes:  # attributes never as keyword arguments: their names may be parameter names
        new.add_node(n)
        new.set_node_attributes({n: deepcopy(dict(net.nodes[n]))})
    if isinstance(net, xgi.DiHypergraph):
        for e in net.edges:
            t, h = net.edges.dimembers(e)
            new.add_edge((sorted(t, key=repr), sorted(h, key=repr)), idx=e)
    elif isinstance(net, xgi.SimplicialComplex):
        new.add_simplices_from([(sorted(net.edges.members(e), key=repr), e, {}) for e in net.edges])
    else:
        for e in net.edges:
            new.add_edge(sorted(net.edges.members(e), key=repr), idx=e)
    for e in net.edges:
        if e in new.edges:
            new.set_edge_attributes({e: deepcopy(dict(net.edges[e]))})
    return new if valid(new) and obs(new).brief() == obs(net).brief() else None


def mutate(rng, net, new_labels=True):
    """Change `net` in place through the public API, keeping the node and edge ID sets where the class allows it
    (a cache keyed on the object or on its IDs then serves stale data).  -> list of the calls made ([] = nothing changed).
    new_labels=False: no node label and no edge ID is introduced that the network did not have."""
    done = []
    nodes, edges = list(net.nodes), list(net.edges)
    di = isinstance(net, xgi.DiHypergraph)
    sc = isinstance(net, xgi.SimplicialComplex)
    if edges and nodes and not sc:
        for _ in range(rng.randint(1, 2)):
            e = rng.choice(edges)
            if di:
                n, d = rng.choice(nodes), rng.choice(("in", "out"))
                t, h = net.edges.dimembers(e)
                if n not in (t if d == "in" else h):
                    net.add_node_to_edge(e, n, d)
                    done.append(f"add_node_to_edge({e!r}, {n!r}, {d!r})")
            else:
                mem = net.edges.members(e)
                out = [n for n in nodes if n not in mem]
                if out and (len(mem) < 2 or rng.random() < 0.6):
                    n = rng.choice(out)
                    net.add_node_to_edge(e, n)
                    done.append(f"add_node_to_edge({e!r}, {n!r})")
                elif len(mem) >= 2:
                    n = rng.choice(sorted(mem, key=repr))
                    net.remove_node_from_edge(e, n)
                    done.append(f"remove_node_from_edge({e!r}, {n!r})")
    if sc and nodes and (edges or new_labels):
        if edges and (not new_labels or rng.random() < 0.5):  # (add_simplex would also introduce new automatic edge IDs)
            e = rng.choice(edges)
            net.remove_simplex_id(e)
            done.append(f"remove_simplex_id({e!r})")
        else:
            fresh = max(nodes) + 1 if all(type(n) is int for n in nodes) else str(nodes[0]) + "_m"  # same label type as the others
            mem = rng.sample(nodes, min(len(nodes), rng.randint(1, 3))) + ([fresh] if new_labels else [])
            if not net.has_simplex(mem):
                net.add_simplex(mem)
                done.append(f"add_simplex({mem!r})")
    if not done or rng.random() < 0.5:
        if nodes:
            n = rng.choice(nodes)
            net.set_node_attributes({n: {"color": "mutated"}})
            done.append(f"set_node_attributes({{{n!r}: {{'color': 'mutated'}}}})")
        edges = list(net.edges)
        if edges:
            e = rng.choice(edges)
            net.set_edge_attributes({e: {"w": -99}})
            done.append(f"set_edge_attributes({{{e!r}: {{'w': -99}}}})")
        net["name"] = "mutated"
        done.append("net['name'] = 'mutated'")
    return done


def scribble(back):
    """Deface a *returned* network (structure, attributes): a later call must not hand out this object, or data aliased with it, again."""
    nodes = list(back.nodes)
    if nodes:
        back.remove_node(nodes[0])
    back.add_node("scribble_node", color="scribble")
    if isinstance(back, xgi.DiHypergraph):
        back.add_edge((["scribble_node"], ["scribble_2"]), idx="scribble_edge")
    elif isinstance(back, xgi.SimplicialComplex):
        back.add_simplex(["scribble_node", "scribble_2"], idx="scribble_edge")
    else:
        back.add_edge(["scribble_node", "scribble_2"], idx="scribble_edge")
    back["name"] = "scribble"
    for n in list(back.nodes)[:2]:
        back.set_node_attributes({n: {"color": "scribble"}})
    for e in list(back.edges)[:2]:
        back.set_edge_attributes({e: {"w": "scribble"}})


def valid(net):
    """Valid start state (C01/C02/C03 structural invariant)."""
    return snap.inv(net) == []


# -------------------------------------------------------------------------------------
# observation
# -------------------------------------------------------------------------------------
def canon(v):
    """Type-strict canonical form of an attribute value (1, 1.0 and True differ)."""
    if isinstance(v, dict):
        return ("dict", tuple(sorted(((repr(k), canon(x)) for k, x in v.items()))))
    if isinstance(v, list):
        return ("list", tuple(canon(x) for x in v))
    if isinstance(v, tuple):
        return ("tuple", tuple(canon(x) for x in v))
    if isinstance(v, (set, frozenset)):
        return (type(v).__name__, tuple(sorted(repr(canon(x)) for x in v)))
    return (type(v).__name__, repr(v))


class Obs:
    """cls, nodes (ordered), edges (ordered), mem {e: frozenset | (tail, head)}, inc (from edges), inc2 (from nodes),
    nattr, eattr, gattr (canonical attribute dicts)."""

    def __init__(self, cls, nodes, edges, mem, inc, inc2, nattr, eattr, gattr):
        self.cls, self.nodes, self.edges, self.mem = cls, nodes, edges, mem
        self.inc, self.inc2, self.nattr, self.eattr, self.gattr = inc, inc2, nattr, eattr, gattr
        self.directed = cls == "DiHypergraph"

    def isolated(self):
        touched = {t[0] for t in self.inc}
        return [n for n in self.nodes if n not in touched]

    def empty(self):
        touched = {t[1] for t in self.inc}
        return [e for e in self.edges if e not in touched]

    def brief(self):
        def sm(m):
            if isinstance(m, tuple):
                return (sorted(m[0], key=repr), sorted(m[1], key=repr))
            return sorted(m, key=repr)

        return (
            f"{self.cls} nodes={self.nodes} edges={[(e, sm(self.mem[e])) for e in self.edges]} "
            f"nattr={ {n: a for n, a in self.nattr.items() if a} } eattr={ {e: a for e, a in self.eattr.items() if a} } net={self.gattr}"
        )


def _cattr(d):
    return {k: canon(v) for k, v in dict(d).items()}


def obs(net):
    cls = type(net).__name__
    nodes = list(net.nodes)
    edges = list(net.edges)
    if isinstance(net, xgi.DiHypergraph):
        mem = {e: (frozenset(t), frozenset(h)) for e, (t, h) in net.edges.dimembers(dtype=dict).items()}
        inc = {(n, e, "tail") for e, (t, h) in mem.items() for n in t} | {(n, e, "head") for e, (t, h) in mem.items() for n in h}
        dms = net.nodes.dimemberships()  # n -> (edges n is a head of, edges n is a tail of)
        inc2 = {(n, e, "head") for n, (i, o) in dms.items() for e in i} | {(n, e, "tail") for n, (i, o) in dms.items() for e in o}
    else:
        mem = {e: frozenset(m) for e, m in net.edges.members(dtype=dict).items()}
        inc = {(n, e) for e, ms in mem.items() for n in ms}
        inc2 = {(n, e) for n, es in net.nodes.memberships().items() for e in es}
    nattr = {n: _cattr(net.nodes[n]) for n in nodes}
    eattr = {e: _cattr(net.edges[e]) for e in edges}
    return Obs(cls, nodes, edges, mem, inc, inc2, nattr, eattr, _cattr(net._net_attr))


def expected(src, nmap=ident, emap=ident, cls=None):
    """The observation a faithful round trip of `src` gives when labels are cast by nmap / emap."""
    nodes = [nmap(n) for n in src.nodes]
    edges = [emap(e) for e in src.edges]
    if src.directed:
        mem = {emap(e): (frozenset(map(nmap, t)), frozenset(map(nmap, h))) for e, (t, h) in src.mem.items()}
        inc = {(nmap(n), emap(e), d) for n, e, d in src.inc}
        inc2 = {(nmap(n), emap(e), d) for n, e, d in src.inc2}
    else:
        mem = {emap(e): frozenset(map(nmap, m)) for e, m in src.mem.items()}
        inc = {(nmap(n), emap(e)) for n, e in src.inc}
        inc2 = {(nmap(n), emap(e)) for n, e in src.inc2}
    return Obs(
        cls or src.cls, nodes, edges, mem, inc, inc2,
        {nmap(n): a for n, a in src.nattr.items()}, {emap(e): a for e, a in src.eattr.items()}, dict(src.gattr),
    )


ALL = ("class", "incidences", "node-set", "edge-set", "node-attributes", "edge-attributes", "network-attributes")
INC = ("incidences",)


def _sd(a, b, n=6):
    """Short symmetric difference of two sets."""
    lost = sorted(a - b, key=repr)[:n]
    extra = sorted(b - a, key=repr)[:n]
    return f"lost={lost} invented={extra}"


def diff(exp, got, clauses=ALL):
    """-> list of (clause, detail); empty when `got` shows everything `exp` demands under `clauses`."""
    out = []
    if "class" in clauses and exp.cls != got.cls:
        out.append(("class", f"expected {exp.cls}, got {got.cls}"))
    if "incidences" in clauses:
        if got.inc != exp.inc:
            out.append(("incidences", "edge view: " + _sd(exp.inc, got.inc)))
        elif got.inc2 != exp.inc:
            out.append(("incidences", "node view (memberships): " + _sd(exp.inc, got.inc2)))
    if "node-set" in clauses and set(exp.nodes) != set(got.nodes):
        out.append(("node-set", _sd(set(exp.nodes), set(got.nodes))))
    if "edge-set" in clauses and set(exp.edges) != set(got.edges):
        out.append(("edge-set", _sd(set(exp.edges), set(got.edges))))
    if "node-attributes" in clauses:
        bad = {n: (a, got.nattr.get(n)) for n, a in exp.nattr.items() if n in got.nattr and got.nattr[n] != a}
        if bad:
            out.append(("node-attributes", f"(expected, got) per node: {bad}"))
    if "edge-attributes" in clauses:
        bad = {e: (a, got.eattr.get(e)) for e, a in exp.eattr.items() if e in got.eattr and got.eattr[e] != a}
        if bad:
            out.append(("edge-attributes", f"(expected, got) per edge: {bad}"))
    if "network-attributes" in clauses and exp.gattr != got.gattr:
        out.append(("network-attributes", f"expected {exp.gattr}, got {got.gattr}"))
    return out


def positional(o, nodes_too=False):
    """Incidences with edges (and optionally nodes) replaced by their position in the view order."""
    epos = {e: i for i, e in enumerate(o.edges)}
    npos = {n: i for i, n in enumerate(o.nodes)} if nodes_too else None
    return {((npos[t[0]] if nodes_too else t[0]), epos[t[1]]) + tuple(t[2:]) for t in o.inc}


# ---- documented ID casts -------------------------------------------------------------------
def castable_int(labels):
    try:
        return all(int(str(x)) == x or str(int(str(x))) == x for x in labels)
    except (ValueError, TypeError):
        return False


def casts(rng, labels, mon):
    """A documented cast for a label family that was string-cast: (type argument, oracle map)."""
    opts = [(None, str), (str, str)]
    if labels and castable_int(labels):
        opts += [(int, lambda x: int(str(x)))] * 2
    t, f = rng.choice(opts)
    mon.note("cast:" + ("none-str" if t is None else t.__name__))
    return t, f


def collides(labels):
    return len({str(x) for x in labels}) < len(labels)


def hif_casts(rng, labels, mon):
    """In memory the HIF dict carries the labels themselves: None / identity cast / str cast."""
    opts = [(None, ident)] * 2 + [(str, str)]
    if labels and all(type(x) is int for x in labels):
        opts.append((int, ident))
    if labels and all(type(x) is str for x in labels) and castable_int(labels):
        opts.append((int, int))
    t, f = rng.choice(opts)
    return t, f


def is_watchdog(exc):
    return type(exc).__name__ == "Watchdog"
