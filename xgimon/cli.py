"""./check <PID> [--tier quick|thorough] [--replay path] [--shard i --nshards n --partial file]

Check-module protocol (xgimon/checks/cNN.py):
    PID, RULE, ASSUMPTIONS, ANCHORS
    plan(tier)  -> {kind: number_of_cases}            (totals over all shards)
    floors(tier)-> {counter_name: minimum}            (coverage floors; missing one => inconclusive)
    run_case(mon, kind, idx, rng)                     (one case; rng = random.Random("PID|seed|kind|idx"))
    CASE_TIMEOUT (optional, seconds)
"""
import argparse
import importlib
import json
import os
import random
import signal
import subprocess
import sys
import tempfile
import time
import traceback

from . import env
from .monitor import Monitor, short

NSHARDS = int(os.environ.get("XGIMON_SHARDS", "16"))


class Watchdog(BaseException):  # BaseException: must not be swallowed by "except Exception" around client calls
    pass


def _alarm(signum, frame):
    raise Watchdog()


def case_rng(pid, seed, kind, idx):
    return random.Random(f"{pid}|{seed}|{kind}|{idx}")


def crash_key(exc):
    """Mechanism key for an exception that escaped a check: type + innermost repo function."""
    tb = traceback.extract_tb(exc.__traceback__)
    where = "harness"
    for fr in reversed(tb):
        if fr.filename.startswith(env.REPO):
            where = f"{os.path.relpath(fr.filename, env.REPO)}:{fr.name}"
            break
    return f"crash|{type(exc).__name__}|{where}"


def run_one(mod, mon, kind, idx):
    rng = case_rng(mod.PID, mon.seed, kind, idx)
    mon.case = (kind, idx)
    mon.cases_run += 1
    timeout = 1200 if kind == "suite" else getattr(mod, "CASE_TIMEOUT", 120)  # "suite": one pytest run of the repository's own tests (xgimon/suite.py)
    signal.signal(signal.SIGALRM, _alarm)
    signal.alarm(timeout)
    try:
        mod.run_case(mon, kind, idx, rng)
    except Watchdog:
        mon.watchdogs += 1
        mon.note("watchdog")
        print(f"WATCHDOG {mod.PID} case={kind}/{idx} after {timeout}s (inconclusive, not a violation)")
    except Exception as exc:  # an exception no monitor anticipated
        mon.fail(crash_key(exc), f"unanticipated {type(exc).__name__}: {exc}", traceback.format_exc()[-2500:])
    finally:
        signal.alarm(0)
        mon.case = None


def iterate(mod, mon, tier):
    plan = mod.plan(tier)
    for kind, n in plan.items():
        for idx in range(n):
            if idx % mon.nshards == mon.shard:
                run_one(mod, mon, kind, idx)


def main(argv=None):
    ap = argparse.ArgumentParser()
    ap.add_argument("pid", nargs="?")
    ap.add_argument("--tier", default=os.environ.get("VERIF_TIER", "quick"))
    ap.add_argument("--replay")
    ap.add_argument("--shard", type=int, default=0)
    ap.add_argument("--nshards", type=int, default=1)
    ap.add_argument("--partial")
    ap.add_argument("--case", help="kind:idx  run a single case")
    a = ap.parse_args(argv)
    seed = int(os.environ.get("VERIF_SEED", "0") or 0)

    if a.replay:
        with open(a.replay) as f:
            rp = json.load(f)
        mod = importlib.import_module(f"xgimon.checks.{rp['property'].lower()}")
        mon = Monitor(rp["property"], rp["tier"], rp["seed"])
        mon.known = {}  # a replay shows everything
        kind, idx = rp["case"]
        run_one(mod, mon, kind, idx)
        for k, v in mon.violations.items():
            print(f"VIOLATION property={mon.pid} replay={a.replay}\n  key={k}\n  what={v['what']}\n  witness={v['witness']}")
        print("replay:", "violated" if mon.violations else "no monitor fired")
        return 1 if mon.violations else 0

    pid = a.pid.upper()
    tier = a.tier if a.tier in ("quick", "thorough") else "quick"
    mod = importlib.import_module(f"xgimon.checks.{pid.lower()}")
    env.start_reach()

    if a.case:
        kind, idx = a.case.rsplit(":", 1)
        mon = Monitor(pid, tier, seed)
        run_one(mod, mon, kind, int(idx))
        for k, v in {**mon.violations, **mon.known_hits}.items():
            print(f"FIRED key={k}\n  what={v['what']}\n  witness={v['witness']}")
        print("counters:", dict(mon.counters))
        return 1 if mon.violations else 0

    if a.partial:  # a shard of a thorough run
        mon = Monitor(pid, tier, seed, a.shard, a.nshards)
        iterate(mod, mon, tier)
        with open(a.partial, "w") as f:
            json.dump(mon.dump(), f, default=str)
        return 0

    mon = Monitor(pid, tier, seed)
    if tier == "quick" or NSHARDS <= 1:
        iterate(mod, mon, tier)
    else:
        work = tempfile.mkdtemp(prefix=f"xgimon-{pid}-", dir=os.path.join(env.VERIF, ".work") if os.path.isdir(os.path.join(env.VERIF, ".work")) else None)
        procs = []
        budget = getattr(mod, "SHARD_TIMEOUT", 3600)
        for i in range(NSHARDS):
            part = os.path.join(work, f"{i}.json")
            cmd = [sys.executable, "-W", "ignore", "-m", "xgimon.cli", pid, "--tier", tier, "--shard", str(i), "--nshards", str(NSHARDS), "--partial", part]
            procs.append((i, part, subprocess.Popen(cmd, cwd=env.VERIF, stdout=subprocess.PIPE, stderr=subprocess.STDOUT, text=True)))
        deadline = time.time() + budget
        for i, part, p in procs:
            try:
                out, _ = p.communicate(timeout=max(1, deadline - time.time()))
            except subprocess.TimeoutExpired:
                p.kill()
                out, _ = p.communicate()
                mon.watchdogs += 1
                print(f"WATCHDOG shard {i} exceeded {budget}s (inconclusive)")
            if out and out.strip():
                print(short(out.strip(), 2000))
            if os.path.exists(part):
                with open(part) as f:
                    mon.merge(json.load(f))
                os.remove(part)
            else:
                mon.watchdogs += 1
                print(f"shard {i} produced no result (exit {p.returncode}) - inconclusive")
        try:
            os.rmdir(work)
        except OSError:
            pass
    extra = mod.extra_coverage(mon) if hasattr(mod, "extra_coverage") else None
    return mon.finish(mod, mod.floors(tier), extra)


if __name__ == "__main__":
    sys.exit(main())
