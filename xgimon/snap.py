"""Observation through the public API + structural invariant oracles (C01, C02, C03).

snap(net) -> canonical, deep-copied, comparable description of the observable network.
inv(net)  -> list of violated clause names (empty list = invariant holds).
"""
import copy
from itertools import combinations

from .env import xgi


def is_di(net):
    return isinstance(net, xgi.DiHypergraph)


def peek_uid(net):
    """Next automatic edge ID, without consuming it."""
    return next(copy.copy(net._edge_uid))


def _norm(v):
    """Attribute values in a comparable form (numpy arrays, deques ... do not define a boolean ==)."""
    t = type(v)
    if t in (int, float, str, bool, type(None)):
        return v
    if isinstance(v, dict):
        return {k: _norm(x) for k, x in v.items()}
    if t is list:
        return [_norm(x) for x in v]
    if t is tuple:
        return tuple(_norm(x) for x in v)
    mod = t.__module__
    if mod == "numpy" and t.__name__ == "ndarray":  # arrays only: numpy scalars compare like Python numbers and may be labels
        return ("ndarray", str(v.dtype), v.tolist())
    if mod == "collections" and t.__name__ == "deque":
        return ("deque", [_norm(x) for x in v])
    if t is bytearray:
        return ("bytearray", bytes(v))
    return v


def snap(net, order=True, uid=False):
    """Ordered snapshot: (class, nodes, edges, net_attr[, next_uid]).

    nodes: list of (id, attrs); edges: list of (id, members | (tail, head), attrs).
    With order=False lists are replaced by dicts (unordered comparison).
    """
    nodes = [(n, _norm(copy.deepcopy(dict(net._node_attr[n]))) if n in net._node_attr else "<no attr record>") for n in net.nodes]
    if is_di(net):
        dm = net.edges.dimembers(dtype=dict)
        mem = {e: (frozenset(t), frozenset(h)) for e, (t, h) in dm.items()}
    else:
        mem = {e: frozenset(m) for e, m in net.edges.members(dtype=dict).items()}
    edges = [
        (e, mem[e], _norm(copy.deepcopy(dict(net._edge_attr[e]))) if e in net._edge_attr else "<no attr record>") for e in net.edges
    ]
    memberships = _memberships(net)
    na = _norm(copy.deepcopy(dict(net._net_attr)))
    if not order:
        out = (type(net).__name__, {n: a for n, a in nodes}, {e: (m, a) for e, m, a in edges}, memberships, na)
    else:
        out = (type(net).__name__, nodes, edges, memberships, na)
    if uid:
        out = out + (peek_uid(net),)
    return out


def _memberships(net):
    if is_di(net):
        return {n: (frozenset(i), frozenset(o)) for n, (i, o) in net.nodes.dimemberships().items()}
    return {n: frozenset(m) for n, m in net.nodes.memberships().items()}


def structure(net):
    """Structural part only (nodes, edges, members) - what freeze() protects."""
    s = snap(net, order=False)
    return (s[1].keys() and frozenset(s[1].keys()), {e: m for e, (m, a) in s[2].items()})


def pretty(net):
    try:
        s = snap(net)
        return f"{s[0]} nodes={s[1]} edges={[(e, sorted_repr(m), a) for e, m, a in s[2]]} net={s[4]}"
    except Exception as exc:  # corrupted state
        return f"<unobservable: {type(exc).__name__}: {exc}> _node={dict(net._node)!r} _edge={dict(net._edge)!r} _node_attr={dict(net._node_attr)!r} _edge_attr={dict(net._edge_attr)!r}"


def sorted_repr(m):
    if isinstance(m, tuple):
        return (sorted(m[0], key=repr), sorted(m[1], key=repr))
    return sorted(m, key=repr)


# ---------------------------------------------------------------------------------
# invariants
# ---------------------------------------------------------------------------------
def inv_undirected(H):
    """C01 clauses (a)-(d) on a Hypergraph / SimplicialComplex."""
    bad = []
    try:
        nodes = list(H.nodes)
        edges = list(H.edges)
        members = H.edges.members(dtype=dict)
        memberships = H.nodes.memberships()
    except Exception as exc:
        return [f"unobservable:{type(exc).__name__}"]
    nset, eset = set(nodes), set(edges)
    if set(members) != eset or set(memberships) != nset:
        bad.append("view-keys-disagree")
    for e, ms in members.items():
        for n in ms:
            if n not in nset:
                bad.append("member-not-a-node")
            elif e not in memberships.get(n, ()):
                bad.append("member-without-membership")
    for n, es in memberships.items():
        for e in es:
            if e not in eset:
                bad.append("membership-not-an-edge")
            elif n not in members.get(e, ()):
                bad.append("membership-without-member")
    # the single-ID forms of the same reports
    try:
        if any(H.nodes.memberships(n) != memberships[n] for n in nodes[:4]) or any(H.edges.members(e) != members[e] for e in edges[:4]):
            bad.append("single-id-report-disagrees-with-full-report")
    except Exception as exc:
        bad.append(f"single-id-report-unobservable:{type(exc).__name__}")
    na, ea = set(H._node_attr), set(H._edge_attr)
    if nset - na:
        bad.append("node-without-attr-record")
    if na - nset:
        bad.append("orphan-node-attr-record")
    if eset - ea:
        bad.append("edge-without-attr-record")
    if ea - eset:
        bad.append("orphan-edge-attr-record")
    for n in nodes:
        try:
            if not isinstance(H.nodes[n], dict):
                bad.append("node-attr-not-a-dict")
        except Exception:
            bad.append("node-attr-unreadable")
    for e in edges:
        try:
            if not isinstance(H.edges[e], dict):
                bad.append("edge-attr-not-a-dict")
        except Exception:
            bad.append("edge-attr-unreadable")
    try:
        deg = H.nodes.degree.asdict()
        siz = H.edges.size.asdict()
        if any(deg[n] != len(memberships[n]) for n in nodes):
            bad.append("degree-disagrees-with-memberships")
        if any(siz[e] != len(members[e]) for e in edges):
            bad.append("size-disagrees-with-members")
    except Exception as exc:
        bad.append(f"stat-unobservable:{type(exc).__name__}")
    return sorted(set(bad))


def inv_directed(D, deep=False):
    """C02 clauses on a DiHypergraph (deep=True: also the order= / degree= variants of the directed statistics)."""
    bad = []
    try:
        nodes = list(D.nodes)
        edges = list(D.edges)
        dm = D.edges.dimembers(dtype=dict)  # e -> (tail, head)
        dms = D.nodes.dimemberships()  # n -> (in-memberships, out-memberships)
        tails = D.edges.tail(dtype=dict)
        heads = D.edges.head(dtype=dict)
        mem = D.edges.members(dtype=dict)
        mships = D.nodes.memberships()
    except Exception as exc:
        return [f"unobservable:{type(exc).__name__}"]
    nset, eset = set(nodes), set(edges)
    if set(dm) != eset or set(dms) != nset:
        bad.append("view-keys-disagree")
    for e, (t, h) in dm.items():
        if tails.get(e) != t or heads.get(e) != h or mem.get(e) != (t | h):
            bad.append("tail-head-members-views-disagree")
        for n in t:
            if n not in nset:
                bad.append("tail-member-not-a-node")
            elif e not in dms[n][1]:
                bad.append("tail-member-without-out-membership")
        for n in h:
            if n not in nset:
                bad.append("head-member-not-a-node")
            elif e not in dms[n][0]:
                bad.append("head-member-without-in-membership")
    for n, (i, o) in dms.items():
        if mships.get(n) != (i | o):
            bad.append("memberships-views-disagree")
        for e in o:
            if e not in eset:
                bad.append("out-membership-not-an-edge")
            elif n not in dm[e][0]:
                bad.append("out-membership-without-tail-member")
        for e in i:
            if e not in eset:
                bad.append("in-membership-not-an-edge")
            elif n not in dm[e][1]:
                bad.append("in-membership-without-head-member")
    na, ea = set(D._node_attr), set(D._edge_attr)
    if nset - na:
        bad.append("node-without-attr-record")
    if na - nset:
        bad.append("orphan-node-attr-record")
    if eset - ea:
        bad.append("edge-without-attr-record")
    if ea - eset:
        bad.append("orphan-edge-attr-record")
    for n in nodes:
        try:
            if not isinstance(D.nodes[n], dict):
                bad.append("node-attr-not-a-dict")
        except Exception:
            bad.append("node-attr-unreadable")
    for e in edges:
        try:
            if not isinstance(D.edges[e], dict):
                bad.append("edge-attr-not-a-dict")
        except Exception:
            bad.append("edge-attr-unreadable")
    try:
        ind = D.nodes.in_degree.asdict()
        outd = D.nodes.out_degree.asdict()
        deg = D.nodes.degree.asdict()
        hs = D.edges.head_size.asdict()
        ts = D.edges.tail_size.asdict()
        sz = D.edges.size.asdict()
        for n in nodes:
            i, o = dms[n]
            if ind[n] != len(i) or outd[n] != len(o) or deg[n] != len(i | o):
                bad.append("degrees-disagree-with-dimemberships")
        for e in edges:
            t, h = dm[e]
            if ts[e] != len(t) or hs[e] != len(h) or sz[e] != len(t | h):
                bad.append("sizes-disagree-with-dimembers")
        # the option variants of the same statistics (order= on the node side, degree= on the edge side)
        if not deep:
            return sorted(set(bad))
        esize = {e: len(dm[e][0] | dm[e][1]) for e in edges}
        ndeg = {n: len(dms[n][0] | dms[n][1]) for n in nodes}
        for k in (0, 1, 2):
            ik, ok_, dk = D.nodes.in_degree(order=k).asdict(), D.nodes.out_degree(order=k).asdict(), D.nodes.degree(order=k).asdict()
            for n in nodes:
                i, o = dms[n]
                if (ik[n] != sum(1 for e in i if esize[e] == k + 1) or ok_[n] != sum(1 for e in o if esize[e] == k + 1)
                        or dk[n] != sum(1 for e in (i | o) if esize[e] == k + 1)):
                    bad.append("order-filtered-degrees-disagree-with-dimemberships")
        for d in (1, 2):
            so, ss = D.edges.order(degree=d).asdict(), D.edges.size(degree=d).asdict()
            hs_, ts_ = D.edges.head_size(degree=d).asdict(), D.edges.tail_size(degree=d).asdict()
            for e in edges:
                t, h = dm[e]
                want = sum(1 for n in (t | h) if ndeg[n] == d)
                if ss[e] != want or so[e] != want - 1 or hs_[e] != sum(1 for n in h if ndeg[n] == d) or ts_[e] != sum(1 for n in t if ndeg[n] == d):
                    bad.append("degree-filtered-sizes-disagree-with-dimembers")
    except Exception as exc:
        bad.append(f"stat-unobservable:{type(exc).__name__}")
    return sorted(set(bad))


def inv_simplicial(S):
    """C03 clauses (a)-(d): downward closed above size 2, duplicate-free, no empty simplex, two-way incidence."""
    bad = inv_undirected(S)
    if any(b.startswith("unobservable") for b in bad):
        return bad
    members = S.edges.members(dtype=dict)
    fam = {}
    for e, m in members.items():
        fm = frozenset(m)
        if fm in fam:
            bad.append("duplicate-simplex")
        fam[fm] = e
        if len(fm) == 0:
            bad.append("empty-simplex")
    for fm in list(fam):
        for k in range(2, len(fm)):
            for sub in combinations(fm, k):
                if frozenset(sub) not in fam:
                    bad.append("missing-face")
                    break
            else:
                continue
            break
    return sorted(set(bad))


def inv(net):
    if is_di(net):
        return inv_directed(net)
    if isinstance(net, xgi.SimplicialComplex):
        return inv_simplicial(net)
    return inv_undirected(net)
