"""tools/seeded_table.py pqr  -> markdown rows (id | change | caught by) for the seeded changes whose id ends in one of the given letters."""
import json, os, sys
here = os.path.join(os.path.dirname(os.path.dirname(os.path.abspath(__file__))), "seeded")
for d in sorted(os.listdir(here)):
    mp = os.path.join(here, d, "meta.json")
    if not os.path.exists(mp) or d[-1] not in sys.argv[1]:
        continue
    m = json.load(open(mp))
    v = m.get("verified", {})
    print(f"| {d} | {' '.join(m.get('title', '').split())[:150]} | {', '.join(v.get('caught_by', [])) or 'MISSED'} |")
