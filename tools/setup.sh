#!/bin/sh
# Offline self-check: nothing to build (pure Python, no third-party deps beyond /venv).
cd "$(dirname "$0")/.." || exit 1
mkdir -p evidence .work replays
PYTHONHASHSEED=0 /venv/bin/python -W ignore -c "
import xgimon.env as e, jsonschema, numpy, scipy, networkx, pandas, matplotlib
print('xgimon setup ok: xgi from', e.xgi.__file__)
"
