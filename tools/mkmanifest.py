"""Regenerate MANIFEST.json from the check modules present (run from /verif with /venv/bin/python)."""
import importlib, json, os, sys, subprocess
sys.path.insert(0, os.path.dirname(os.path.dirname(os.path.abspath(__file__))))
os.chdir(os.path.dirname(os.path.dirname(os.path.abspath(__file__))))
props = [json.loads(l) for l in open("properties.jsonl")]
TECH = {}
checks, na = [], []
for p in props:
    pid = p["id"]
    path = f"xgimon/checks/{pid.lower()}.py"
    if not os.path.exists(path):
        na.append({"property_id": pid, "reason": "check not built yet (work in progress; see DESIGN.md §2 for the planned monitor)"})
        continue
    mod = importlib.import_module(f"xgimon.checks.{pid.lower()}")
    checks.append({
        "property_id": pid,
        "quick_cmd": f"./check {pid} --tier quick",
        "thorough_cmd": f"./check {pid} --tier thorough",
        "evidence_file": f"/verif/evidence/{pid}.json",
        "replay_cmd_template": "./check --replay {path}",
        "engine": "xgimon",
        "level_claimed": {
            "category": "exploration",
            "text": getattr(mod, "LEVEL_TEXT", "Runtime monitoring (exploration): the real xgi code is driven with seeded workloads and an oracle written for this "
                    "property observes every execution; the verdict is 'held on the executions observed' (counts, distinct cases and samples in the "
                    "evidence file), not a proof - the right level for a property quantified over inputs / histories of a pure-Python library "
                    "without threads or native code. Workload and oracle: " + " ".join(str(getattr(mod, "RULE", "")).split())[:700]),
            "design_ref": f"DESIGN.md §2 {pid}",
        },
        "level_note": "Trusted base: CPython, numpy/scipy/networkx/pandas/matplotlib, and the reference models / brute-force oracles under /verif/xgimon. "
                      "Inputs are limited to the generated label and size classes listed in the evidence file's assumptions.",
        "technique": getattr(mod, "TECHNIQUE", "runtime monitoring"),
    })
commits = subprocess.run(["git", "-C", "/repo", "log", "--format=%h %s", "--grep=^hook:"], capture_output=True, text=True).stdout.split("\n")
man = {
    "version": 1,
    "setup_cmd": "./tools/setup.sh",
    "hooks": {
        "guard": "XGI_VERIF",
        "enable": "no source hooks exist: every observation point is public API or one of the tables named by the anchors; checks import /repo's working tree directly (XGIMON_REPO overrides the path)",
        "baseline_off_cmd": "cd /repo && env -u XGI_VERIF /venv/bin/python -m pytest -ra -q -p no:cacheprovider --timeout=900 --continue-on-collection-errors",
        "source_commits": [],
        "add_only": True,
    },
    "engines": [{"name": "xgimon", "path": "/verif/xgimon", "serves_properties": [c["property_id"] for c in checks],
                 "kind_free_text": "pure-Python runtime monitors: seeded workload generators, client-boundary event recording, invariant / reference-model / brute-force oracles, sys.monitoring reach counters"}],
    "checks": checks,
    "not_applicable": na,
    "notes": "Exit codes: 0 held (KNOWN-FINDING lines possible), 1 violation (VIOLATION line), 2 inconclusive (coverage floor missed or watchdog). "
             "known_findings.json lists open findings (suppressed by mechanism key) and fixed ones (suppress nothing).",
}
json.dump(man, open("MANIFEST.json", "w"), indent=1)
import jsonschema
jsonschema.validate(man, json.load(open("/root/.vp/MANIFEST.schema.json")))
print("MANIFEST.json:", len(checks), "checks,", len(na), "not_applicable")
