#!/bin/sh
# tools/try_seeded.sh <ID> [srcdir] [check args...] : run the owning check against a scratch worktree of /repo carrying seeded/<ID>/patch.diff
id=$1; src=${2:-/verif/seeded}; shift; [ $# -gt 0 ] && shift
pid=$(echo "$id" | cut -c1-3)
w=$(mktemp -d /tmp/xgimon-try-$id-XXXX)
git -C /repo worktree add -q --detach "$w/repo" HEAD || exit 3
git -C "$w/repo" apply "$src/$id/patch.diff" || { git -C /repo worktree remove --force "$w/repo"; rm -rf "$w"; exit 3; }
cd "$(dirname "$0")/.." && XGIMON_REPO="$w/repo" XGIMON_EVIDENCE_DIR="$w/ev" ./check "$pid" "$@" 2>&1 | grep -E "^VIOLATION|^  key=|^  what=|^INCONCLUSIVE|^$pid |^FIRED|counters" | cut -c1-400
git -C /repo worktree remove --force "$w/repo"; rm -rf "$w"
