"""Run the repository's pinned suite (guard off) and compare with /root/.vp/BASELINE.json stable_pass."""
import json, os, subprocess, sys, tempfile
import xml.etree.ElementTree as ET
repo = sys.argv[1] if len(sys.argv) > 1 else "/repo"
base = json.load(open("/root/.vp/BASELINE.json"))
passed = set()
# tests.drawing.test_draw::test_issue_515 and the draw doctest are flaky on the pinned commit itself
# (unseeded spring layout -> "RuntimeWarning: overflow encountered in dot"), so a test counts as
# passing when it passes in one of up to three full runs.
for attempt in range(3):
    with tempfile.TemporaryDirectory() as td:
        xml = os.path.join(td, "j.xml")
        env = dict(os.environ); env.pop("XGI_VERIF", None)
        subprocess.run(["/venv/bin/python", "-m", "pytest", "-q", "-p", "no:cacheprovider", "--timeout=900",
                        "--continue-on-collection-errors", f"--junitxml={xml}"],
                       cwd=repo, env=env, stdout=subprocess.DEVNULL, stderr=subprocess.DEVNULL)
        for tc in ET.parse(xml).getroot().iter("testcase"):
            if not any(ch.tag in ("failure", "error", "skipped") for ch in tc):
                passed.add(f"{tc.get('classname')}::{tc.get('name')}")
    missing = [t for t in base["stable_pass"] if t not in passed]
    if not missing:
        break
print(f"stable_pass={len(base['stable_pass'])} passed_now={len(passed)} missing={len(missing)}")
for t in missing[:20]: print("  NOT PASSING:", t)
sys.exit(1 if missing else 0)
