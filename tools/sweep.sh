#!/bin/sh
# tools/sweep.sh <tier> <seed>...   : run every check for the given seeds, print one line per run, non-zero exit if any failed
tier=$1; shift
cd "$(dirname "$0")/.." || exit 3
rc=0
for s in "$@"; do
  for c in C01 C02 C03 C04 C05 C06 C07 C08 C09 C10 C11 C12 C13 C14 C15 C16 C17 C18 C19 C20; do
    out=$(VERIF_SEED=$s XGIMON_EVIDENCE_DIR=${SWEEP_EVIDENCE:-$PWD/.work/sweep-evidence} ./check $c --tier $tier 2>&1); r=$?
    echo "$out" | grep -E "^C[0-9]+ |^VIOLATION|^  key=|^INCONCLUSIVE|^WATCHDOG" | cut -c1-300
    [ $r -ne 0 ] && { rc=1; echo "FAILED $c seed=$s tier=$tier rc=$r"; }
  done
done
exit $rc
