"""Self-validation of the monitors (DESIGN §5).

    /venv/bin/python selftest/run.py [--only M01,M02] [--props C01,C05] [--tier quick] [--suite]

Each mutant (selftest/mutants.py) is a deliberate break of the repository: (file, old text, new
text). It is applied to a scratch copy of /repo/xgi outside /repo and /verif, the listed checks are
run with XGIMON_REPO pointing at the copy, and caught / missed is recorded in selftest/RESULTS.md.
With --suite the repository's own tests are run against the mutant too (a mutant the suite already
kills is less interesting). The scratch copy is removed afterwards.
"""
import argparse
import os
import shutil
import subprocess
import sys
import tempfile
import time

HERE = os.path.dirname(os.path.abspath(__file__))
VERIF = os.path.dirname(HERE)
sys.path.insert(0, HERE)
from mutants import MUTANTS  # noqa: E402


def run_check(pid, repo, tier, seed="0"):
    env = dict(os.environ, XGIMON_REPO=repo, VERIF_SEED=seed, XGIMON_EVIDENCE_DIR=os.path.join(repo, "evidence"))
    p = subprocess.run([os.path.join(VERIF, "check"), pid, "--tier", tier], cwd=VERIF, env=env, capture_output=True, text=True, timeout=3600)
    keys = [l.strip() for l in p.stdout.splitlines() if l.strip().startswith("key=")]
    return p.returncode, keys


def main():
    ap = argparse.ArgumentParser()
    ap.add_argument("--only")
    ap.add_argument("--props")
    ap.add_argument("--tier", default="quick")
    ap.add_argument("--suite", action="store_true")
    ap.add_argument("--jobs", type=int, default=8)
    a = ap.parse_args()
    only = set(a.only.split(",")) if a.only else None
    rows = []
    from concurrent.futures import ThreadPoolExecutor

    def one(m):
        mid, path, old, new, props, note = m
        work = tempfile.mkdtemp(prefix="xgimon-selftest-", dir="/tmp")
        try:
            shutil.copytree("/repo/xgi", os.path.join(work, "xgi"))
            shutil.copytree("/repo/tests", os.path.join(work, "tests"))
            shutil.copy("/repo/pyproject.toml", work)
            f = os.path.join(work, path)
            src = open(f).read()
            if src.count(old) != 1:
                return (mid, path, note, "MUTANT-DOES-NOT-APPLY", "", "")
            open(f, "w").write(src.replace(old, new))
            suite = ""
            if a.suite:
                p = subprocess.run(["/venv/bin/python", "-m", "pytest", "-q", "-x", "-p", "no:cacheprovider", "tests"], cwd=work,
                                   env=dict(os.environ, PYTHONPATH=work), capture_output=True, text=True)
                suite = "suite-kills" if p.returncode else "suite-passes"
            res = []
            allkeys = []
            for pid in (a.props.split(",") if a.props else props):
                t0 = time.time()
                rc, keys = run_check(pid, work, a.tier)
                res.append(f"{pid}:{'CAUGHT' if rc == 1 else ('inconclusive' if rc == 2 else 'missed')}({time.time() - t0:.0f}s)")
                allkeys += keys[:2]
            return (mid, path, note, " ".join(res), suite, "; ".join(allkeys)[:300])
        finally:
            shutil.rmtree(work, ignore_errors=True)

    todo = [m for m in MUTANTS if not only or m[0] in only]
    with ThreadPoolExecutor(a.jobs) as ex:
        for row in ex.map(one, todo):
            rows.append(row)
            print(" | ".join(row), flush=True)
    if not only and not a.props:
        with open(os.path.join(HERE, "RESULTS.md"), "w") as f:
            f.write("# Self-validation results (selftest/run.py, tier=%s)\n\n| mutant | file | break | checks | suite | first keys |\n|---|---|---|---|---|---|\n" % a.tier)
            for r in rows:
                f.write("| " + " | ".join(x.replace("|", "\\|") for x in r) + " |\n")
    missed = [r for r in rows if "missed" in r[3] and "CAUGHT" not in r[3]]
    print(f"{len(rows)} mutants, {len(missed)} missed by every listed check")


if __name__ == "__main__":
    main()
