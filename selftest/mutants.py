"""Deliberate breaks of xgi used to validate the monitors: (id, file, old, new, checks expected to fire, note)."""
H = "xgi/core/hypergraph.py"
D = "xgi/core/dihypergraph.py"
S = "xgi/core/simplicialcomplex.py"
U = "xgi/utils/utilities.py"
V = "xgi/core/views.py"

MUTANTS = [
    ("M01", H, "                for node in node_neighbors.difference({n}):\n                    self._node[node].remove(e)\n        else:  # weak removal",
     "                pass\n        else:  # weak removal", ["C01", "C05"], "strong removal forgets the other members' memberships"),
    ("M02", H, "        self._edge[e_id1] = temp_members1\n        self._edge[e_id2] = temp_members2\n",
     "        self._edge[e_id1] = temp_members1\n", ["C01", "C05"], "double_edge_swap commits only one edge"),
    ("M03", H, "        for node in self.nodes:\n            self._node[node] = set()\n        self._edge.clear()", "        self._edge.clear()", ["C01", "C05"], "clear_edges keeps memberships"),
    ("M04", H, "            self._edge[edge].remove(node)\n\n        self._node[node].remove(edge)\n", "            self._edge[edge].remove(node)\n\n",
     ["C01", "C05"], "remove_node_from_edge forgets the node side"),
    ("M05", H, "                if not self._edge[edge] and remove_empty:\n                    del self._edge[edge]\n                    del self._edge_attr[edge]\n\n    def remove_nodes_from",
     "                if not self._edge[edge] and not remove_empty:\n                    del self._edge[edge]\n                    del self._edge_attr[edge]\n\n    def remove_nodes_from",
     ["C05"], "weak removal inverts remove_empty"),
    ("M06", H, "                self._edge_attr[idx].update(attr)\n                self._edge_attr[idx].update(eattr)\n",
     "                self._edge_attr[idx].update(eattr)\n                self._edge_attr[idx].update(attr)\n", ["C05"], "kwargs take precedence over per-edge attributes"),
    ("M07", H, "                    idx = min(dup_ids)\n", "                    idx = max(dup_ids)\n", ["C05"], "merge_rule=first takes the last duplicate"),
    ("M08", H, "        if remove_net_attr:\n            self._net_attr.clear()", "        self._net_attr.clear()", ["C05"], "clear(remove_net_attr=False) clears anyway"),
    ("M09", D, "        if direction == \"in\":\n            ed = \"in\"\n            nd = \"out\"\n        elif direction == \"out\":\n            ed = \"out\"\n            nd = \"in\"\n        else:\n            raise XGIError(\"Invalid direction!\")\n\n        if edge not in self._edge:\n            self._edge[edge] = {\"in\": set(), \"out\": set()}",
     "        if direction == \"in\":\n            ed = \"in\"\n            nd = \"in\"\n        elif direction == \"out\":\n            ed = \"out\"\n            nd = \"in\"\n        else:\n            raise XGIError(\"Invalid direction!\")\n\n        if edge not in self._edge:\n            self._edge[edge] = {\"in\": set(), \"out\": set()}",
     ["C02", "C05"], "add_node_to_edge: wrong membership side for direction in"),
    ("M10", D, "            for edge in edge_neighbors[\"out\"]:\n                self._edge[edge][\"in\"].remove(n)\n", "", ["C02", "C05"], "weak removal skips the tail side"),
    ("M11", D, "            for node in edge[\"in\"]:\n                self._node[node][\"out\"].remove(idx)\n            for node in edge[\"out\"]:\n                self._node[node][\"in\"].remove(idx)\n\n            del self._edge[idx]\n            del self._edge_attr[idx]\n\n    def remove_node_from_edge",
     "            for node in edge[\"out\"]:\n                self._node[node][\"in\"].remove(idx)\n\n            del self._edge[idx]\n            del self._edge_attr[idx]\n\n    def remove_node_from_edge",
     ["C02", "C05"], "remove_edges_from skips tail members"),
    ("M12", S, "            for n in range(size, 2, -1):", "            for n in range(size, 3, -1):", ["C03", "C05"], "_subfaces stops one size early"),
    ("M13", S, "            supfaces_ids = self._supfaces_id(self._edge[idx])\n            for sup_id in supfaces_ids:\n                self._remove_simplex_id(sup_id)\n", "            self._edge[idx]\n",
     ["C03", "C05"], "remove_simplex_id without the superset sweep"),
    ("M14", S, "        return frozenset(simplex) in self._edge.values()", "        return frozenset(simplex) in self._edge.keys() or frozenset(simplex) in self._edge.values()", ["C03"], "has_simplex also compares against IDs (harmless unless ids are frozensets)"),
    ("M15", S, "            if not members or self.has_simplex(members):\n                try:\n                    e = next(new_edges)",
     "            if not members:\n                try:\n                    e = next(new_edges)", ["C03", "C05"], "bulk path drops the has_simplex de-duplication"),
    ("M16", U, "        and uid <= idx\n", "        and uid < idx\n", ["C04"], "update_uid_counter uses <"),
    ("M16b", U, "    if is_integer and uid <= idx:", "    if is_integer and uid < idx:", ["C04", "C01", "C05"], "update_uid_counter uses <"),
    ("M17", H, "        cp._edge_uid = copy(self._edge_uid)\n\n        return cp\n\n    def dual", "        return cp\n\n    def dual", ["C04", "C07"], "copy() does not carry the counter (harmless: add_edges_from recomputes)"),
    ("M18", U, "        start = int(idx) + 1\n", "        start = int(idx)\n", ["C04", "C01", "C05"], "counter restarts at the explicit ID itself"),
]

ST = "xgi/stats/__init__.py"
NS = "xgi/stats/nodestats.py"
ES = "xgi/stats/edgestats.py"
MUTANTS += [
    ("M20", V, "            bunch = [idx for idx in self if values[idx] <= val]", "            bunch = [idx for idx in self if values[idx] < val]", ["C06"], "filterby leq -> <"),
    ("M21", V, "                if len(self._id_dict[idx].intersection(self._id_dict[i])) >= s", "                if len(self._id_dict[idx].intersection(self._id_dict[i])) > s", ["C06"], "neighbors uses > s"),
    ("M22", NS, "            n: len([e for e in net._node[n] if len(net._edge[e]) == order + 1])", "            n: len([e for e in net._node[n] if len(net._edge[e]) == order])", ["C06"], "degree(order=k) off by one"),
    ("M23", V, "            newview._ids = [i for i in view._id_dict if i in bunch]", "            newview._ids = [i for i in bunch if i in view._id_dict]", ["C06"], "from_view does not preserve view order"),
    ("M24", H, "        self._node.clear()\n        self._node_attr.clear()\n        self._edge.clear()\n        self._edge_attr.clear()\n        if remove_net_attr:",
     "        self._node = self._node_dict_factory()\n        self._node_attr.clear()\n        self._edge.clear()\n        self._edge_attr.clear()\n        if remove_net_attr:", ["C06", "C01"], "clear() rebinds the node table: held views go stale"),
    ("M25", ST, "        val = self._val\n        return [val[n] for n in self.view]", "        val = self._val\n        return [val[n] for n in val]", ["C06"], "aslist follows dict (set) order instead of view order"),
    ("M26", ES, "        return {e: len(net._edge[e]) - 1 for e in bunch}", "        return {e: max(len(net._edge[e]) - 1, 0) for e in bunch}", ["C06"], "order of an empty edge reported as 0"),
    ("M27", V, "                    dups.extend(sorted(edges)[1:])", "                    dups.extend(sorted(edges))", ["C06"], "duplicates returns all k"),
    ("M28", V, "                if len(members) == 1:\n                    continue", "                if len(members) <= 1 or len(members) == 2:\n                    continue", ["C06"], "isolates(ignore_singletons) also ignores pairs"),
    ("M29", "xgi/stats/dinodestats.py", "        return {n: len(net._node[n][\"in\"]) for n in bunch}", "        return {n: len(net._node[n][\"out\"]) for n in bunch}", ["C06", "C02"], "in_degree counts out-memberships"),
]

HON = "xgi/convert/higher_order_network.py"
MUTANTS += [
    ("M30", H, "        cp.add_nodes_from((n, deepcopy(attr)) for n, attr in nn.items())\n        ee = self.edges\n        cp.add_edges_from(\n            (e, idx, deepcopy(self.edges[idx]))",
     "        cp.add_nodes_from((n, attr) for n, attr in nn.items())\n        ee = self.edges\n        cp.add_edges_from(\n            (e, idx, self.edges[idx])", ["C07"], "Hypergraph.copy() without deepcopy of attribute values"),
    ("M31", H, "        cp._edge_uid = copy(self._edge_uid)\n\n        return cp\n\n    def dual", "        cp._edge_uid = self._edge_uid\n\n        return cp\n\n    def dual", ["C07"], "copy shares the ID counter object"),
    ("M32", H, "            \"_node_attr\": self._node_attr,\n            \"_edge\": self._edge,", "            \"_node_attr\": self._node_attr.__class__((k, {}) for k in self._node_attr),\n            \"_edge\": self._edge,", ["C07"], "__getstate__ drops node attribute values"),
    ("M33", V, "                return {key: self._id_dict[key].copy() for key in self}\n            elif dtype is list:\n                return [self._id_dict[key].copy() for key in self]\n            else:\n                raise XGIError(f\"Unrecognized dtype {dtype}\")\n\n        if e not in self:\n            raise IDNotFound(f'ID \"{e}\" not in this view')\n\n        return self._id_dict[e].copy()\n\n    def singletons",
     "                return {key: self._id_dict[key] for key in self}\n            elif dtype is list:\n                return [self._id_dict[key].copy() for key in self]\n            else:\n                raise XGIError(f\"Unrecognized dtype {dtype}\")\n\n        if e not in self:\n            raise IDNotFound(f'ID \"{e}\" not in this view')\n\n        return self._id_dict[e].copy()\n\n    def singletons",
     ["C07", "C08"], "members(dtype=dict) hands out the internal sets (copy shares member sets)"),
    ("M34", HON, "        H.add_edges_from((ee.members(e), e, deepcopy(attr)) for e, attr in ee.items())\n        H._net_attr = deepcopy(data._net_attr)\n        return H\n\n    elif isinstance(data, DiHypergraph):",
     "        H.add_edges_from((ee.members(e), e, deepcopy(attr)) for e, attr in ee.items())\n        H._net_attr = data._net_attr\n        return H\n\n    elif isinstance(data, DiHypergraph):", ["C07"], "Hypergraph(H) shares the network attribute dict"),
    ("M35", D, "        cp._net_attr = deepcopy(self._net_attr)\n\n        cp._edge_uid = copy(self._edge_uid)\n\n        return cp\n\n    def cleanup", "        cp._net_attr = dict(self._net_attr)\n\n        cp._edge_uid = copy(self._edge_uid)\n\n        return cp\n\n    def cleanup", ["C07"], "DiHypergraph.copy() shallow-copies network attributes"),
]

MUTANTS += [
    ("M40", "xgi/generators/randomizing.py", "    HH = H.copy()", "    HH = H", ["C08"], "node_swap works on its argument"),
    ("M41", H, "        if in_place:\n            _H = self\n        else:\n            _H = self.copy()\n        if not multiedges:", "        _H = self\n        if not multiedges:", ["C08", "C19"], "cleanup(in_place=False) forgets the copy"),
    ("M42", "xgi/algorithms/connected.py", "    if not in_place:\n        return subhypergraph(H, nodes=connected_nodes).copy()\n    else:\n        H.remove_nodes_from(set(H.nodes).difference(connected_nodes))",
     "    H.remove_nodes_from(set(H.nodes).difference(connected_nodes))\n    if not in_place:\n        return H.copy()", ["C08", "C19"], "largest_connected_hypergraph prunes its argument when in_place=False"),
    ("M43", V, "            {key: self._id_dict[key].copy() for key in self}\n            if n is None\n            else self._id_dict[n].copy()", "            {key: self._id_dict[key].copy() for key in self}\n            if n is None\n            else self._id_dict[n]", ["C08"], "memberships(n) hands out the internal set"),
    ("M44", "xgi/core/globalviews.py", "    new._net_attr = H._net_attr.copy()", "    new._net_attr = H._net_attr\n    new._net_attr['sub'] = True", ["C08"], "subhypergraph writes into the source's network attributes"),
    ("M45", "xgi/convert/hif_dict.py", "def to_hif_dict(H):", "def to_hif_dict(H):\n    H._net_attr.setdefault('network-type', 'undirected')", ["C08"], "to_hif_dict records the type in the input's attributes"),
]

MUTANTS += [
    ("M50", H, "        self.remove_nodes_from = frozen\n        self.add_edge = frozen\n        self.add_edges_from = frozen\n        self.add_weighted_edges_from = frozen", "        self.remove_nodes_from = frozen\n        self.add_edge = frozen\n        self.add_edges_from = frozen", ["C18"], "Hypergraph.freeze forgets add_weighted_edges_from (still blocked indirectly: equivalent)"),
    ("M51", D, "        self.remove_edge = frozen\n        self.remove_edges_from = frozen\n        self.add_node_to_edge = frozen", "        self.remove_edges_from = frozen\n        self.add_node_to_edge = frozen", ["C18"], "DiHypergraph.freeze forgets remove_edge"),
    ("M52", "xgi/core/globalviews.py", "    new.freeze()\n    return new", "    return new", ["C18", "C19"], "subhypergraph without freeze()"),
    ("M53", H, "        cp._edge_uid = copy(self._edge_uid)\n\n        return cp\n\n    def dual", "        cp._edge_uid = copy(self._edge_uid)\n        if self.is_frozen:\n            cp.freeze()\n\n        return cp\n\n    def dual", ["C18", "C07"], "copy() propagates frozen"),
    ("M54", S, "        self.remove_simplex_id = frozen\n", "", ["C18"], "SimplicialComplex.freeze forgets remove_simplex_id"),
    ("M55", "xgi/exception.py", "    raise XGIError(\"Frozen higher-order network can't be modified\")", "    raise RuntimeError(\"Frozen higher-order network can't be modified\")", ["C18"], "frozen raises a foreign error type"),
    ("M56", H, "        self.frozen = True\n\n    @property\n    def is_frozen", "        self.frozen = False\n\n    @property\n    def is_frozen", ["C18"], "is_frozen reports False after freeze"),
]
